"""C01 Scheduler job/core counters always match job states  (structural clauses).

Decided from the parsed SQL program (effective routines after migration replay) and the SQL embedded in Python:
  R1  jobs_after_update: every counter column receives  spec(NEW view) - spec(OLD view)  (truth table over the full
      state x cancelled x always_run x group-cancelled domain); insert value == on-duplicate increment; keyed by the job's
      user / inst_coll; cancellable rows fan out over the job's group and all its ancestors
  R2  the service's own audit (check_incremental) recomputes exactly the same spec and compares like-named columns
  R3  INSERT..ON DUPLICATE KEY UPDATE into a counter table: same amount on the insert and the update side, no one-sided column
  R4  cancel_job_group / cancel_batch: what leaves n_*_jobs / *_cores_mcpu enters n_cancelled_*; only committed updates; guarded by
      NOT already-cancelled; group cancel removes the group's cancellable sums from itself and every ancestor
  R5  _create_jobs: per-job tallies agree with the inserted state / always_run and are bound to the like-named columns; fan out over ancestors
  R6  closed world: only the listed routines / functions write the counter tables; cleanup deletes are keyed and filtered
  R7  commit_batch_update hands over exactly the root-group staging sums of that update, once
  R8  no UPDATE changes the job columns the trigger treats as immutable
Not decided: InnoDB locking / token-shard concurrency and the inductive argument over whole histories.
"""
from __future__ import annotations

import ast
import itertools
import re
from typing import Any, Dict, List, Optional, Tuple

from engines import pyfacts as pf
from engines import sqlfront as sf
from engines import sqlrules as sr
from engines.common import AnalysisError, Ctx, norm
from engines.sqlast import N, text
from engines.sqleval import ev

META = dict(
    category='other',
    text='Per-statement obligations of the counter invariant, each decided on every writer of the counter tables: truth-table equality of the '
         'trigger deltas with the recomputation spec over the complete finite job-state domain, insert/update symmetry, cancel symmetry, '
         'ancestor fan-out, staging hand-over and a closed-world writer set. Static because the counters are maintained by SQL text whose '
         'shape determines the increments on every path; the inductive argument over histories and lock semantics are not decided.',
    note='Trusted: our SQL parser/evaluator (engines/sqlast.py, sqleval.py), migration replay order from build.yaml; assumes jobs.always_run, '
         'cores_mcpu, inst_coll, job_group_id are immutable (as the trigger comments state) and MySQL fires jobs_after_update for every UPDATE of jobs.',
    technique='static analysis: SQL AST rules + exhaustive truth tables over the job-state domain + closed-world writer scan',
    design_ref='DESIGN.md §3 C01',
)

STATES = ['Pending', 'Ready', 'Creating', 'Running', 'Success', 'Failed', 'Error', 'Cancelled']
USER_TBL = 'user_inst_coll_resources'
CANC_TBL = 'job_group_inst_coll_cancellable_resources'
STAGE_TBL = 'job_groups_inst_coll_staging'
F_119 = 'effective SQL'


# the recomputation the statement speaks of: (state, marked_cancelled, always_run, cores) -> value
def _spec(col: str, state: str, marked: int, always_run: int, cores: int) -> int:
    cancelled = (not always_run) and marked
    cancellable = (not always_run) and not marked
    table = {
        'n_ready_jobs': state == 'Ready' and not cancelled,
        'n_running_jobs': state == 'Running' and not cancelled,
        'n_creating_jobs': state == 'Creating' and not cancelled,
        'ready_cores_mcpu': cores * (state == 'Ready' and not cancelled),
        'running_cores_mcpu': cores * (state == 'Running' and not cancelled),
        'n_cancelled_ready_jobs': state == 'Ready' and cancelled,
        'n_cancelled_running_jobs': state == 'Running' and cancelled,
        'n_cancelled_creating_jobs': state == 'Creating' and cancelled,
        'n_ready_cancellable_jobs': state == 'Ready' and cancellable,
        'n_running_cancellable_jobs': state == 'Running' and cancellable,
        'n_creating_cancellable_jobs': state == 'Creating' and cancellable,
        'ready_cancellable_cores_mcpu': cores * (state == 'Ready' and cancellable),
        'running_cancellable_cores_mcpu': cores * (state == 'Running' and cancellable),
    }
    return int(table[col])


USER_COUNTERS = ['n_ready_jobs', 'n_running_jobs', 'n_creating_jobs', 'ready_cores_mcpu', 'running_cores_mcpu',
                 'n_cancelled_ready_jobs', 'n_cancelled_running_jobs', 'n_cancelled_creating_jobs']
CANC_COUNTERS = ['n_ready_cancellable_jobs', 'ready_cancellable_cores_mcpu', 'n_creating_cancellable_jobs', 'n_running_cancellable_jobs',
                 'running_cancellable_cores_mcpu']
STAGE_COUNTERS = ['n_jobs', 'n_ready_jobs', 'ready_cores_mcpu']


def _find_inserts(body, table: str) -> List[N]:
    return [st for st in sf.all_statements(body) if st.kind == 'insert' and st.table.lower() == table]


# ------------------------------------------------------------------------------------------------
def r1_trigger(ctx: Ctx, prog: sf.SqlProgram) -> None:
    r = prog.routine('jobs_after_update')
    a = r.ast
    ctx.need(a.rkind == 'trigger' and a.timing == 'AFTER' and a.event == 'UPDATE' and a.table.lower() == 'jobs', 'jobs_after_update is not AFTER UPDATE ON jobs')
    env = sr.inline_sets(a.body, sr.declared_vars(a))
    # the group-cancelled flag: SELECT is_job_group_cancelled(OLD.batch_id, OLD.job_group_id) INTO cur_job_group_cancelled
    gc_var = None
    for st in a.body:
        if st.kind == 'select' and st.into and len(st.cols) == 1 and st.cols[0][0].kind == 'func' and st.cols[0][0].name == 'IS_JOB_GROUP_CANCELLED':
            args = [text(x).lower() for x in st.cols[0][0].args]
            ctx.check(args in (['old.batch_id', 'old.job_group_id'], ['new.batch_id', 'new.job_group_id']), 'R1',
                      f'{r.file}::jobs_after_update::group-cancelled lookup',
                      f'is_job_group_cancelled is evaluated on {args}, not on the job\'s own (batch_id, job_group_id)', r.file, r.line_of(st))
            gc_var = st.into[0].parts[0].lower()
    ctx.need(gc_var is not None, 'jobs_after_update: group-cancelled lookup not recognised')

    points = list(itertools.product(STATES, STATES, (0, 1), (0, 1), (0, 1), (0, 1)))
    CORES = 7

    def check_table(table: str, counters: List[str]):
        inserts = _find_inserts(a.body, table)
        ctx.need(len(inserts) == 1, f'jobs_after_update: expected one INSERT into {table}, found {len(inserts)}')
        st = inserts[0]
        ins, dup, uvars = sr.insert_colmap(st)
        for col in counters:
            cons = f'{r.file}::jobs_after_update::{table}.{col}'
            if col not in ins:
                ctx.bad('R1', cons, f'counter column {col} is not maintained by the trigger insert into {table}', r.file, r.line_of(st))
                continue
            e = sr.inline_expr(ins[col], env)
            atoms = {text(c).lower() for c in sf.cols_in(e)}
            allowed = {'old.state', 'new.state', 'old.cancelled', 'new.cancelled', 'old.always_run', 'new.always_run', 'old.cores_mcpu', 'new.cores_mcpu', gc_var}
            ctx.need(atoms <= allowed, f'jobs_after_update: delta for {col} depends on unexpected inputs {sorted(atoms - allowed)}')
            wrong = None
            for (os_, ns, oc, nc, ar, gc) in points:
                vals = {'old.state': os_, 'new.state': ns, 'old.cancelled': oc, 'new.cancelled': nc, 'old.always_run': ar, 'new.always_run': ar,
                        'old.cores_mcpu': CORES, 'new.cores_mcpu': CORES, gc_var: gc}
                got = ev(e, lambda c: vals[text(c).lower()])
                want = _spec(col, ns, int(nc or gc), ar, CORES) - _spec(col, os_, int(oc or gc), ar, CORES)
                if got != want:
                    wrong = (os_, ns, oc, nc, ar, gc, got, want)
                    break
            if wrong:
                os_, ns, oc, nc, ar, gc, got, want = wrong
                ctx.bad('R1', cons, f'transition {os_}->{ns} (cancelled {oc}->{nc}, always_run={ar}, group_cancelled={gc}) changes {col} by {got}, '
                        f'recomputation from job state gives {want}', r.file, r.line_of(st))
            else:
                ctx.ok('R1', cons, {'points': len(points)})
            # insert value == on-duplicate increment
            inc = sr.dup_increment(col, dup[col], uvars) if col in dup else None
            same = inc is not None and inc[0] == 1 and text(sr.inline_expr(inc[1], env)) == text(e)
            ctx.check(same, 'R3', cons + '::on-duplicate',
                      f'ON DUPLICATE KEY UPDATE for {col} is `{text(dup.get(col))}`, not `{col} = {col} + <the inserted delta>`: an existing token row and a '
                      f'fresh one would receive different amounts', r.file, r.line_of(st))
        extra = [c for c in dup if c not in counters]
        ctx.check(not extra, 'R3', f'{r.file}::jobs_after_update::{table}::one-sided', f'columns updated on duplicate key but not counters: {extra}', r.file, r.line_of(st))
        return st, ins

    ust, uins = check_table(USER_TBL, USER_COUNTERS)
    cst, cins = check_table(CANC_TBL, CANC_COUNTERS)
    ctx.unit('truth_table_points', len(points) * (len(USER_COUNTERS) + len(CANC_COUNTERS)))

    # keys: user of the job's batch, the job's inst_coll
    user_e = sr.inline_expr(uins.get('user', N('lit', value=None)), env)
    user_ok = False
    if sr.is_var(uins.get('user', N('lit', value=None))):
        v = uins['user'].parts[0].lower()
        for st in a.body:
            if st.kind == 'select' and st.into and [t.parts[0].lower() for t in st.into if sr.is_var(t)] == [v]:
                user_ok = (text(st.cols[0][0]).lower() == 'user' and sf.table_names(st.frm) == ['batches']
                           and (sr.has_eq(st.where, 'id', 'new.batch_id') or sr.has_eq(st.where, 'id', 'old.batch_id')))
    ctx.check(user_ok, 'R1', f'{r.file}::jobs_after_update::{USER_TBL}.user', 'user key is not the owner of the job\'s batch (SELECT user FROM batches WHERE id = NEW.batch_id)',
              r.file, r.line_of(ust))
    ic = text(uins.get('inst_coll', N('lit', value=None))).lower()
    ctx.check(ic in ('new.inst_coll', 'old.inst_coll'), 'R1', f'{r.file}::jobs_after_update::{USER_TBL}.inst_coll', f'inst_coll key is `{ic}`', r.file, r.line_of(ust))
    # R5 fan-out of the cancellable row over self and ancestors
    _check_fanout(ctx, 'R5', f'{r.file}::jobs_after_update::{CANC_TBL}', cst, cins, r.file, r.line_of(cst),
                  batch='new.batch_id', group='new.job_group_id', update='new.update_id', inst_coll='new.inst_coll')


def _check_fanout(ctx: Ctx, rule: str, cons: str, st: N, ins: Dict[str, N], file: str, line: int, batch: str, group: str, update: Optional[str], inst_coll: Optional[str]) -> None:
    sel = st.select
    ok = sel is not None and sf.table_names(sel.frm)[:1] == ['job_group_self_and_ancestors']
    msg = ''
    if not ok:
        msg = 'rows are not generated from job_group_self_and_ancestors'
    else:
        jg = text(ins.get('job_group_id', N('lit', value=None))).lower().split('.')[-1]
        if jg != 'ancestor_id':
            ok, msg = False, f'job_group_id column receives `{jg}` instead of ancestor_id (counts would not reach the ancestors)'
        elif not (sr.has_eq(sel.where, 'batch_id', batch) and sr.has_eq(sel.where, 'job_group_id', group)):
            ok, msg = False, f'ancestor walk is not keyed by the job\'s own ({batch}, {group}): WHERE {text(sel.where)}'
        elif text(ins.get('batch_id', N('lit', value=None))).lower().split('.')[-1] not in (batch.split('.')[-1], batch, '%s', 'batch_id'):
            ok, msg = False, f'batch_id column receives `{text(ins.get("batch_id"))}`'
        elif update and text(ins.get('update_id', N('lit', value=None))).lower() not in (update, '%s'):
            ok, msg = False, f'update_id column receives `{text(ins.get("update_id"))}`'
    ctx.check(ok, rule, cons + '::ancestor fan-out', msg, file, line)


# ------------------------------------------------------------------------------------------------
def r2_audit(ctx: Ctx) -> None:
    m = pf.load('batch/batch/driver/main.py')
    embs = [e for e in sf.embedded_in(m) if e.qual.startswith('check_incremental')]
    ctx.need(len(embs) == 1, f'check_incremental: expected one embedded statement, found {len(embs)}')
    e = embs[0]
    sts = e.stmts()
    ctx.need(not e.parse_error and len(sts) == 1 and sts[0].kind == 'select', f'check_incremental query does not parse: {e.parse_error}')
    q = sts[0]
    refs = sf.from_tables(q.frm)
    ctx.need(len(refs) == 2 and all(r.kind == 'derived' for r in refs), 'check_incremental: expected two derived tables (actual, expected)')
    actual, expected = refs[0].select, refs[1].select
    if USER_TBL in sf.table_names(actual.frm):
        actual, expected = expected, actual
    ctx.need(sf.table_names(expected.frm) == [USER_TBL], 'check_incremental: expected-side is not read from user_inst_coll_resources')
    inner_refs = sf.from_tables(actual.frm)
    ctx.need(len(inner_refs) == 1 and inner_refs[0].kind == 'derived', 'check_incremental: actual-side shape not recognised')
    v = inner_refs[0].select
    vcols = {(alias or text(c).split('.')[-1]).lower(): c for c, alias in v.cols}
    # the lateral sub-select alias whose `cancelled IS NOT NULL` means "some self-or-ancestor group is cancelled"
    lat = [t for t in sf.from_tables(v.frm) if t.kind == 'derived']
    ctx.need(len(lat) == 1, 'check_incremental: lateral cancelled lookup not found')
    lat_alias = lat[0].alias.lower()
    file = m.rel
    cons0 = f'{file}::check_incremental'
    # evaluate each actual_* over the domain
    n = 0
    for c, alias in actual.cols:
        if not alias or not alias.lower().startswith('actual_'):
            continue
        col = alias.lower()[len('actual_'):]
        inner = sr.unwrap_sum(c)
        ctx.need(inner is not None, f'check_incremental: {alias} is not a SUM')
        wrong = None
        for state, marked_job, ar, gc in itertools.product(STATES, (0, 1), (0, 1), (0, 1)):
            CORES = 7

            def env(cn: N, depth=0):
                name = text(cn).lower()
                last = name.split('.')[-1]
                if name == f'{lat_alias}.cancelled':
                    return 1 if gc else None
                if last in vcols and len(cn.parts) == 1 and text(vcols[last]).lower() != name:
                    return ev(vcols[last], env)
                return {'state': state, 'cores_mcpu': CORES, 'always_run': ar, 'cancelled': marked_job}[last]
            got = ev(inner, env)
            want = _spec(col, state, int(marked_job or gc), ar, CORES) if col in USER_COUNTERS else None
            if want is None:
                raise AnalysisError(f'check_incremental: unknown audited column {col}')
            if got != want:
                wrong = (state, marked_job, ar, gc, got, want)
                break
        if wrong:
            ctx.bad('R2', f'{cons0}::{alias}', f'audit recomputation of {col} for a {wrong[0]} job (cancelled={wrong[1]}, always_run={wrong[2]}, group_cancelled={wrong[3]}) '
                    f'counts {wrong[4]}, the specification counts {wrong[5]}', m.path, e.lineno)
        else:
            ctx.ok('R2', f'{cons0}::{alias}', {'points': 64})
        n += 1
    # expected side: expected_X = SUM(X)
    for c, alias in expected.cols:
        if alias and alias.lower().startswith('expected_'):
            col = alias.lower()[len('expected_'):]
            inner = sr.unwrap_sum(c)
            ctx.check(inner is not None and text(inner).lower().split('.')[-1] == col, 'R2', f'{cons0}::{alias}',
                      f'{alias} sums `{text(inner) if inner is not None else text(c)}` instead of column {col}', m.path, e.lineno)
    # the WHERE compares like-named pairs
    pairs = set()
    for d in sf.disjuncts(q.where):
        if d.kind == 'bin' and d.op == '!=' and d.left.kind == 'col' and d.right.kind == 'col':
            pairs.add((text(d.left).lower(), text(d.right).lower()))
    for col in USER_COUNTERS:
        ctx.check((f'actual_{col}', f'expected_{col}') in pairs or (f'expected_{col}', f'actual_{col}') in pairs, 'R2', f'{cons0}::compare {col}',
                  f'audit does not compare actual_{col} with expected_{col}', m.path, e.lineno)
    # the lateral lookup is the canonical ancestor walk
    ctx.check(_is_canonical_walk(lat[0].select, 'job_groups'), 'R2', f'{cons0}::group-cancelled lookup',
              f'audit\'s group-cancelled lookup is not the self-and-ancestors walk: {text(lat[0].select)[:200]}', m.path, e.lineno)


def _is_canonical_walk(sel: N, subject_alias: str) -> bool:
    tabs = {(t.alias or t.name).lower(): t.name.lower() for t in sf.from_tables(sel.frm) if t.kind == 'table'}
    if sorted(tabs.values()) != ['job_group_self_and_ancestors', 'job_groups_cancelled']:
        return False
    sa = [a for a, t in tabs.items() if t == 'job_group_self_and_ancestors'][0]
    ca = [a for a, t in tabs.items() if t == 'job_groups_cancelled'][0]
    conj = sf.conjuncts(sel.where)
    for j in sel.frm.joins:
        conj += sf.conjuncts(j.on)
    eqs = set()
    for c in conj:
        if c.kind == 'bin' and c.op == '=':
            eqs.add(frozenset((text(c.left).lower(), text(c.right).lower())))
    need = [frozenset((f'{sa}.batch_id', f'{ca}.id')), frozenset((f'{sa}.ancestor_id', f'{ca}.job_group_id'))]
    if not all(x in eqs for x in need):
        return False
    # correlated on the subject's own (batch_id, job_group_id)
    corr_b = any(f'{sa}.batch_id' in x and any(y.endswith('batch_id') and not y.startswith(sa + '.') and not y.startswith(ca + '.') for y in x) for x in eqs)
    corr_g = any(f'{sa}.job_group_id' in x and any(y.endswith('job_group_id') and not y.startswith(sa + '.') and not y.startswith(ca + '.') for y in x) for x in eqs)
    return corr_b and corr_g


# ------------------------------------------------------------------------------------------------
KIND = {'ready': 'ready', 'running': 'running', 'creating': 'creating'}


def r4_cancel(ctx: Ctx, prog: sf.SqlProgram) -> None:
    for rname, group_level in (('cancel_job_group', True), ('cancel_batch', False)):
        r = prog.routine(rname)
        a = r.ast
        # guard
        found_user = found_canc = found_mark = False
        for st, guard in sf.guarded_statements(a.body):
            wt = sf.written_tables(st)
            if not wt:
                continue
            tbls = [t.lower() for t, _ in wt]
            gtxt = [('' if pol else 'NOT ') + text(c) for c, pol in guard]
            guarded = any(pol and re.search(r'\(NOT cur_cancelled\)', text(c)) for c, pol in guard)
            cons = f'{r.file}::{rname}::{st.kind} {tbls[0]}'
            if tbls[0] in (USER_TBL, CANC_TBL, 'job_groups_cancelled'):
                ctx.check(guarded, 'R4', cons + '::guard', f'write is not guarded by NOT cur_cancelled (path condition: {gtxt}); repeating the cancellation would move the counters again',
                          r.file, r.line_of(st))
            if st.kind == 'insert' and tbls[0] == USER_TBL:
                found_user = True
                _check_cancel_user_insert(ctx, r, rname, st, group_level)
            elif st.kind == 'insert' and tbls[0] == CANC_TBL:
                found_canc = True
                _check_cancel_group_insert(ctx, r, rname, st)
            elif st.kind == 'delete' and tbls[0] == CANC_TBL:
                found_canc = True
                ok = sr.has_eq(st.where, 'batch_id', 'in_batch_id') and len(sf.conjuncts(st.where)) == 1
                ctx.check(ok and not group_level, 'R4', cons + '::delete scope', f'cancellable rows deleted with WHERE {text(st.where)}; only a whole-batch cancel may drop all rows of its own batch',
                          r.file, r.line_of(st))
            elif st.kind == 'insert' and tbls[0] == 'job_groups_cancelled':
                found_mark = True
        ctx.need(found_mark, f'{rname}: the INSERT INTO job_groups_cancelled that marks the cancellation was not found')
        ctx.check(found_user, 'R4', f'{r.file}::{rname}::moves live counts', f'{rname} marks the {"group" if group_level else "batch"} cancelled but never moves its cancellable '
                  f'ready/running/creating counts out of {USER_TBL}: the scheduler keeps counting cancelled jobs as runnable', r.file, r.line)
        ctx.check(found_canc, 'R4', f'{r.file}::{rname}::clears cancellable', f'{rname} marks the {"group" if group_level else "batch"} cancelled but leaves its rows in {CANC_TBL} '
                  'counted as cancellable', r.file, r.line)
        # cur_cancelled is computed from the right predicate
        ok = False
        for st in a.body:
            if st.kind == 'select' and st.into and text(st.into[0]).lower() == 'cur_cancelled':
                f = st.cols[0][0]
                if group_level:
                    ok = f.kind == 'func' and f.name == 'IS_JOB_GROUP_CANCELLED' and [text(x).lower() for x in f.args] == ['in_batch_id', 'in_job_group_id']
                else:
                    ok = f.kind == 'func' and f.name == 'IS_BATCH_CANCELLED' and [text(x).lower() for x in f.args] == ['in_batch_id']
        ctx.check(ok, 'R4', f'{r.file}::{rname}::cur_cancelled', 'cur_cancelled is not computed from the cancellation predicate of the procedure\'s own arguments', r.file, r.line)


def _check_cancel_user_insert(ctx: Ctx, r: sf.Routine, rname: str, st: N, group_level: bool) -> None:
    ins, dup, uvars = sr.insert_colmap(st)
    sel = st.select
    ctx.need(sel is not None, f'{rname}: user counter insert is not INSERT..SELECT')
    cons = f'{r.file}::{rname}::insert {USER_TBL}'
    want = {
        'n_ready_jobs': (-1, 'n_ready_cancellable_jobs'), 'ready_cores_mcpu': (-1, 'ready_cancellable_cores_mcpu'),
        'n_running_jobs': (-1, 'n_running_cancellable_jobs'), 'running_cores_mcpu': (-1, 'running_cancellable_cores_mcpu'),
        'n_creating_jobs': (-1, 'n_creating_cancellable_jobs'),
        'n_cancelled_ready_jobs': (1, 'n_ready_cancellable_jobs'), 'n_cancelled_running_jobs': (1, 'n_running_cancellable_jobs'),
        'n_cancelled_creating_jobs': (1, 'n_creating_cancellable_jobs'),
    }
    for col, (sign, src) in want.items():
        c2 = f'{cons}.{col}'
        if col not in ins:
            ctx.bad('R4', c2, f'{col} is not adjusted when cancelling (cancellable {src} would stay counted)', r.file, r.line_of(st))
            continue
        s1, x1 = sr.signed_term(ins[col], uvars)
        inner = sr.unwrap_sum(x1)
        got_src = text(inner).lower().split('.')[-1] if inner is not None else text(x1)
        ctx.check(s1 == sign and got_src == src, 'R4', c2,
                  f'inserted amount is {"+" if s1 > 0 else "-"}SUM({got_src}); cancelling must move {"+" if sign > 0 else "-"}SUM({src})', r.file, r.line_of(st))
        inc = sr.dup_increment(col, dup[col], uvars) if col in dup else None
        ok = inc is not None and inc[0] == s1 and text(inc[1]) == text(x1)
        ctx.check(ok, 'R3', c2 + '::on-duplicate', f'ON DUPLICATE KEY UPDATE `{text(dup.get(col))}` does not apply the same amount as the inserted row', r.file, r.line_of(st))
    extra = [c for c in dup if c not in want]
    ctx.check(not extra, 'R3', cons + '::one-sided', f'columns updated on duplicate key only: {extra}', r.file, r.line_of(st))
    # source: committed updates of this batch (and group)
    names = [t.lower() for t in sf.table_names(sel.frm)]
    conj = [text(c).lower() for c in sf.conjuncts(sel.where)]
    on = []
    for j in sel.frm.joins:
        on += [text(c).lower() for c in sf.conjuncts(j.on)]
    committed = any(c in ('batch_updates.committed', 'committed', '(batch_updates.committed = 1)') for c in conj + on)
    joined = (f'({CANC_TBL}.batch_id = batch_updates.batch_id)' in on or f'(batch_updates.batch_id = {CANC_TBL}.batch_id)' in on) and \
             (f'({CANC_TBL}.update_id = batch_updates.update_id)' in on or f'(batch_updates.update_id = {CANC_TBL}.update_id)' in on)
    ctx.check(names[0] == CANC_TBL and 'batch_updates' in names and committed and joined, 'R4', cons + '::committed only',
              'the amounts moved are not restricted to cancellable rows of committed updates (join batch_updates on batch_id, update_id and require committed)',
              r.file, r.line_of(st))
    scope = sr.has_eq(sel.where, f'{CANC_TBL}.batch_id', 'in_batch_id', strip_qual=False) or sr.has_eq(sel.where, 'batch_id', 'in_batch_id')
    if group_level:
        scope = scope and sr.has_eq(sel.where, 'job_group_id', 'in_job_group_id')
    else:
        scope = scope and not any('job_group_id' in c for c in conj)
    ctx.check(scope, 'R4', cons + '::scope', f'source rows are not exactly those of the cancelled {"group" if group_level else "batch"}: WHERE {text(sel.where)}', r.file, r.line_of(st))
    grp = sorted(text(g).lower().split('.')[-1] for g in sel.group)
    ctx.check(grp == ['inst_coll', 'user'] and text(ins.get('user')).lower().split('.')[-1] == 'user' and text(ins.get('inst_coll')).lower().split('.')[-1] == 'inst_coll',
              'R4', cons + '::grouping', f'sums are not grouped and keyed by (user, inst_coll): GROUP BY {grp}', r.file, r.line_of(st))


def _check_cancel_group_insert(ctx: Ctx, r: sf.Routine, rname: str, st: N) -> None:
    ins, dup, uvars = sr.insert_colmap(st)
    sel = st.select
    cons = f'{r.file}::{rname}::insert {CANC_TBL}'
    ctx.need(sel is not None, f'{rname}: cancellable insert is not INSERT..SELECT')
    lat = [t for t in sf.from_tables(sel.frm) if t.kind == 'derived']
    ctx.need(len(lat) == 1, f'{rname}: lateral per-(update, inst_coll) sum not found')
    lsel = lat[0].select
    lcols = {(al or text(c)).lower(): c for c, al in lsel.cols}
    for col in CANC_COUNTERS:
        c2 = f'{cons}.{col}'
        if col not in ins:
            ctx.bad('R4', c2, f'{col} of the cancelled group is not removed from its ancestors', r.file, r.line_of(st))
            continue
        s1, x1 = sr.signed_term(ins[col], uvars)
        src = None
        if x1.kind == 'col' and x1.parts[-1].lower() in lcols:
            inner = sr.unwrap_sum(lcols[x1.parts[-1].lower()])
            src = text(inner).lower().split('.')[-1] if inner is not None else None
        ctx.check(s1 == -1 and src == col, 'R4', c2, f'inserted amount is sign {s1} of SUM({src}); must be -SUM({col}) of the cancelled group', r.file, r.line_of(st))
        inc = sr.dup_increment(col, dup[col], uvars) if col in dup else None
        ctx.check(inc is not None and inc[0] == s1 and text(inc[1]) == text(x1), 'R3', c2 + '::on-duplicate',
                  f'ON DUPLICATE KEY UPDATE `{text(dup.get(col))}` does not apply the same amount as the inserted row', r.file, r.line_of(st))
    # lateral: rows of the cancelled group itself, per (update_id, inst_coll)
    lw = lsel.where
    ok_l = sf.table_names(lsel.frm) == [CANC_TBL] and sr.has_eq(lw, 'batch_id', 'job_group_self_and_ancestors.batch_id') and \
        sr.has_eq(lw, 'job_group_id', 'job_group_self_and_ancestors.job_group_id') and sorted(text(g).lower().split('.')[-1] for g in lsel.group) == ['inst_coll', 'update_id']
    ctx.check(ok_l, 'R4', cons + '::source', 'the per-(update, inst_coll) sums are not those of the cancelled group\'s own cancellable rows', r.file, r.line_of(st))
    _check_fanout(ctx, 'R4', cons, st, ins, r.file, r.line_of(st), batch='in_batch_id', group='in_job_group_id', update='update_id', inst_coll=None)
    ctx.check(text(ins.get('inst_coll')).lower().split('.')[-1] == 'inst_coll' and text(ins.get('update_id')).lower().split('.')[-1] == 'update_id', 'R4', cons + '::keys',
              'ancestor rows are not keyed by the (update_id, inst_coll) the sums were taken over', r.file, r.line_of(st))


# ------------------------------------------------------------------------------------------------
def r7_commit(ctx: Ctx, prog: sf.SqlProgram) -> None:
    r = prog.routine('commit_batch_update')
    a = r.ast
    hits = [(st, g) for st, g in sf.guarded_statements(a.body) if st.kind == 'insert' and st.table.lower() == USER_TBL]
    ctx.need(len(hits) == 1, f'commit_batch_update: expected one insert into {USER_TBL}, found {len(hits)}')
    st, guard = hits[0]
    cons = f'{r.file}::commit_batch_update::insert {USER_TBL}'
    ins, dup, uvars = sr.insert_colmap(st)
    sel = st.select
    ctx.need(sel is not None, 'commit_batch_update: hand-over is not INSERT..SELECT')
    for col in ('n_ready_jobs', 'ready_cores_mcpu'):
        c2 = f'{cons}.{col}'
        if col not in ins:
            ctx.bad('R7', c2, f'{col} staged by the update is never added to the user counters', r.file, r.line_of(st))
            continue
        s1, x1 = sr.signed_term(ins[col], uvars)
        inner = sr.unwrap_sum(x1)
        src = text(inner).lower().split('.')[-1] if inner is not None else text(x1)
        ctx.check(s1 == 1 and src == col, 'R7', c2, f'hands over {"+" if s1 > 0 else "-"}SUM({src}) of staging, must be +SUM({col})', r.file, r.line_of(st))
        inc = sr.dup_increment(col, dup[col], uvars) if col in dup else None
        ctx.check(inc is not None and inc[0] == 1 and text(inc[1]) == text(x1), 'R3', c2 + '::on-duplicate',
                  f'ON DUPLICATE KEY UPDATE `{text(dup.get(col))}` does not add the same amount as the inserted row', r.file, r.line_of(st))
    extra = [c for c in list(ins) + list(dup) if c not in ('user', 'inst_coll', 'token', 'n_ready_jobs', 'ready_cores_mcpu')]
    ctx.check(not extra, 'R7', cons + '::columns', f'commit touches counters that staging does not carry: {extra}', r.file, r.line_of(st))
    w = sel.where
    ok = sf.table_names(sel.frm)[0].lower() == STAGE_TBL and sr.has_eq(w, 'batch_id', 'in_batch_id') and sr.has_eq(w, 'update_id', 'in_update_id') and sr.has_eq(w, 'job_group_id', '0')
    ctx.check(ok, 'R7', cons + '::source', f'staging rows summed are not exactly the root group (job_group_id = 0) of (in_batch_id, in_update_id): WHERE {text(w)}; '
              'ancestors already include their descendants, so any other scope double counts or misses jobs', r.file, r.line_of(st))
    grp = sorted(text(g).lower().split('.')[-1] for g in sel.group)
    ctx.check(grp == ['inst_coll', 'user'], 'R7', cons + '::grouping', f'GROUP BY {grp}, expected (user, inst_coll)', r.file, r.line_of(st))
    gtxt = [(text(c), pol) for c, pol in guard]
    once = ('cur_update_committed', False) in gtxt and any(pol and 'staging_n_jobs' in t and 'expected_n_jobs' in t for t, pol in gtxt)
    ctx.check(once, 'R7', cons + '::once', f'hand-over is not confined to the not-yet-committed, job-count-matches branch (path condition {gtxt})', r.file, r.line_of(st))
    # committed flag is set in the same branch
    sets_committed = [(s, g) for s, g in sf.guarded_statements(a.body) if s.kind == 'update' and sf.table_names(s.frm)[:1] == ['batch_updates']
                      and any(text(c).lower().split('.')[-1] == 'committed' and text(v) == '1' for c, v in s.sets)]
    ctx.check(len(sets_committed) == 1 and ('cur_update_committed', False) in [(text(c), p) for c, p in sets_committed[0][1]], 'R7',
              f'{r.file}::commit_batch_update::set committed', 'batch_updates.committed is not set exactly once in the not-yet-committed branch', r.file, r.line)


# ------------------------------------------------------------------------------------------------
def r5_create_jobs(ctx: Ctx) -> None:
    m = pf.load('batch/batch/front_end/front_end.py')
    fn = m.func('_create_jobs')
    file = m.rel
    # (a) per-job tallies
    ifs = [n for n in pf.walk_shallow(fn) if isinstance(n, ast.If) and any(isinstance(s, ast.Assign) and pf.nsrc(s.targets[0]) == 'state'
                                                                          and pf.const_str(s.value) == 'Ready' for s in n.body)]
    ctx.need(len(ifs) == 1, '_create_jobs: the branch assigning state = "Ready" was not found exactly once')
    br = ifs[0]

    def incs(stmts) -> Dict[str, str]:
        out = {}
        for s in stmts:
            if isinstance(s, ast.AugAssign) and isinstance(s.op, ast.Add) and isinstance(s.target, ast.Subscript) and pf.nsrc(s.target.value) == 'icr':
                out[pf.const_str(s.target.slice)] = pf.nsrc(s.value)
        return out

    top = incs(br.body)
    nested = [s for s in br.body if isinstance(s, ast.If)]
    canc: Dict[str, str] = {}
    canc_test = ''
    for s in nested:
        canc.update(incs(s.body))
        canc_test = pf.nsrc(s.test)
    else_incs = incs(br.orelse)
    else_state = [pf.const_str(s.value) for s in br.orelse if isinstance(s, ast.Assign) and pf.nsrc(s.targets[0]) == 'state']
    cons = f'{file}::_create_jobs::tallies'
    ctx.check(top == {'n_ready_jobs': '1', 'ready_cores_mcpu': 'cores_mcpu'}, 'R5', cons + '::ready',
              f'a job inserted Ready adds {top} to the staged counters, expected n_ready_jobs += 1 and ready_cores_mcpu += cores_mcpu', m.path, br.lineno)
    ctx.check(canc == {'n_ready_cancellable_jobs': '1', 'ready_cancellable_cores_mcpu': 'cores_mcpu'} and canc_test == 'not always_run', 'R5', cons + '::cancellable',
              f'cancellable tallies {canc} under `{canc_test}`; expected += 1 / += cores_mcpu exactly when not always_run', m.path, br.lineno)
    ctx.check(not else_incs and else_state == ['Pending'], 'R5', cons + '::pending', f'the non-Ready branch sets state {else_state} and adds {else_incs}', m.path, br.lineno)
    # n_jobs += 1 unconditionally, once, in the loop body; icr keyed by the job's own (job_group_id, inst_coll)
    par = m.parents()
    loop = par.get(br)
    while loop is not None and not isinstance(loop, (ast.For, ast.AsyncFor)):
        loop = par.get(loop)
    ctx.need(loop is not None, '_create_jobs: job loop not found')
    njobs = [s for s in loop.body if isinstance(s, ast.AugAssign) and pf.nsrc(s.target) == "icr['n_jobs']"]
    ctx.check(len(njobs) == 1 and pf.nsrc(njobs[0].value) == '1', 'R5', cons + '::n_jobs', 'icr["n_jobs"] is not incremented by exactly 1 per job at loop level', m.path, loop.lineno)
    icr_def = [s for s in loop.body if isinstance(s, ast.Assign) and pf.nsrc(s.targets[0]) == 'icr']
    ctx.need(len(icr_def) == 1, '_create_jobs: icr definition not found')
    jobs_tuple = None
    for n in pf.walk_shallow(loop):
        if isinstance(n, ast.Call) and pf.dotted(n.func) == 'jobs_args.append' and isinstance(n.args[0], ast.Tuple):
            jobs_tuple = n.args[0]
    ctx.need(jobs_tuple is not None, '_create_jobs: jobs_args.append((...)) not found')
    # bind jobs tuple to INSERT INTO jobs columns
    embs = [e for e in sf.embedded_in(m) if e.qual.startswith('_create_jobs')]
    by_table: Dict[str, Any] = {}
    for e in embs:
        for st in e.stmts():
            if st.kind == 'insert':
                by_table[st.table.lower()] = (e, st)
    ctx.need('jobs' in by_table and STAGE_TBL in by_table and CANC_TBL in by_table, '_create_jobs: inserts into jobs / staging / cancellable not all found')
    je, jst = by_table['jobs']
    ctx.need(jst.cols is not None and len(jst.cols) == len(jobs_tuple.elts), '_create_jobs: jobs insert columns do not match the argument tuple')
    jmap = {c.lower(): pf.nsrc(x) for c, x in zip(jst.cols, jobs_tuple.elts)}
    key = pf.nsrc(icr_def[0].value)
    ctx.check(key == f"inst_coll_resources[{jmap.get('job_group_id')}, {jmap.get('inst_coll')}]", 'R5', cons + '::key',
              f'tallies are accumulated under `{key}` but the job row is inserted with job_group_id={jmap.get("job_group_id")}, inst_coll={jmap.get("inst_coll")}', m.path, icr_def[0].lineno)
    ctx.check(jmap.get('state') == 'state' and jmap.get('always_run') == 'always_run' and jmap.get('cores_mcpu') == 'cores_mcpu', 'R5', cons + '::row',
              f'job row columns state/always_run/cores_mcpu receive {jmap.get("state")}/{jmap.get("always_run")}/{jmap.get("cores_mcpu")}: the tallies describe a different job', m.path, jobs_tuple.lineno)

    # (b) staging / cancellable inserts: parameter binding, on-duplicate symmetry, ancestor fan-out
    for table, counters in ((STAGE_TBL, STAGE_COUNTERS), (CANC_TBL, ['n_ready_cancellable_jobs', 'ready_cancellable_cores_mcpu'])):
        e, st = by_table[table]
        cons2 = f'{file}::_create_jobs::insert {table}'
        ctx.need(st.select is not None, f'_create_jobs: the insert into {table} no longer fans out over job_group_self_and_ancestors in SQL (INSERT .. SELECT); '
                 'a roll-up done in Python is outside what this rule can decide')
        ins, dup, uvars = sr.insert_colmap(st)
        params = sr.params_in_order(st)
        args_node = e.call.args[1] if len(e.call.args) > 1 else None
        elts = sr.args_tuple(e.fn, args_node)
        ctx.need(elts is not None and len(elts) == len(params), f'_create_jobs: cannot bind arguments of the {table} insert ({len(params)} parameters)')
        bind = {id(p): pf.nsrc(x) for p, x in zip(params, elts)}
        for col in counters:
            ex = ins.get(col)
            got = bind.get(id(ex)) if ex is not None and ex.kind == 'param' else None
            ctx.check(got == f"resources['{col}']", 'R5', f'{cons2}.{col}', f'column {col} is bound to `{got}`, expected resources[\'{col}\']', m.path, e.lineno)
            d = dup.get(col)
            inc = sr.dup_increment(col, d, uvars) if d is not None else None
            ok = inc is not None and inc[0] == 1 and inc[1].kind == 'values_fn' and inc[1].col.lower() == col
            ctx.check(ok, 'R3', f'{cons2}.{col}::on-duplicate', f'ON DUPLICATE KEY UPDATE `{text(d)}` is not `{col} = {col} + VALUES({col})`', m.path, e.lineno)
        extra = [c for c in dup if c not in counters]
        ctx.check(not extra, 'R3', cons2 + '::one-sided', f'columns updated on duplicate key only: {extra}', m.path, e.lineno)
        # fan-out: ancestor walk keyed by (batch_id, icr_job_group_id)
        sel = st.select
        okf = sel is not None and sf.table_names(sel.frm) == ['job_group_self_and_ancestors'] and text(ins.get('job_group_id')).lower() == 'ancestor_id'
        wb = wg = None
        if okf:
            for c in sf.conjuncts(sel.where):
                if c.kind == 'bin' and c.op == '=' and c.right.kind == 'param':
                    if text(c.left).lower().split('.')[-1] == 'batch_id':
                        wb = bind.get(id(c.right))
                    if text(c.left).lower().split('.')[-1] == 'job_group_id':
                        wg = bind.get(id(c.right))
        ctx.check(okf and wb == 'batch_id' and wg == 'icr_job_group_id', 'R5', cons2 + '::ancestor fan-out',
                  f'staged counts are not inserted for the job group and all its ancestors (walk keyed by batch_id={wb}, job_group_id={wg})', m.path, e.lineno)
        ctx.check(bind.get(id(ins.get('update_id'))) == 'update_id' and bind.get(id(ins.get('inst_coll'))) == 'inst_coll' and bind.get(id(ins.get('batch_id'))) == 'batch_id',
                  'R5', cons2 + '::keys', 'batch_id / update_id / inst_coll columns are not bound to the like-named values', m.path, e.lineno)
        # the comprehension iterates inst_coll_resources.items() with ((icr_job_group_id, inst_coll), resources)
        d = pf.single_def(e.fn, args_node.id) if isinstance(args_node, ast.Name) else args_node
        okc = isinstance(d, ast.ListComp) and pf.nsrc(d.generators[0].iter) == 'inst_coll_resources.items()' and pf.nsrc(d.generators[0].target) == '((icr_job_group_id, inst_coll), resources)'
        ctx.check(okc, 'R5', cons2 + '::source', 'insert arguments are not generated from inst_coll_resources.items() as ((job_group_id, inst_coll), resources)', m.path, e.lineno)


# ------------------------------------------------------------------------------------------------
ALLOWED_WRITERS = {
    USER_TBL: {'sql:jobs_after_update', 'sql:cancel_job_group', 'sql:cancel_batch', 'sql:commit_batch_update'},
    CANC_TBL: {'sql:jobs_after_update', 'sql:cancel_job_group', 'sql:cancel_batch', 'py:batch/batch/front_end/front_end.py::_create_jobs.insert_jobs_into_db',
               'py:batch/batch/driver/main.py::delete_prev_cancelled_job_group_cancellable_resources_records'},
    STAGE_TBL: {'py:batch/batch/front_end/front_end.py::_create_jobs.insert_jobs_into_db', 'py:batch/batch/driver/main.py::delete_committed_job_groups_inst_coll_staging_records'},
}
WRITE_RE = re.compile(r'\b(INSERT|UPDATE|DELETE|REPLACE|TRUNCATE)\b', re.I)


def writers_scan(ctx: Ctx, prog: sf.SqlProgram, dirs: List[str], tables: Dict[str, set], rule: str, extra_sources: Optional[List[Tuple[str, str]]] = None) -> Dict[str, set]:
    """Closed-world scan: who writes `tables`.  Returns table -> set of writer ids; unknown writers are reported."""
    found: Dict[str, set] = {t: set() for t in tables}
    where: Dict[Tuple[str, str], Tuple[str, int]] = {}
    for name, r in prog.routines.items():
        for st in sf.all_statements(r.ast.body):
            for t, verb in sf.written_tables(st):
                if t.lower() in tables:
                    found[t.lower()].add('sql:' + name)
                    where[(t.lower(), 'sql:' + name)] = (r.file, r.line_of(st))
    n_mod = 0
    for rel in pf.walk_py(dirs):
        m = pf.load(rel)
        n_mod += 1
        if not any(t in m.src for t in tables):
            continue
        covered: set = set()
        for e in sf.embedded_in(m):
            if e.sql_text is None:
                continue
            if not any(t in e.sql_text for t in tables):
                continue
            sts = e.stmts()
            if e.parse_error:
                raise AnalysisError(f'{rel}:{e.lineno}: SQL naming a counter table does not parse ({e.parse_error})')
            for n in ast.walk(e.call.args[0]) if not isinstance(e.call.args[0], ast.Name) else []:
                covered.add(id(n))
            if isinstance(e.call.args[0], ast.Name) and e.fn is not None:
                d = pf.single_def(e.fn, e.call.args[0].id)
                if d is not None:
                    for n in ast.walk(d):
                        covered.add(id(n))
            for st in sts:
                for t, verb in sf.written_tables(st):
                    if t.lower() in tables:
                        wid = f'py:{rel}::{e.qual}'
                        found[t.lower()].add(wid)
                        where[(t.lower(), wid)] = (m.path, e.lineno)
        # any other string constant naming a counter table together with a write verb is an unrecognised writer
        for n in ast.walk(m.tree):
            if isinstance(n, ast.Constant) and isinstance(n.value, str) and id(n) not in covered:
                for t in tables:
                    if t in n.value and WRITE_RE.search(n.value):
                        raise AnalysisError(f'{rel}:{n.lineno}: string mentioning {t} with a write verb is not an analysed execute() argument (opaque SQL)')
    ctx.unit('python_modules_scanned', n_mod)
    for t, allowed in tables.items():
        for w in sorted(found[t]):
            file, line = where[(t, w)]
            ctx.check(w in allowed, rule, f'{t}::writer {w}', f'{w} writes {t} but is not in the closed set of counter maintainers {sorted(allowed)}', file, line)
        for w in allowed - found[t]:
            raise AnalysisError(f'expected writer {w} of {t} not found (anchor vanished)')
    return found


def r6_closed_world(ctx: Ctx, prog: sf.SqlProgram) -> None:
    dirs = ['batch/batch'] if ctx.tier == 'quick' else ['batch', 'gear', 'auth', 'ci', 'web_common', 'monitoring', 'hail/python/hailtop']
    writers_scan(ctx, prog, dirs, ALLOWED_WRITERS, 'R6')
    # positive control: a synthetic writer must be seen by the same machinery
    from engines.sqlast import parse_statements
    st = parse_statements(f'UPDATE {USER_TBL} SET n_ready_jobs = n_ready_jobs + 1 WHERE user = %s')[0]
    if [t for t, _ in sf.written_tables(st)] != [USER_TBL]:
        raise AnalysisError('positive control failed: synthetic writer not recognised')
    ctx.ok('R6', 'positive-control::synthetic UPDATE user_inst_coll_resources', nontrivial=False)
    # cleanup loops: delete keyed by exactly the selected triple; selectors filtered
    m = pf.load('batch/batch/driver/main.py')
    for fname, table, filt in (('delete_committed_job_groups_inst_coll_staging_records', STAGE_TBL, 'committed'),
                               ('delete_prev_cancelled_job_group_cancellable_resources_records', CANC_TBL, 'cancelled')):
        embs = [e for e in sf.embedded_in(m) if e.qual == fname]
        ctx.need(len(embs) == 2, f'{fname}: expected a selector and a delete')
        sel = [st for e in embs for st in e.stmts() if st.kind == 'select']
        dels = [(e, st) for e in embs for st in e.stmts() if st.kind == 'delete']
        ctx.need(len(sel) == 1 and len(dels) == 1, f'{fname}: selector/delete not recognised')
        s, (de, d) = sel[0], dels[0]
        cons = f'{m.rel}::{fname}'
        params = sr.params_in_order(d)
        elts = sr.args_tuple(de.fn, de.call.args[1] if len(de.call.args) > 1 else None)
        keyed = False
        if elts is not None and len(elts) == len(params) == 3:
            bind = {id(p): pf.nsrc(x) for p, x in zip(params, elts)}
            got = {}
            for c in sf.conjuncts(d.where):
                if c.kind == 'bin' and c.op == '=' and c.right.kind == 'param':
                    got[text(c.left).lower().split('.')[-1]] = bind[id(c.right)]
            keyed = got == {'batch_id': "target['batch_id']", 'update_id': "target['update_id']", 'job_group_id': "target['job_group_id']"} and len(sf.conjuncts(d.where)) == 3
        ctx.check(keyed, 'R6', cons + '::delete key', f'rows are not deleted by exactly the selected (batch_id, update_id, job_group_id): WHERE {text(d.where)}', m.path, de.lineno)
        selected = sorted(text(c).lower().split('.')[-1] for c, _ in s.cols)
        ctx.check(selected == ['batch_id', 'job_group_id', 'update_id'] and sf.table_names(s.frm)[0].lower() == table, 'R6', cons + '::selector columns',
                  f'selector returns {selected} from {sf.table_names(s.frm)}', m.path, embs[0].lineno)
        if filt == 'committed':
            conj = [text(c).lower() for c in sf.conjuncts(s.where)]
            on = [text(c).lower() for j in s.frm.joins for c in sf.conjuncts(j.on)]
            ok = any(c.split('.')[-1] == 'committed' for c in conj) and 'batch_updates' in [t.lower() for t in sf.table_names(s.frm)] and \
                any('update_id' in c for c in on) and any('batch_id' in c for c in on)
            ctx.check(ok, 'R6', cons + '::only committed', 'staging rows of an update that is not committed could be deleted (they are still needed by commit_batch_update)', m.path, embs[0].lineno)
        else:
            lat = [t for t in sf.from_tables(s.frm) if t.kind == 'derived']
            inner_join = bool(s.frm.joins) and s.frm.joins[0].jtype == 'INNER'
            ok = len(lat) == 1 and inner_join and _is_canonical_walk(lat[0].select, 'group_resources')
            ctx.check(ok, 'R6', cons + '::only cancelled', 'cancellable rows of a group with no cancelled self-or-ancestor could be deleted (INNER JOIN LATERAL on the ancestor walk is required)',
                      m.path, embs[0].lineno)


# ------------------------------------------------------------------------------------------------
IMMUTABLE = ['always_run', 'cores_mcpu', 'inst_coll', 'job_group_id', 'update_id', 'batch_id', 'job_id']


def r8_immutable(ctx: Ctx, prog: sf.SqlProgram) -> None:
    """The trigger computes OLD and NEW views with the OLD always_run / cores_mcpu and keys rows by NEW.inst_coll / job_group_id:
    that is only right if no UPDATE ever changes those columns of a job."""
    def cols_set(st: N) -> List[str]:
        if st.kind != 'update':
            return []
        tabs = [t for t in sf.from_tables(st.frm) if t.kind == 'table']
        alias = {(t.alias or t.name).lower(): t.name.lower() for t in tabs}
        out = []
        for c, _ in st.sets:
            if c.kind != 'col':
                continue
            col = c.parts[-1].lower()
            if len(c.parts) > 1:
                if alias.get(c.parts[-2].lower()) == 'jobs':
                    out.append(col)
            elif tabs and tabs[0].name.lower() == 'jobs':
                out.append(col)
        return out
    n = 0
    for name, r in sorted(prog.routines.items()):
        for st in sf.all_statements(r.ast.body):
            cs_ = cols_set(st)
            if cs_:
                n += 1
                bad = sorted(set(cs_) & set(IMMUTABLE))
                ctx.check(not bad, 'R8', f'{r.file}::{name}::UPDATE jobs SET {", ".join(sorted(cs_))}', f'{name} changes jobs.{bad}: jobs_after_update derives both the removed and the added '
                          'amount from one value of these columns, so the counters of the old value are never decremented', r.file, r.line_of(st))
    for rel in pf.walk_py(['batch/batch']):
        m = pf.load(rel)
        if 'jobs' not in m.src:
            continue
        for e in sf.embedded_in(m):
            if e.sql_text is None or 'jobs' not in e.sql_text or e.parse_error:
                continue
            for st in e.stmts():
                cs_ = cols_set(st)
                if cs_:
                    n += 1
                    bad = sorted(set(cs_) & set(IMMUTABLE))
                    ctx.check(not bad, 'R8', f'{rel}::{e.qual}::UPDATE jobs SET {", ".join(sorted(cs_))}', f'changes jobs.{bad} which the counter trigger treats as immutable', m.path, e.lineno)
    ctx.need(n >= 8, f'only {n} UPDATE statements on jobs found')


def run(ctx: Ctx) -> None:
    ctx.explanation = ('Per-statement obligations of the scheduler-counter invariant decided on the effective SQL routines (after replaying the migration list) '
                       'and on the SQL embedded in the front end / driver; truth tables over the complete job-state domain are exhaustive.')
    ctx.rule('R1', 'jobs_after_update delta of every counter column == spec(NEW) - spec(OLD) on all (old state, new state, cancelled, always_run, group-cancelled) points; keyed by owner / inst_coll', 16)
    ctx.rule('R2', 'check_incremental recomputes the same spec per column and compares like-named actual/expected pairs', 25)
    ctx.rule('R3', 'INSERT .. ON DUPLICATE KEY UPDATE applies the same amount on both sides, no one-sided column', 47)
    ctx.rule('R4', 'cancel procedures: -SUM(cancellable) from live counters == +SUM into cancelled counters; committed updates only; guarded by NOT cancelled; ancestors adjusted', 43)
    ctx.rule('R5', 'per-group counter rows fan out over the job group and all ancestors; _create_jobs tallies match the inserted job row and are bound to like-named columns', 18)
    ctx.rule('R6', 'closed world of writers of the counter tables; cleanup deletes keyed by the selected triple and filtered (committed / cancelled)', 18)
    ctx.rule('R7', 'commit_batch_update adds exactly the root-group staging sums of (batch, update), once, in the not-yet-committed branch', 7)
    ctx.rule('R8', 'no UPDATE changes the job columns the trigger treats as immutable (always_run, cores_mcpu, inst_coll, job_group_id, update_id, keys)', 8)
    ctx.assume('MySQL: AFTER UPDATE trigger fires once per updated row; ON DUPLICATE KEY UPDATE runs instead of the insert for an existing key')
    prog = sf.load_program()
    ctx.unit('migration_scripts_replayed', len(prog.scripts))
    ctx.unit('effective_routines', len(prog.routines))
    r1_trigger(ctx, prog)
    r2_audit(ctx)
    r4_cancel(ctx, prog)
    r7_commit(ctx, prog)
    r5_create_jobs(ctx)
    r6_closed_world(ctx, prog)
    r8_immutable(ctx, prog)
