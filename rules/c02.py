"""C02 Billing aggregates equal the sum of attempt usage  (structural clauses).

  R1  one billed-duration function f(a) = GREATEST(COALESCE(a.rollup_time - a.start_time, 0), 0):  the attempts update trigger adds
      f(NEW) - f(OLD), the attempt_resources insert trigger adds f(current attempt row), the service's audit recomputes with the same f
  R2  both triggers write all four aggregate tables with `usage += diff x quantity` (insert value == on-duplicate increment), keyed by
      deduped_resource_id and by the attempt's own batch / job / billing project / user; the job-group table fans out over all ancestors
  R3  complementary coverage: the update trigger bills exactly the attempt_resources rows of the updated attempt (full key);
      the insert trigger reads the attempt row of the inserted resource (full key) - so every (attempt, resource) increment is billed once
  R4  add_attempt_resources re-sends are idempotent (ON DUPLICATE KEY UPDATE quantity = quantity)
  R5  compaction: SUM .. FOR UPDATE, DELETE, INSERT(token 0, that sum) with one key, in one @transaction, nothing else written;
      closed world of writers of the aggregate tables = the two triggers + the two compactors
Not decided: attribution across a UTC date roll-over, numeric totals.
"""
from __future__ import annotations

import ast
from typing import Dict, List, Optional, Tuple

from engines import pyfacts as pf
from engines import sqlfront as sf
from engines import sqlrules as sr
from engines.common import AnalysisError, Ctx
from engines.sqlast import N, parse_expr, text

META = dict(
    category='other',
    text='Per-statement obligations of the billing invariant decided on every writer of the four aggregate tables: same duration function in both '
         'triggers and in the audit, increment = duration difference x quantity with insert/on-duplicate symmetry and correct keys, complementary '
         'row coverage, idempotent resource registration, sum-preserving compaction, closed-world writers.',
    note='Trusted: SQL parser, migration replay; MySQL trigger semantics (AFTER INSERT does not fire for a duplicate-key no-op). Date roll-over and numeric totals not decided.',
    technique='static analysis: SQL AST normal forms, sibling agreement between the two billing triggers and the audit query, closed-world writer scan',
    design_ref='DESIGN.md §3 C02',
)

TABLES = {
    'aggregated_billing_project_user_resources_v3': ['billing_project', 'user', 'resource_id'],
    'aggregated_job_group_resources_v3': ['batch_id', 'job_group_id', 'resource_id'],
    'aggregated_job_resources_v3': ['batch_id', 'job_id', 'resource_id'],
    'aggregated_billing_project_user_resources_by_date_v3': ['billing_date', 'billing_project', 'user', 'resource_id'],
}


def f_text(prefix: str) -> str:
    return text(parse_expr(f'GREATEST(COALESCE({prefix}rollup_time - {prefix}start_time, 0), 0)'))


def _product_factors(e: N) -> List[str]:
    if e.kind == 'bin' and e.op == '*':
        return sorted(_product_factors(e.left) + _product_factors(e.right))
    return [text(e).lower()]


def _bound_vars(routine: N) -> Dict[str, Tuple[str, str, N]]:
    """var -> (table, column, select stmt) for single-table SELECT col.. INTO var.."""
    out = {}
    for st in sf.all_statements(routine.body):
        if st.kind == 'select' and st.into and st.frm is not None and len(sf.table_names(st.frm)) == 1:
            for (c, _), v in zip(st.cols, st.into):
                if c.kind == 'col' and sr.is_var(v):
                    out[v.parts[0].lower()] = (sf.table_names(st.frm)[0].lower(), c.parts[-1].lower(), st)
    return out


def check_trigger(ctx: Ctx, r: sf.Routine, kind: str) -> None:
    a = r.ast
    env = sr.inline_sets(a.body, sr.declared_vars(a))
    bound = _bound_vars(a)
    diff = env.get('msec_diff_rollup')
    ctx.need(diff is not None, f'{r.name}: msec_diff_rollup is not a single straight-line SET')
    cons0 = f'{r.file}::{r.name}'
    # R1
    if kind == 'update':
        want = f'({f_text("NEW.")} - {f_text("OLD.")})'
        ctx.check(text(diff) == want, 'R1', cons0 + '::duration difference', f'the trigger bills `{text(diff)}`, expected f(NEW) - f(OLD) with f = GREATEST(COALESCE(rollup - start, 0), 0)',
                  r.file, r.line)
    else:
        # f over variables read from the attempt row of NEW's key
        vs = [c for c in sf.cols_in(diff)]
        names = sorted({text(c).lower() for c in vs})
        ok = len(names) == 2 and all(n in bound for n in names)
        if ok:
            rv = [n for n in names if bound[n][1] == 'rollup_time']
            sv = [n for n in names if bound[n][1] == 'start_time']
            ok = len(rv) == 1 and len(sv) == 1 and text(diff) == text(parse_expr(f'GREATEST(COALESCE({rv[0]} - {sv[0]}, 0), 0)'))
            if ok:
                st = bound[rv[0]][2]
                ok = bound[rv[0]][0] == 'attempts' and bound[sv[0]][2] is st and sr.has_eq(st.where, 'batch_id', 'new.batch_id') and \
                    sr.has_eq(st.where, 'job_id', 'new.job_id') and sr.has_eq(st.where, 'attempt_id', 'new.attempt_id')
        ctx.check(ok, 'R1', cons0 + '::duration of current attempt', f'the trigger bills `{text(diff)}`; expected f(start, rollup) read from the attempts row (NEW.batch_id, NEW.job_id, NEW.attempt_id)',
                  r.file, r.line)
    # R2 / R3
    per_table: Dict[str, List[Tuple[N, tuple]]] = {}
    for st, guard in sf.guarded_statements(a.body):
        if st.kind == 'insert' and st.table.lower() in TABLES:
            per_table.setdefault(st.table.lower(), []).append((st, guard))
        elif st.kind in ('update', 'delete') and any(t.lower() in TABLES for t, _ in sf.written_tables(st)):
            ctx.bad('R2', cons0 + f'::{st.kind} of aggregate', f'aggregate table modified by {st.kind} inside the trigger: {text(st)[:100]}', r.file, r.line_of(st))
    for tbl, keycols in TABLES.items():
        cons = f'{cons0}::{tbl}'
        sts = per_table.get(tbl, [])
        if len(sts) != 1:
            ctx.bad('R2', cons, f'the trigger has {len(sts)} inserts into {tbl} (expected exactly one): ' + ('this aggregate is never updated by this path' if not sts else 'usage would be added more than once'),
                    r.file, r.line)
            continue
        st, guard = sts[0]
        ins, dup, uvars = sr.insert_colmap(st)
        # guard: only `msec_diff_rollup != 0` (or none)
        gt = [(text(c).lower(), pol) for c, pol in guard]
        ctx.check(all(pol and g in ('(msec_diff_rollup != 0)', '(msec_diff_rollup <> 0)') for g, pol in gt), 'R2', cons + '::guard',
                  f'the insert is conditional on {gt}: increments would be skipped', r.file, r.line_of(st))
        use = ins.get('usage')
        ctx.need(use is not None, f'{r.name}: insert into {tbl} has no usage column')
        fac = _product_factors(use)
        qty = 'new.quantity' if kind == 'insert' else None
        ok_amt = len(fac) == 2 and 'msec_diff_rollup' in fac and (([x for x in fac if x != 'msec_diff_rollup'] or [''])[0] in (('new.quantity',) if kind == 'insert' else ('quantity', 'attempt_resources.quantity')))
        ctx.check(ok_amt, 'R2', cons + '::amount', f'usage inserted is `{text(use)}`, expected msec_diff_rollup x quantity of the {"inserted" if kind == "insert" else "attempt_resources"} row', r.file, r.line_of(st))
        d = dup.get('usage')
        inc = sr.dup_increment('usage', d, uvars) if d is not None else None
        ctx.check(inc is not None and inc[0] == 1 and _product_factors(inc[1]) == fac and list(dup) == ['usage'], 'R2', cons + '::on-duplicate',
                  f'ON DUPLICATE KEY UPDATE `{text(d)}` does not add the same amount as a fresh row would hold', r.file, r.line_of(st))
        rid = text(ins.get('resource_id', N('lit', value=None))).lower()
        ctx.check(rid in ('new.deduped_resource_id', 'attempt_resources.deduped_resource_id', 'deduped_resource_id'), 'R2', cons + '::resource key',
                  f'resource_id column receives `{rid}`, expected the deduped_resource_id of the resource row', r.file, r.line_of(st))
        # entity keys
        def origin(col: str) -> str:
            e = ins.get(col)
            if e is None:
                return '<missing>'
            t = text(e).lower()
            if sr.is_var(e) and t in bound:
                tb, c, sel = bound[t]
                key = 'new.batch_id' if sr.has_eq(sel.where, 'id', 'new.batch_id') or sr.has_eq(sel.where, 'batch_id', 'new.batch_id') else '?'
                return f'{tb}.{c}@{key}'
            return t
        if 'billing_project' in keycols:
            ctx.check(origin('billing_project') == 'batches.billing_project@new.batch_id' and origin('user') == 'batches.user@new.batch_id', 'R2', cons + '::owner keys',
                      f'billing_project/user columns receive {origin("billing_project")} / {origin("user")}; expected the billing project and user of batch NEW.batch_id', r.file, r.line_of(st))
        if 'job_id' in keycols:
            ctx.check(origin('batch_id') in ('new.batch_id', 'attempt_resources.batch_id') and origin('job_id') in ('new.job_id', 'attempt_resources.job_id'), 'R2', cons + '::job keys',
                      f'batch_id/job_id columns receive {origin("batch_id")} / {origin("job_id")}', r.file, r.line_of(st))
        if 'job_group_id' in keycols:
            sel = st.select
            okf = sel is not None and 'job_group_self_and_ancestors' in [t.lower() for t in sf.table_names(sel.frm)] and origin('job_group_id').split('.')[-1] == 'ancestor_id'
            if okf and kind == 'insert':
                jg = [c for c in sf.conjuncts(sel.where) if c.kind == 'bin' and c.op == '=' and text(c.left).lower().endswith('job_group_id')]
                v = text(jg[0].right).lower() if jg else ''
                okf = bool(jg) and v in bound and bound[v][:2] == ('jobs', 'job_group_id') and sr.has_eq(bound[v][2].where, 'job_id', 'new.job_id') and \
                    sr.has_eq(bound[v][2].where, 'batch_id', 'new.batch_id') and sr.has_eq(sel.where, 'batch_id', 'new.batch_id')
            elif okf:
                on = [text(c).lower() for j in sel.frm.joins for c in sf.conjuncts(j.on)]
                okf = '(jobs.job_group_id = job_group_self_and_ancestors.job_group_id)' in on and '(jobs.batch_id = job_group_self_and_ancestors.batch_id)' in on and \
                    '(attempt_resources.job_id = jobs.job_id)' in on and '(attempt_resources.batch_id = jobs.batch_id)' in on
            ctx.check(okf, 'R2', cons + '::ancestor fan-out', 'usage is not added for the job\'s own group and every ancestor group (join job_group_self_and_ancestors on the job\'s batch_id / job_group_id, insert ancestor_id)',
                      r.file, r.line_of(st))
        if 'billing_date' in keycols:
            bd = ins.get('billing_date')
            ctx.check(bd is not None and 'utc_date' in text(sr.inline_expr(bd, env)).lower(), 'R2', cons + '::billing date', f'billing_date column receives `{text(bd)}`', r.file, r.line_of(st))
        # R3: source rows
        if kind == 'update':
            sel = st.select
            ok3 = sel is not None and sf.table_names(sel.frm)[0].lower() == 'attempt_resources' and sr.has_eq(sel.where, 'batch_id', 'new.batch_id') and \
                sr.has_eq(sel.where, 'job_id', 'new.job_id') and sr.has_eq(sel.where, 'attempt_id', 'new.attempt_id') and len(sf.conjuncts(sel.where)) == 3 and \
                all(j.jtype == 'LEFT' or tbl == 'x' for j in sel.frm.joins)
            ctx.check(ok3, 'R3', cons + '::rows billed', f'the rows billed are not exactly the attempt_resources of (NEW.batch_id, NEW.job_id, NEW.attempt_id): FROM {text(sel.frm) if sel else None} WHERE {text(sel.where) if sel else None}',
                      r.file, r.line_of(st))
        else:
            ctx.check(st.select is None or tbl == 'aggregated_job_group_resources_v3', 'R3', cons + '::single row', 'the insert trigger bills more than the inserted resource row', r.file, r.line_of(st))


def r4(ctx: Ctx) -> None:
    m = pf.load('batch/batch/driver/job.py')
    embs = [e for e in sf.embedded_in(m) if e.sql_text and 'attempt_resources' in e.sql_text and e.qual.startswith('add_attempt_resources')]
    ctx.need(len(embs) == 1, 'add_attempt_resources insert not found')
    e = embs[0]
    st = e.stmts()[0]
    ok = st.kind == 'insert' and len(st.on_dup) == 1 and text(st.on_dup[0][0]).lower() == text(st.on_dup[0][1]).lower() == 'quantity' and not st.ignore
    ctx.check(ok, 'R4', f'{m.rel}::add_attempt_resources::on duplicate', f'a re-sent resource report executes `{text(st)[-80:]}`; it must leave an existing (attempt, resource) row unchanged '
              '(ON DUPLICATE KEY UPDATE quantity = quantity), otherwise usage already billed with the old quantity no longer matches', m.path, e.lineno)
    cols = [c.lower() for c in st.cols or []]
    ctx.check(cols == ['batch_id', 'job_id', 'attempt_id', 'resource_id', 'deduped_resource_id', 'quantity'], 'R4', f'{m.rel}::add_attempt_resources::columns', f'columns {cols}', m.path, e.lineno)


def r5(ctx: Ctx, prog: sf.SqlProgram) -> None:
    m = pf.load('batch/batch/driver/main.py')
    compactors = {'compact_agg_billing_project_users_table.compact': 'aggregated_billing_project_user_resources_v3',
                  'compact_agg_billing_project_users_by_date_table.compact': 'aggregated_billing_project_user_resources_by_date_v3'}
    embs = sf.embedded_in(m)
    for qual, tbl in compactors.items():
        fn = m.func(qual)
        cons = f'{m.rel}::{qual}'
        ctx.check(any(pf.dotted(d.func) == 'transaction' for d in fn.decorator_list if isinstance(d, ast.Call)), 'R5', cons + '::atomic', 'compaction steps are not inside one @transaction', m.path, fn.lineno)
        mine = sorted([e for e in embs if e.fn is fn], key=lambda e: e.lineno)
        sts = [(e, e.stmts()[0]) for e in mine]
        kinds = [s.kind for _, s in sts]
        ctx.check(kinds[:3] == ['select', 'delete', 'insert'] and all(k == 'select' for k in kinds[3:]) and all(e.receiver == 'tx' for e in mine), 'R5', cons + '::order',
                  f'statements run as {kinds} on {[e.receiver for e in mine]}; expected SELECT SUM .. FOR UPDATE, DELETE, INSERT on the transaction, then read-only checks', m.path, fn.lineno)
        if kinds[:3] != ['select', 'delete', 'insert']:
            continue
        (e1, s1), (e2, s2), (e3, s3) = sts[:3]
        keyc = TABLES[tbl][:]

        def keymap(e: sf.Embedded, st: N) -> Dict[str, str]:
            params = sr.params_in_order(st)
            elts = sr.args_tuple(e.fn, e.call.args[1]) or []
            bind = {id(p): pf.nsrc(x) for p, x in zip(params, elts)}
            out = {}
            for c in sf.conjuncts(st.where):
                if c.kind == 'bin' and c.op == '=' and c.right.kind == 'param':
                    out[text(c.left).lower().split('.')[-1]] = bind.get(id(c.right), '?')
            return out
        want = {k: f"target['{k}']" for k in keyc}
        k1, k2 = keymap(e1, s1), keymap(e2, s2)
        inner = sr.unwrap_sum(s1.cols[0][0])
        ctx.check(k1 == want and s1.lock == 'FOR UPDATE' and inner is not None and text(inner).lower() == 'usage' and sf.table_names(s1.frm) == [tbl] and not s1.group, 'R5', cons + '::sum',
                  f'the total is not SUM(usage) of exactly the target key read FOR UPDATE (key {k1}, lock `{s1.lock}`)', m.path, e1.lineno)
        ctx.check(k2 == want and len(sf.conjuncts(s2.where)) == len(keyc) and sf.table_names(s2.frm) == [tbl], 'R5', cons + '::delete', f'rows deleted are not exactly those summed (key {k2})', m.path, e2.lineno)
        ins, dup, _ = sr.insert_colmap(s3)
        params = sr.params_in_order(s3)
        elts = sr.args_tuple(e3.fn, e3.call.args[1]) or []
        bind = {id(p): pf.nsrc(x) for p, x in zip(params, elts)}
        got = {c: bind.get(id(v), text(v)) for c, v in ins.items()}
        sum_var = None
        par = m.parents().get(e1.call)
        while par is not None and not isinstance(par, ast.Assign):
            par = m.parents().get(par)
        if isinstance(par, ast.Assign):
            sum_var = pf.nsrc(par.targets[0])
        alias = s1.cols[0][1] or 'usage'
        want3 = dict(want)
        want3['token'] = '0'
        want3['usage'] = f"{sum_var}['{alias}']"
        ctx.check(got == want3 and not dup and s3.table.lower() == tbl, 'R5', cons + '::reinsert', f'the compacted row is inserted as {got}; expected {want3}', m.path, e3.lineno)
    # closed world
    allowed = {'sql:attempts_after_update', 'sql:attempt_resources_after_insert'} | {f'py:{m.rel}::{q}' for q in compactors}
    from rules.c01 import writers_scan
    tables = {t: set(allowed) for t in TABLES}
    # each compactor only its own table; triggers all four
    for q, t in compactors.items():
        for t2 in TABLES:
            if t2 != t:
                tables[t2].discard(f'py:{m.rel}::{q}')
    for t in ('aggregated_job_group_resources_v3', 'aggregated_job_resources_v3'):
        tables[t] = {'sql:attempts_after_update', 'sql:attempt_resources_after_insert'}
    dirs = ['batch/batch'] if ctx.tier == 'quick' else ['batch', 'gear', 'auth', 'ci', 'monitoring']
    writers_scan(ctx, prog, dirs, tables, 'R5')


def r1_audit(ctx: Ctx) -> None:
    m = pf.load('batch/batch/driver/main.py')
    embs = [e for e in sf.embedded_in(m) if e.qual.startswith('check_resource_aggregation') and e.sql_text and 'rollup_time' in e.sql_text]
    ctx.need(len(embs) >= 2, 'check_resource_aggregation: recomputation queries not found')
    want = f_text('')
    n = 0
    for e in embs:
        for st in e.stmts():
            for node in st.walk():
                if node.kind == 'func' and node.name == 'GREATEST':
                    n += 1
                    ctx.check(text(node) == want, 'R1', f'{m.rel}::check_resource_aggregation::{text(node)[:60]}', f'the audit recomputes the duration as `{text(node)}`, the triggers use `{want}`',
                              m.path, e.lineno)
    ctx.need(n >= 3, f'only {n} duration expressions in the audit')


def run(ctx: Ctx) -> None:
    ctx.explanation = 'Obligations of the billing-aggregate invariant decided on both billing triggers (effective SQL), the resource registration insert, the compactors and the audit.'
    ctx.rule('R1', 'same billed-duration function f in the update trigger (f(NEW)-f(OLD)), the insert trigger (f(current attempt)) and the audit queries', 6)
    ctx.rule('R2', 'each trigger inserts once into each of the four aggregates: amount = diff x quantity, on-duplicate adds the same, keys from the attempt\'s batch/job/owner, ancestors fan-out', 42)
    ctx.rule('R3', 'rows billed: update trigger = attempt_resources of the full attempt key; insert trigger = the inserted row only', 8)
    ctx.rule('R4', 'add_attempt_resources is idempotent on re-send', 2)
    ctx.rule('R5', 'compaction preserves sums (SUM FOR UPDATE, DELETE, INSERT token 0 with one key in one transaction); closed world of aggregate writers', 20)
    ctx.assume('MySQL: AFTER INSERT trigger does not fire when INSERT .. ON DUPLICATE KEY UPDATE takes the update path; AFTER UPDATE fires once per changed row')
    prog = sf.load_program()
    check_trigger(ctx, prog.routine('attempts_after_update'), 'update')
    check_trigger(ctx, prog.routine('attempt_resources_after_insert'), 'insert')
    r1_audit(ctx)
    r4(ctx)
    r5(ctx, prog)
    ctx.unit('effective_routines', len(prog.routines))
