"""C02 Billing aggregates equal the sum of attempt usage  (structural clauses).

  R1  one billed-duration function f(a) = GREATEST(COALESCE(a.rollup_time - a.start_time, 0), 0):  the attempts update trigger adds
      f(NEW) - f(OLD), the attempt_resources insert trigger adds f(current attempt row), the service's audit recomputes with the same f
  R2  both triggers write all four aggregate tables with `usage += diff x quantity` (insert value == on-duplicate increment), keyed by
      deduped_resource_id and by the attempt's own batch / job / billing project / user; the job-group table fans out over all ancestors
  R3  complementary coverage: the update trigger bills exactly the attempt_resources rows of the updated attempt (full key);
      the insert trigger reads the attempt row of the inserted resource (full key) - so every (attempt, resource) increment is billed once
  R4  add_attempt_resources re-sends are idempotent (ON DUPLICATE KEY UPDATE quantity = quantity)
  R5  compaction: SUM .. FOR UPDATE, DELETE, INSERT(token 0, that sum) with one key, in one @transaction, nothing else written;
      closed world of writers of the aggregate tables = the two triggers + the two compactors
  R6  the aggregate upserts run whenever the billed duration changes, in either direction: every condition enclosing an upsert (IF
      nesting, ELSE branches, code after `IF .. THEN LEAVE`) is TRUE for every (OLD row, stored row) pair that the writers of attempts
      and the BEFORE UPDATE trigger can produce (the order domain of C03: the before-trigger's outputs are the after-trigger's inputs)
      with f(NEW) != f(OLD); for the insert trigger: for every current attempt row with f > 0.  Decided symbolically per ordering class:
      D = f(NEW) - f(OLD) and every arithmetic comparison in a guard are linear forms over the gaps between consecutive timestamps of
      the class (each gap an integer >= 1), whose possible signs follow from the coefficient signs; where the ordering does not fix the
      sign of D the class is split by it.  No concrete values are evaluated (numbers only appear in the printed witness).  A guard that
      depends on data outside the attempt row, or whose truth is correlated with D in a way the split does not capture, is declined.
  R7  the closure table behind the job-group fan-out (engines/c02closure.py): abstract execution of every creation of a job group (each call site of
      the function that inserts the job_groups row; generic iteration of the loop over the request's specs; per-request ancestor caches as heap
      objects keyed by linear forms of ids): the rows reaching job_group_self_and_ancestors are exactly (g, g, 0) + every row of the parent with
      level + 1 - also when the parent was created by an earlier element of the same request.  Inductive step when every cache store is canonical
      (key = a group id, value = that group's chain), otherwise the two-step history (g1, then a child of g1) with exact stores.
  R8  lifetime of what the aggregates were computed from (engines/c02schema.py: foreign-key graph replayed from the migrations): nothing subtracts
      usage, and rows removed through ON DELETE CASCADE fire no trigger, so no statement anywhere (effective routines, migrations after the v3
      aggregates, Python of the batch service) may DELETE / REPLACE rows of attempts, attempt_resources or of any table they hang off by cascade
      (instances, jobs, batches, job_groups, batch_updates, ..), nor rewrite the columns the triggers multiply by / key on
      (attempt_resources.quantity / ids, batches.billing_project / user, jobs.job_group_id, closure rows).
Not decided: attribution across a UTC date roll-over, numeric totals; a closure copy restricted by a filter (declined); deletes restricted by a sub-query (declined).
"""
from __future__ import annotations

import ast
import itertools
import re
from typing import Any, Dict, Iterator, List, Optional, Sequence, Tuple

from engines import attemptfacts as af
from engines import c02schema as cs
from engines import pyfacts as pf
from engines import sqlfront as sf
from engines import sqlrules as sr
from engines.common import AnalysisError, AnchorRemoved, Ctx
from engines.common import short as common_short
from engines.sqlast import N, parse_expr, text
from engines.sqleval import UNKNOWN, may

META = dict(
    category='other',
    text='Per-statement obligations of the billing invariant decided on every writer of the four aggregate tables: same duration function in both '
         'triggers and in the audit, increment = duration difference x quantity with insert/on-duplicate symmetry and correct keys, complementary '
         'row coverage, idempotent resource registration, sum-preserving compaction, closed-world writers; and the conditions that enclose the aggregate upserts '
         'are TRUE whenever the billed duration changes, decided over the order domain of (OLD row, stored row) pairs that the writers of attempts and the BEFORE UPDATE trigger produce. '
         'Inputs of the triggers: the closure rows every new job group receives (abstract execution of the creating Python code, per-request caches included) and the lifetime of billed rows '
         '(no DELETE reaches attempts / attempt_resources directly or through an ON DELETE CASCADE chain; trigger inputs are write-once).',
    note='Trusted: SQL parser, migration replay; MySQL trigger semantics (AFTER INSERT does not fire for a duplicate-key no-op). Date roll-over and numeric totals not decided. '
         'R6 over-approximates the reachable attempt rows (every OLD row with rollup <= end; call-chain NULL classes as in C03).',
    technique='static analysis: SQL AST normal forms, sibling agreement between the two billing triggers and the audit query, closed-world writer scan, path conditions of the trigger body '
              'evaluated symbolically (three-valued, linear forms over the gaps of each ordering class) on the abstract row pairs shared with C03; abstract execution of Python over symbolic '
              'ids (linear normal forms) and row-set segments with explicit case splits; foreign-key graph replay and closed-world scan of row-removing statements',
    design_ref='DESIGN.md §3 C02',
)

TABLES = {
    'aggregated_billing_project_user_resources_v3': ['billing_project', 'user', 'resource_id'],
    'aggregated_job_group_resources_v3': ['batch_id', 'job_group_id', 'resource_id'],
    'aggregated_job_resources_v3': ['batch_id', 'job_id', 'resource_id'],
    'aggregated_billing_project_user_resources_by_date_v3': ['billing_date', 'billing_project', 'user', 'resource_id'],
}


def f_text(prefix: str) -> str:
    return text(parse_expr(f'GREATEST(COALESCE({prefix}rollup_time - {prefix}start_time, 0), 0)'))


def _product_factors(e: N) -> List[str]:
    if e.kind == 'bin' and e.op == '*':
        return sorted(_product_factors(e.left) + _product_factors(e.right))
    return [text(e).lower()]


def _bound_vars(routine: N) -> Dict[str, Tuple[str, str, N]]:
    """var -> (table, column, select stmt) for single-table SELECT col.. INTO var.."""
    out = {}
    for st in sf.all_statements(routine.body):
        if st.kind == 'select' and st.into and st.frm is not None and len(sf.table_names(st.frm)) == 1:
            for (c, _), v in zip(st.cols, st.into):
                if c.kind == 'col' and sr.is_var(v):
                    out[v.parts[0].lower()] = (sf.table_names(st.frm)[0].lower(), c.parts[-1].lower(), st)
    return out


# ----------------------------------------------------------------------------------------------------
# path conditions inside a trigger body (IF nesting, ELSE, statements after `IF c THEN .. LEAVE/SIGNAL`)
# ----------------------------------------------------------------------------------------------------
# fact := ('atom', cond, polarity)            polarity True: cond is TRUE;  False: cond is FALSE or NULL (branch not taken)
#       | ('nall', (fact, ...))               not all of the facts hold (an earlier leaving path was not taken)
Fact = Tuple


def _exits(stmts: Sequence[N]) -> bool:
    return bool(stmts) and stmts[-1].kind in ('leave', 'signal')


def path_facts(name: str, body: Sequence[N], guard: Tuple[Fact, ...] = (), inner_labels: Tuple[str, ...] = ()) -> Iterator[Tuple[N, Tuple[Fact, ...]]]:
    """(statement, facts that hold whenever it runs), in program order."""
    extra: Tuple[Fact, ...] = ()
    for st in body:
        g = guard + extra
        if st.kind == 'if':
            neg: Tuple[Fact, ...] = ()
            leaving: List[Tuple[Fact, ...]] = []
            for c, b in st.branches:
                yield from path_facts(name, b, g + neg + (('atom', c, True),), inner_labels)
                if _exits(b):
                    leaving.append(neg + (('atom', c, True),))
                neg = neg + (('atom', c, False),)
            if st.orelse is not None:
                yield from path_facts(name, st.orelse, g + neg, inner_labels)
                if _exits(st.orelse):
                    leaving.append(neg)
            for path in leaving:
                extra = extra + ((('nall', path),) if len(path) > 1 else (('atom', path[0][1], not path[0][2]),))
        elif st.kind in ('loop', 'while', 'block'):
            lab = getattr(st, 'label', None)
            if any(x.kind in ('leave', 'iterate') for x in sf.all_statements(st.body)):
                raise AnalysisError(f'{name}: LEAVE/ITERATE inside a nested {st.kind}: control flow not modelled')
            yield st, g
            yield from path_facts(name, st.body, g, inner_labels + ((lab,) if lab else ()))
        elif st.kind == 'leave':
            if st is not body[-1]:
                raise AnalysisError(f'{name}: LEAVE that is not the last statement of its branch')
            yield st, g
        elif st.kind == 'iterate':
            raise AnalysisError(f'{name}: ITERATE: control flow not modelled')
        elif st.kind == 'declare_handler':
            raise AnalysisError(f'{name}: condition handler in a billing trigger: control flow not modelled')
        else:
            yield st, g
    return


def fact_text(f: Fact) -> str:
    if f[0] == 'atom':
        return text(f[1]) if f[2] else f'NOT {text(f[1])}'
    return 'NOT (' + ' AND '.join(fact_text(x) for x in f[1]) + ')'


def fact_status(f: Fact, ce: af.CondEval) -> str:
    """'T' holds for every realisation of the class | 'F' for none | 'V' exactly: for some but not all | 'U' not decided."""
    if f[0] == 'atom':
        r = ce.truth(f[1])
        if r[0] == 'const':
            return 'T' if (r[1] is True) == f[2] else 'F'
        if r[0] == 'var':
            outs = {(o is True) == f[2] for o in r[1]}
            return 'T' if outs == {True} else ('F' if outs == {False} else 'V')
        return 'U'
    vals = [fact_status(x, ce) for x in f[1]]
    if any(v == 'F' for v in vals):
        return 'T'
    if all(v == 'T' for v in vals):
        return 'F'
    if vals.count('V') == 1 and all(v in ('T', 'V') for v in vals):
        return 'V'
    return 'U'


def fact_numeric(f: Fact, known) -> Optional[bool]:
    """Only used to pick the numbers printed in a witness (never for a verdict)."""
    if f[0] == 'atom':
        m = may(f[1], known)
        return None if len(m) != 1 else (next(iter(m)) == f[2])
    vals = [fact_numeric(x, known) for x in f[1]]
    if any(v is False for v in vals):
        return True
    return False if all(v is True for v in vals) else None


def _is_prefix(a: Tuple[Fact, ...], b: Tuple[Fact, ...]) -> bool:
    return len(a) <= len(b) and all(x is y or x == y for x, y in zip(a, b))


def nested_env(r: sf.Routine, stmts: List[Tuple[N, Tuple[Fact, ...]]]) -> Dict[str, Tuple[N, Tuple[Fact, ...], int]]:
    """var -> (defining expression with earlier definitions substituted, facts of the SET, program position) for variables assigned
    exactly once in the routine by a SET (anywhere, also inside IF blocks)."""
    counts: Dict[str, int] = {}
    for st, _ in stmts:
        targets: List[N] = []
        if st.kind == 'set':
            targets = [t for t, _ in st.assigns]
        elif st.kind in ('select', 'fetch') and getattr(st, 'into', None):
            targets = list(st.into)
        for t in targets:
            if sr.is_var(t):
                counts[t.parts[0].lower()] = counts.get(t.parts[0].lower(), 0) + 1
    declared = set(sr.declared_vars(r.ast))
    env: Dict[str, Tuple[N, Tuple[Fact, ...], int]] = {}
    for i, (st, facts) in enumerate(stmts):
        if st.kind != 'set':
            continue
        for t, v in st.assigns:
            if sr.is_var(t) and t.parts[0].lower() in declared and counts.get(t.parts[0].lower()) == 1:
                usable = {k: e for k, (e, f2, _) in env.items() if _is_prefix(f2, facts)}
                env[t.parts[0].lower()] = (sr.inline_expr(v, usable), facts, i)
    return env


def _inline_fact(f: Fact, env: Dict[str, N]) -> Fact:
    if f[0] == 'atom':
        return ('atom', sr.inline_expr(f[1], env), f[2])
    return ('nall', tuple(_inline_fact(x, env) for x in f[1]))


def f_value(s: Optional[int], r: Optional[int]) -> int:
    return max(r - s, 0) if s is not None and r is not None else 0


def _lin_f(s_: Optional[int], r_: Optional[int]) -> af.Lin:
    """f = GREATEST(COALESCE(rollup - start, 0), 0) as a linear form over the rank atoms of an ordering class."""
    if s_ is None or r_ is None or r_ <= s_:
        return af._lin({}, 0)
    return af._lin_add(af._lin({r_: 1}, 0), af._lin({s_: 1}, 0), -1)


def _numbers(ranks: Sequence[Optional[int]], gaps: Sequence[int]) -> Dict[int, int]:
    ks = sorted({x for x in ranks if x is not None and x != af.ZERO})
    val = {af.ZERO: 0}
    acc = 0
    for k, g in zip(ks, gaps):
        acc += g
        val[k] = acc
    return val


_points_cache: Dict[int, List[Tuple[str, str, Dict[str, Any], Dict[str, Any]]]] = {}


def attempt_row_changes(ctx: Ctx, prog: sf.SqlProgram) -> List[Tuple[str, str, Dict[str, Any], Dict[str, Any]]]:
    """Distinct (OLD row, stored row) pairs an UPDATE of attempts can produce: every writer statement x call chain x ordering class,
    through the parsed BEFORE UPDATE trigger (shared with C03)."""
    if id(prog) in _points_cache:
        return _points_cache[id(prog)]
    trig = prog.routine('attempts_before_update')
    a = trig.ast
    ctx.need(a.rkind == 'trigger' and a.timing == 'BEFORE' and a.event == 'UPDATE' and a.table.lower() == 'attempts', 'attempts_before_update is not BEFORE UPDATE ON attempts')
    ws = af.find_writers(ctx, prog, rule=None)
    af.refine_from_callers(ctx, prog, ws)
    ctx.need(len(ws) >= 7, f'only {len(ws)} writers of attempts found')
    special = [l for l in af.zeroing_reasons(a.body)]
    seen: Dict[tuple, int] = {}
    out = []
    zero = set(special)
    for w in sorted(ws, key=lambda w: not w.assigns):       # statements that set nothing (duplicate-key no-op) last: better witnesses first
        for _vi, label, old, new, stored, tag in af.transitions_tagged(a.body, w, special):
            key = (tuple(old[c] for c in af.COLS), tuple(stored[c] for c in af.COLS))
            # tag is not None: the pair rests on an assumption about a value the call-chain analysis could not establish (not evidence by itself)
            if key not in seen:
                seen[key] = len(out)
                out.append([w.wid, label, old, stored, new['reason'] in zero, tag is None])
            elif tag is None and not out[seen[key]][5]:
                out[seen[key]][:2] = [w.wid, label]
                out[seen[key]][5] = True
    # witnesses are taken in this order: OLD rows that real histories produce first (reason set iff end set, not an activation timeout)
    out.sort(key=lambda p: ((p[2]['reason'] is None) != (p[2]['end_time'] is None), p[2]['reason'] in zero, p[3]['reason'] in zero, p[4]))
    out = [tuple(p[:4]) + (p[5],) for p in out]
    _points_cache[id(prog)] = out
    ctx.unit('attempt_row_changes', len(out))
    return out


def check_guards_update(ctx: Ctx, r: sf.Routine, cons: str, st: N, facts: Tuple[Fact, ...], points) -> None:
    """R6 for the AFTER UPDATE trigger."""
    if not facts:
        ctx.ok('R6', cons, 'unconditional')
        return
    verdict = _guard_verdict_update(tuple(facts), points)
    if verdict[0] == 'bad':
        _, f, wid, label, ov, nv, d = verdict
        ctx.bad('R6', cons, f'the upsert into the aggregate is skipped although the billed duration of the attempt changes by {d} ms: the enclosing condition `{fact_text(f)}` is not TRUE. '
                f'Witness: {wid} (call chain {label}) turns OLD={ov} into the stored row NEW={nv}; f(NEW) - f(OLD) = {d} with f = GREATEST(COALESCE(rollup - start, 0), 0), '
                f'so every aggregate keeps quantity x {f_value(ov["start_time"], ov["rollup_time"])} while the attempt now says quantity x {f_value(nv["start_time"], nv["rollup_time"])}',
                r.file, r.line_of(st), extra={'writer': wid, 'chain': label, 'old': ov, 'new': nv, 'diff': d, 'condition': fact_text(f)})
        return
    if verdict[0] == 'undecided':
        raise AnalysisError(f'{cons}: the upsert is conditional on `{verdict[1]}`, which depends on data outside the attempt row or on an unestablished call-chain value; cannot decide whether increments are skipped')
    ctx.ok('R6', cons, {'conditions': [fact_text(f) for f in facts], 'row_changes_with_nonzero_difference': verdict[1]})


_verdicts: Dict[str, tuple] = {}


def _guard_verdict_update(facts: Tuple[Fact, ...], points) -> tuple:
    key = ' && '.join(fact_text(f) for f in facts)
    if key in _verdicts:
        return _verdicts[key]
    _verdicts[key] = v = _guard_verdict_update0(facts, points)
    return v


def _guard_verdict_update0(facts: Tuple[Fact, ...], points) -> tuple:
    """Abstract decision per ordering class of (OLD row, stored row): D = f(NEW) - f(OLD) as a linear form over the gaps of the class;
    classes where D is identically 0 carry no obligation; where the sign of D is not fixed by the ordering the class is split by that sign."""
    undecided: Optional[str] = None
    cases = 0
    uses_reason = any(n.kind == 'col' and n.parts[-1].lower() == 'reason' for f in facts for n in _fact_nodes(f))
    done = set()
    for wid, label, old, new, certain in sorted(points, key=lambda p: not p[4]):      # established pairs first (stable: witness order kept)
        pk = (tuple(old[c] for c in af.TIME_COLS), tuple(new[c] for c in af.TIME_COLS)) + ((old['reason'], new['reason']) if uses_reason else ())
        if pk in done:
            continue
        done.add(pk)
        ranks = [old[c] for c in af.TIME_COLS] + [new[c] for c in af.TIME_COLS]
        basis = af.GapBasis(ranks)
        dlin = af._lin_add(_lin_f(new['start_time'], new['rollup_time']), _lin_f(old['start_time'], old['rollup_time']), -1)
        da, dc = basis.coeffs(dlin)
        cn, cz, cp = af.sign_info(da, dc)
        if cn is False and cp is False:
            continue        # the billed duration does not change in this class

        def leaf(n: N):
            if n.kind == 'col' and len(n.parts) == 2 and n.parts[0].upper() in ('OLD', 'NEW') and n.parts[1].lower() in af.COLS:
                return (old if n.parts[0].upper() == 'OLD' else new)[n.parts[1].lower()]
            raise af.UnknownLeaf(text(n))
        sigmas = [sg for sg, can in ((-1, cn), (1, cp)) if can]
        split = not (len(sigmas) == 1 and cz is False)
        for sg in sigmas:
            cases += 1
            ce = af.CondEval(leaf, basis, pivot=(da, dc) if split else None, pivot_sign=sg)
            for f in facts:
                v = fact_status(f, ce)
                if v in ('F', 'V') and not certain:
                    if undecided is None:
                        undecided = fact_text(f) + f' (it fails on a row change of {wid}, chain {label}, that exists only under an assumption about a value the call-chain analysis could not establish)'
                    continue
                if v in ('F', 'V'):
                    return ('bad', f, wid, label) + _witness_update(f, old, new, ranks, da, sg, v)
                if v == 'U' and undecided is None:
                    undecided = fact_text(f)
    if undecided is not None:
        return ('undecided', undecided)
    return ('ok', cases)


def _witness_update(f: Fact, old: Dict[str, Any], new: Dict[str, Any], ranks, da: Tuple[int, ...], sg: int, status: str) -> tuple:
    """Numbers for the message of an already established violation: a realisation of the class with sign(D) = sg (and, for a condition
    that fails only for part of the class, one on which it fails)."""
    n = len(da)
    base = [1000 if a * sg >= 0 else 1 for a in da]
    cands = [base] + [list(g) for g in itertools.product((1, 1000), repeat=n)] + [[2000 if x == 1000 else 1 for x in base]]
    pick = None
    for gaps in cands:
        val = _numbers(ranks, gaps)
        ov = {c: (None if old[c] is None else val[old[c]]) for c in af.TIME_COLS}
        nv = {c: (None if new[c] is None else val[new[c]]) for c in af.TIME_COLS}
        ov['reason'], nv['reason'] = old['reason'], new['reason']
        d = f_value(nv['start_time'], nv['rollup_time']) - f_value(ov['start_time'], ov['rollup_time'])
        if d == 0 or (d > 0) != (sg > 0):
            continue

        def known(x: N):
            if x.kind == 'col' and len(x.parts) == 2 and x.parts[0].upper() in ('OLD', 'NEW') and x.parts[1].lower() in af.COLS:
                return (ov if x.parts[0].upper() == 'OLD' else nv)[x.parts[1].lower()]
            return UNKNOWN
        if pick is None:
            pick = (ov, nv, d)
        if fact_numeric(f, known) is False:
            pick = (ov, nv, d)
            break
    if pick is None:
        val = _numbers(ranks, [1000] * n)
        ov = {c: (None if old[c] is None else val[old[c]]) for c in af.COLS[:3]}
        nv = {c: (None if new[c] is None else val[new[c]]) for c in af.COLS[:3]}
        pick = (ov, nv, f_value(nv['start_time'], nv['rollup_time']) - f_value(ov['start_time'], ov['rollup_time']))
    return pick


def _fact_nodes(f: Fact) -> Iterator[N]:
    if f[0] == 'atom':
        yield from f[1].walk()
    else:
        for x in f[1]:
            yield from _fact_nodes(x)


def check_guards_insert(ctx: Ctx, r: sf.Routine, cons: str, st: N, facts: Tuple[Fact, ...], bound: Dict[str, Tuple[str, str, N]]) -> None:
    """R6 for the AFTER INSERT trigger on attempt_resources: the current attempt row is arbitrary (any ordering class with rollup > start)."""
    if not facts:
        ctx.ok('R6', cons, 'unconditional')
        return
    undecided: Optional[str] = None
    cases = 0
    for ordv in af.weak_orderings(3):
        row = dict(zip(af.TIME_COLS, ordv))
        s_, r_ = row['start_time'], row['rollup_time']
        if not (s_ is not None and r_ is not None and r_ > s_) or not af.inv(row):
            continue
        cases += 1
        basis = af.GapBasis(list(ordv))

        def leaf(n: N):
            if sr.is_var(n) and n.parts[0].lower() in bound and bound[n.parts[0].lower()][0] == 'attempts' and bound[n.parts[0].lower()][1] in row:
                return row[bound[n.parts[0].lower()][1]]
            raise af.UnknownLeaf(text(n))
        ce = af.CondEval(leaf, basis)
        for f in facts:
            v = fact_status(f, ce)
            if v in ('F', 'V'):
                part = 'for every such row' if v == 'F' else 'for some such rows (depending on how far the times are apart)'
                ctx.bad('R6', cons, f'the upsert is skipped for a resource registered after the attempt was already billed: the enclosing condition `{fact_text(f)}` is not TRUE {part} '
                        f'when the attempt row has {af.realise(row)} (billed time > 0): quantity x billed time of the new resource never reaches the aggregate',
                        r.file, r.line_of(st), extra={'attempt_row_class': af.realise(row), 'condition': fact_text(f)})
                return
            if v == 'U' and undecided is None:
                undecided = fact_text(f)
    if undecided is not None:
        raise AnalysisError(f'{cons}: the upsert is conditional on `{undecided}`, which depends on data outside the attempt row; cannot decide whether increments are skipped')
    ctx.ok('R6', cons, {'conditions': [fact_text(f) for f in facts], 'attempt_row_classes_with_billed_time': cases})


# ----------------------------------------------------------------------------------------------------
# name-free reading of the trigger statements: columns are resolved through the FROM clause's alias map, variables through their single
# definition (SET: inlined; SELECT .. INTO: the table / column / key they were read with), equalities are unordered pairs
# ----------------------------------------------------------------------------------------------------
Ref = Tuple[str, str]          # ('new' | 'old', column) | (table, column) | ('var', name)
_DATE_TODAY_UTC = {'UTC_DATE', 'UTC_TIMESTAMP'}
_DATE_TODAY_OTHER = {'CURRENT_DATE', 'CURDATE', 'NOW', 'CURRENT_TIMESTAMP', 'SYSDATE', 'LOCALTIME', 'LOCALTIMESTAMP'}


def _alias_map(frm: Optional[N]) -> Optional[Dict[str, str]]:
    """alias (or bare name) -> table name, lower-cased; None when the FROM clause has something else than plain tables."""
    out: Dict[str, str] = {}
    for t in sf.from_tables(frm):
        if t.kind != 'table':
            return None
        out[(t.alias or t.name).lower()] = t.name.lower()
    return out


def _resolve(n: N, alias: Dict[str, str], declared: set, prog: sf.SqlProgram) -> Optional[Ref]:
    if n.kind != 'col':
        return None
    parts = [x.lower() for x in n.parts]
    if len(parts) == 2:
        if parts[0] in ('new', 'old'):
            return (parts[0], parts[1])
        return (alias[parts[0]], parts[1]) if parts[0] in alias else None
    if len(parts) != 1:
        return None
    if parts[0] in declared:
        return ('var', parts[0])
    owners = sorted({t for t in alias.values() if parts[0] in [c.lower() for c in _table_columns(prog, t)]})
    if len(owners) == 1:
        return (owners[0], parts[0])
    if not owners and len(set(alias.values())) == 1:
        return (next(iter(alias.values())), parts[0])
    return None


def _table_columns(prog: sf.SqlProgram, table: str) -> List[str]:
    for k, v in prog.tables.items():
        if k.lower() == table:
            return list(v)
    return []


def _eq_pairs(conds: Sequence[N], alias: Dict[str, str], declared: set, prog: sf.SqlProgram) -> Tuple[List[Tuple[Ref, Ref]], List[N]]:
    """(resolved `a = b` conjuncts, conjuncts that are not an equality of two resolvable references)."""
    pairs: List[Tuple[Ref, Ref]] = []
    other: List[N] = []
    for c in conds:
        if c.kind == 'bin' and c.op == '=':
            l, r_ = _resolve(c.left, alias, declared, prog), _resolve(c.right, alias, declared, prog)
            if l is not None and r_ is not None:
                pairs.append((l, r_))
                continue
        other.append(c)
    return pairs, other


def _partner(pairs: Sequence[Tuple[Ref, Ref]], ref: Ref) -> List[Ref]:
    return [b for a, b in pairs if a == ref] + [a for a, b in pairs if b == ref]


def _factors(e: N) -> List[N]:
    if e.kind == 'bin' and e.op == '*':
        return _factors(e.left) + _factors(e.right)
    return [e]


def _is_leafish(e: N) -> bool:
    return e.kind in ('col', 'lit')


class TriggerReader:
    """Shared by R1 / R2 / R3 (and by C03 R2): what the billing trigger `r` adds to each aggregate table, read by role."""

    def __init__(self, ctx: Ctx, prog: sf.SqlProgram, r: sf.Routine, kind: str):
        self.ctx, self.prog, self.r, self.kind = ctx, prog, r, kind
        a = r.ast
        self.stmts = list(path_facts(r.name, a.body))
        self.facts_of = {id(st): f for st, f in self.stmts}
        self.pos_of = {id(st): i for i, (st, _) in enumerate(self.stmts)}
        self.nenv = nested_env(r, self.stmts)
        self.bound = _bound_vars(a)
        self.declared = set(sr.declared_vars(a))
        self.calls = [st for st, _ in self.stmts if st.kind in ('call', 'prepare', 'execute')]
        # how often each variable is assigned (SET / SELECT INTO / FETCH): `bound` and `nenv` are only trusted for single definitions
        self.counts: Dict[str, int] = {}
        for st, _ in self.stmts:
            targets: List[N] = []
            if st.kind == 'set':
                targets = [t for t, _ in st.assigns]
            elif st.kind in ('select', 'fetch') and getattr(st, 'into', None):
                targets = list(st.into)
            for t in targets:
                if sr.is_var(t):
                    self.counts[t.parts[0].lower()] = self.counts.get(t.parts[0].lower(), 0) + 1
        self.per_table: Dict[str, List[Tuple[N, tuple]]] = {}
        for st, guard in self.stmts:
            if st.kind == 'insert' and st.table.lower() in TABLES:
                self.per_table.setdefault(st.table.lower(), []).append((st, guard))

    # -- variables ---------------------------------------------------------------------------------------------------------------
    def env_at(self, st: N, guard: tuple) -> Dict[str, N]:
        return {k: e for k, (e, f2, p2) in self.nenv.items() if _is_prefix(f2, guard) and p2 < self.pos_of[id(st)]}

    def need_defined(self, st: N, guard: tuple, what: str) -> None:
        """Every variable the statement uses (directly or through an inlined definition) is assigned on every path that reaches it."""
        r = self.r
        used = {text(n).lower() for n in st.walk() if sr.is_var(n)} & self.declared
        todo = [(v, self.pos_of[id(st)], guard) for v in sorted(used)]
        seen = set()
        while todo:
            v, pos, g = todo.pop()
            if (v, pos) in seen:
                continue
            seen.add((v, pos))
            if v in self.nenv:
                e, f2, p2 = self.nenv[v]
                self.ctx.need(_is_prefix(f2, g) and p2 < pos, f'{r.name}: `{v}` is not assigned on every path that reaches {what}')
                set_st = self.stmts[p2][0]
                for t, val in set_st.assigns:
                    if sr.is_var(t) and t.parts[0].lower() == v:
                        for n in val.walk():
                            if sr.is_var(n) and n.parts[0].lower() in self.declared:
                                todo.append((n.parts[0].lower(), p2, f2))
            elif v in self.bound:
                self.ctx.need(self.counts.get(v, 0) == 1, f'{r.name}: `{v}` is assigned more than once; which value reaches {what} is not analysed')
                sel0 = self.bound[v][2]
                self.ctx.need(_is_prefix(self.facts_of[id(sel0)], g) and self.pos_of[id(sel0)] < pos, f'{r.name}: `{v}` is not read on every path that reaches {what}')
            elif self.counts.get(v, 0) > 0:
                raise AnalysisError(f'{r.name}: `{v}` (used by {what}) is assigned in a way the analysis does not follow')

    def var_source(self, v: str) -> Optional[Tuple[str, str, Optional[Dict[str, Ref]], N]]:
        """(table, column, {key column: what it is compared with} or None if the WHERE is not a plain conjunction of equalities, SELECT) for a
        variable read by a single-table SELECT .. INTO."""
        if v not in self.bound or self.counts.get(v, 0) != 1:
            return None
        tb, c, sel = self.bound[v]
        alias = _alias_map(sel.frm) or {}
        pairs, other = _eq_pairs(sf.conjuncts(sel.where), alias, self.declared, self.prog)
        key: Optional[Dict[str, Ref]] = None
        if not other:
            key = {}
            for a_, b_ in pairs:
                for x, y in ((a_, b_), (b_, a_)):
                    if x[0] == tb and y[0] != tb:
                        key[x[1]] = y
        return tb, c, key, sel

    # -- one aggregate insert ----------------------------------------------------------------------------------------------------
    def usage_factors(self, st: N, guard: tuple, alias: Dict[str, str]) -> Tuple:
        """('ok', duration expression (variables inlined), quantity factor) | ('bad', why) | ('undecided', why) for the value inserted as usage."""
        ins, _dup, _uv = sr.insert_colmap(st)
        use = ins.get('usage')
        if use is None:
            return ('undecided', 'no usage column')
        e = sr.inline_expr(use, self.env_at(st, guard))
        fs = [f for f in _factors(e) if not (f.kind == 'lit' and f.value == 1)]
        qty_ref = ('new', 'quantity') if self.kind == 'insert' else ('attempt_resources', 'quantity')
        q = [f for f in fs if _resolve(f, alias, self.declared, self.prog) == qty_ref]
        rest = [f for f in fs if not any(f is x for x in q)]
        if len(q) == 1 and len(rest) == 1:
            return ('ok', rest[0], q[0])
        raw = [f for f in _factors(use) if not (f.kind == 'lit' and f.value == 1)]
        if all(_is_leafish(f) and (f.kind == 'lit' or _resolve(f, alias, self.declared, self.prog) is not None) for f in raw):
            if not q:
                return ('bad', f'`{text(use)}` is not multiplied by the quantity of the {"inserted" if self.kind == "insert" else "attempt_resources"} row')
            return ('bad', f'`{text(use)}` is not (duration difference) x (quantity): factors {[text(f) for f in fs]}')
        return ('undecided', f'usage value `{text(use)}` is not a product of a duration and a quantity the analysis can read')


def _amount_terms(e: N) -> List[Tuple[int, N]]:
    """additive terms with sign"""
    if e.kind == 'bin' and e.op in ('+', '-'):
        right = _amount_terms(e.right)
        return _amount_terms(e.left) + [(sg if e.op == '+' else -sg, t) for sg, t in right]
    if e.kind == 'un' and e.op == '-':
        return [(-sg, t) for sg, t in _amount_terms(e.arg)]
    return [(1, e)]


def _norm_product(e: N) -> List[str]:
    return sorted(text(f).lower() for f in _factors(e) if not (f.kind == 'lit' and f.value == 1))


def check_trigger(ctx: Ctx, prog: sf.SqlProgram, r: sf.Routine, kind: str) -> None:
    tr = TriggerReader(ctx, prog, r, kind)
    cons0 = f'{r.file}::{r.name}'
    declared = tr.declared
    src_table = 'attempt_resources'
    for st, _guard in tr.stmts:
        if st.kind in ('update', 'delete') and any(t.lower() in TABLES for t, _ in sf.written_tables(st)):
            ctx.bad('R2', cons0 + f'::{st.kind} of aggregate', f'aggregate table modified by {st.kind} inside the trigger: {text(st)[:100]}', r.file, r.line_of(st))
    durations: List[Tuple[N, N, Dict[str, str]]] = []       # (duration expression, statement, alias map)
    for tbl, keycols in TABLES.items():
        cons = f'{cons0}::{tbl}'
        sts = tr.per_table.get(tbl, [])
        if not sts:
            ctx.need(not tr.calls, f'{r.name}: no insert into {tbl} in the trigger body, but it calls other routines / dynamic SQL ({tr.calls[0].kind if tr.calls else ''}); not followed')
            ctx.bad('R2', cons, f'the trigger has no insert into {tbl}: this aggregate is never updated by this path', r.file, r.line)
            continue
        if len(sts) > 1:
            same_path = any(_is_prefix(g1, g2) or _is_prefix(g2, g1) for i, (_, g1) in enumerate(sts) for _, g2 in sts[i + 1:])
            ctx.need(same_path, f'{r.name}: {len(sts)} inserts into {tbl} under different conditions; whether exactly one runs is not analysed')
            ctx.bad('R2', cons, f'the trigger has {len(sts)} inserts into {tbl} on the same path: usage would be added more than once', r.file, r.line)
            continue
        st, guard = sts[0]
        ins, dup, uvars = sr.insert_colmap(st)
        sel = st.select
        alias: Dict[str, str] = {}
        if sel is not None:
            am = _alias_map(sel.frm)
            ctx.need(am is not None, f'{r.name}: the insert into {tbl} selects from a derived table; not analysed')
            alias = am or {}
        tr.need_defined(st, guard, f'the insert into {tbl}')
        env = tr.env_at(st, guard)
        # R6: conditions enclosing the upsert, with single-assignment variables inlined
        facts = tuple(_inline_fact(f, env) for f in guard)
        if kind == 'update':
            check_guards_update(ctx, r, cons + '::guard', st, facts, attempt_row_changes(ctx, prog))
        else:
            check_guards_insert(ctx, r, cons + '::guard', st, facts, tr.bound)

        def res(e: Optional[N]) -> Optional[Ref]:
            return _resolve(sr.inline_expr(e, env), alias, declared, prog) if e is not None else None

        def shown(e: Optional[N]) -> str:
            return '<missing>' if e is None else text(e)
        # ---- R2 amount -----------------------------------------------------------------------------------------------------
        ctx.need(ins.get('usage') is not None, f'{r.name}: insert into {tbl} has no usage column')
        uf = tr.usage_factors(st, guard, alias)
        if uf[0] == 'undecided':
            raise AnalysisError(f'{r.name}: insert into {tbl}: {uf[1]}')
        ctx.check(uf[0] == 'ok', 'R2', cons + '::amount', f'usage inserted: {uf[1] if uf[0] == "bad" else ""}; expected (billed-duration difference) x quantity of the {"inserted" if kind == "insert" else "attempt_resources"} row',
                  r.file, r.line_of(st))
        if uf[0] == 'ok':
            durations.append((uf[1], st, alias))
        # ---- R2 on duplicate -----------------------------------------------------------------------------------------------
        d = dup.get('usage')
        other_dups = [c for c, v in dup.items() if c != 'usage' and not _is_self_assign(c, v)]
        ctx.need(not other_dups, f'{r.name}: ON DUPLICATE KEY UPDATE of {tbl} also assigns {other_dups}; not analysed')
        if d is None:
            ctx.need(not st.ignore, f'{r.name}: INSERT IGNORE into {tbl}; not analysed')
            ctx.bad('R2', cons + '::on-duplicate', 'the insert has no ON DUPLICATE KEY UPDATE of usage: a second increment for the same key fails or is dropped instead of being added', r.file, r.line_of(st))
        else:
            use_raw, use_inl = _norm_product(ins['usage']), _norm_product(sr.inline_expr(ins['usage'], env))
            terms = _amount_terms(d)

            def is_usage_col(t: N) -> bool:
                return t.kind == 'col' and t.parts[-1].lower() == 'usage' and (len(t.parts) == 1 or t.parts[-2].lower() == tbl)

            def is_values_usage(t: N) -> bool:
                return t.kind == 'values_fn' and str(t.col).lower().strip('`') == 'usage'

            def same_amount(t: N) -> bool:
                return is_values_usage(t) or _norm_product(t) == use_raw or _norm_product(sr.inline_expr(t, env)) == use_inl
            keeps = [sg for sg, t in terms if is_usage_col(t)]
            adds = [(sg, t) for sg, t in terms if not is_usage_col(t)]
            ok_dup = keeps == [1] and len(adds) == 1 and adds[0][0] == 1 and same_amount(adds[0][1])
            if not ok_dup:
                # a violation needs a shape that is fully read: the kept usage and products of plain columns / variables / literals
                readable = all(is_usage_col(t) or is_values_usage(t) or all(_is_leafish(f) for f in _factors(t)) for _, t in terms)
                ctx.need(readable, f'{r.name}: ON DUPLICATE KEY UPDATE usage = `{text(d)}` of {tbl} is not a sum of products the analysis can read')
            ctx.check(ok_dup, 'R2', cons + '::on-duplicate', f'ON DUPLICATE KEY UPDATE `{text(d)}` does not add the same amount as a fresh row would hold (`{text(ins["usage"])}`)', r.file, r.line_of(st))
        # ---- R2 resource key -----------------------------------------------------------------------------------------------
        rid = res(ins.get('resource_id'))
        want_rid = ('new', 'deduped_resource_id') if kind == 'insert' else (src_table, 'deduped_resource_id')
        ctx.need(rid is not None and rid[0] != 'var', f'{r.name}: resource_id of {tbl} receives `{shown(ins.get("resource_id"))}`, not a column of the resource row the analysis can resolve')
        ctx.check(rid == want_rid, 'R2', cons + '::resource key', f'resource_id column receives `{shown(ins.get("resource_id"))}`, expected the deduped_resource_id of the resource row', r.file, r.line_of(st))
        # rows the statement reads: WHERE + inner-join equalities hold for every row it inserts
        where_pairs: List[Tuple[Ref, Ref]] = []
        where_other: List[N] = []
        if sel is not None:
            where_pairs, where_other = _eq_pairs(sf.conjuncts(sel.where), alias, declared, prog)

        def same_as_attempt(ref: Optional[Ref], col: str) -> Optional[bool]:
            """Is `ref` the attempt's own `col` (batch_id / job_id)?  None: not decided."""
            if ref is None:
                return None
            good = {('new', col), (src_table, col)} if kind == 'update' else {('new', col)}
            if ref in good:
                return True
            if any(p in good for p in _partner(where_pairs, ref)):
                return True         # equated with it by the WHERE clause
            if ref[0] == 'var':
                vs = tr.var_source(ref[1])
                if vs is None:
                    return None
                return False if vs[0] != 'var' else None
            return False

        def owner_origin(col: str) -> Tuple[Optional[bool], str]:
            """batches.<col> of the batch NEW.batch_id?"""
            e = ins.get(col)
            ref = res(e)
            if e is None:
                return False, '<missing>'
            e1 = sr.inline_expr(e, env)
            if e1.kind == 'lit':
                return False, text(e1)
            if ref is None or ref[0] != 'var':
                return (None if ref is None or ref[0] == 'batches' else False), text(e1)
            vs = tr.var_source(ref[1])
            if vs is None:
                return None, text(e1)
            tb, c, key, _sel = vs
            if tb != 'batches' or c != col:
                return False, f'{tb}.{c}'
            if key is None:
                return None, f'{tb}.{c} (WHERE not a conjunction of equalities)'
            if set(key) == {'id'} and key['id'] == ('new', 'batch_id'):
                return True, f'{tb}.{c}@new.batch_id'
            return False, f'{tb}.{c}@{key}'
        if 'billing_project' in keycols:
            (o1, t1), (o2, t2) = owner_origin('billing_project'), owner_origin('user')
            ctx.need(o1 is not None and o2 is not None, f'{r.name}: billing_project / user of {tbl} receive {t1} / {t2}; their origin is not resolved')
            ctx.check(bool(o1 and o2), 'R2', cons + '::owner keys', f'billing_project/user columns receive {t1} / {t2}; expected the billing project and user of batch NEW.batch_id', r.file, r.line_of(st))
        if 'job_id' in keycols:
            b_ok, j_ok = same_as_attempt(res(ins.get('batch_id')), 'batch_id'), same_as_attempt(res(ins.get('job_id')), 'job_id')
            ctx.need(b_ok is not None and j_ok is not None, f'{r.name}: batch_id / job_id of {tbl} receive `{shown(ins.get("batch_id"))}` / `{shown(ins.get("job_id"))}`; not resolved')
            ctx.check(bool(b_ok and j_ok), 'R2', cons + '::job keys', f'batch_id/job_id columns receive {shown(ins.get("batch_id"))} / {shown(ins.get("job_id"))}; expected those of the attempt', r.file, r.line_of(st))
        if 'job_group_id' in keycols:
            verdict = _fanout_verdict(tr, st, ins, alias, where_pairs, env, same_as_attempt)
            if verdict[0] == 'undecided':
                raise AnalysisError(f'{r.name}: insert into {tbl}: {verdict[1]}')
            ctx.check(verdict[0] == 'ok', 'R2', cons + '::ancestor fan-out', 'usage is not added for the job\'s own group and every ancestor group (join job_group_self_and_ancestors on the job\'s batch_id / job_group_id, insert ancestor_id)'
                      + (f': {verdict[1]}' if verdict[0] == 'bad' else ''), r.file, r.line_of(st))
        if 'billing_date' in keycols:
            bd = ins.get('billing_date')
            bde = sr.inline_expr(bd, env) if bd is not None else None
            fnames = {n.name.upper() for n in bde.walk() if n.kind == 'func'} if bde is not None else set()
            leaf_only = bde is None or bde.kind in ('lit',) or (bde.kind == 'col' and res(bd) is not None and res(bd)[0] != 'var')
            ctx.need(bool(fnames & _DATE_TODAY_UTC) or leaf_only, f'{r.name}: billing_date of {tbl} receives `{shown(bd)}`; whether that is the current billing day is not analysed')
            ctx.check(bool(fnames & _DATE_TODAY_UTC), 'R2', cons + '::billing date', f'billing_date column receives `{shown(bd)}`, not the current (UTC) day', r.file, r.line_of(st))
        # ---- R3: source rows -----------------------------------------------------------------------------------------------
        if kind == 'update':
            ctx.need(sel is not None or all(_is_leafish(x) for x in ins.values()), f'{r.name}: insert into {tbl} has no SELECT; not analysed')
            if sel is None:
                ctx.bad('R3', cons + '::rows billed', 'the update trigger inserts a single VALUES row: it does not bill every attempt_resources row of the attempt', r.file, r.line_of(st))
                continue
            first = sel.frm.first
            ctx.need(first.kind == 'table', f'{r.name}: insert into {tbl} selects from a derived table')
            key_of: Dict[str, List[Ref]] = {}
            for a_, b_ in where_pairs:
                for x, y in ((a_, b_), (b_, a_)):
                    if x[0] == src_table and y[0] != src_table:
                        key_of.setdefault(x[1], []).append(y)
            ctx.need(not where_other, f'{r.name}: insert into {tbl}: WHERE conjunct `{text(where_other[0]) if where_other else ""}` is not an equality the analysis can read; whether it drops billed rows is not decided')
            non_left = [j for j in sel.frm.joins if j.jtype != 'LEFT']
            ctx.need(not non_left, f'{r.name}: insert into {tbl}: a {non_left[0].jtype if non_left else ""} JOIN may drop attempt_resources rows; not analysed')
            ok3 = first.name.lower() == src_table and all(key_of.get(c) == [('new', c)] for c in ('batch_id', 'job_id', 'attempt_id')) and \
                set(key_of) == {'batch_id', 'job_id', 'attempt_id'} and sum(len(v) for v in key_of.values()) == len(where_pairs)
            ctx.check(ok3, 'R3', cons + '::rows billed', f'the rows billed are not exactly the attempt_resources of (NEW.batch_id, NEW.job_id, NEW.attempt_id): FROM {text(sel.frm)} WHERE {text(sel.where) if sel.where is not None else None}',
                      r.file, r.line_of(st))
        else:
            ctx.check((sel is None or tbl == 'aggregated_job_group_resources_v3') and src_table not in alias.values(), 'R3', cons + '::single row',
                      'the insert trigger bills more than the inserted resource row' + (f': it selects FROM {text(sel.frm)}, i.e. every resource row the attempt has so far' if sel is not None else ''), r.file, r.line_of(st))
    # ---- R1: the billed duration, compared as a value ----------------------------------------------------------------------------
    check_duration(ctx, tr, cons0, durations)


def _fanout_verdict(tr: TriggerReader, st: N, ins: Dict[str, N], alias: Dict[str, str], where_pairs, env: Dict[str, N], same_as_attempt) -> Tuple:
    """job_group_id := ancestor_id of every row of job_group_self_and_ancestors with (batch_id, job_group_id) = the job's own."""
    prog, declared, kind = tr.prog, tr.declared, tr.kind
    CL = 'job_group_self_and_ancestors'
    sel = st.select
    e = ins.get('job_group_id')
    if e is None:
        return ('bad', 'no job_group_id column')
    ref = _resolve(sr.inline_expr(e, env), alias, declared, prog)
    if sel is None or CL not in alias.values():
        if ref is not None and (ref in (('jobs', 'job_group_id'), ('new', 'job_group_id')) or (ref[0] == 'var' and (tr.var_source(ref[1]) or ('', ''))[:2] == ('jobs', 'job_group_id'))):
            return ('bad', f'job_group_id receives `{text(e)}`: only the job\'s own group')
        return ('undecided', f'job_group_id receives `{text(e)}` and {CL} is not read by the statement')
    if [t for t in alias.values()].count(CL) != 1:
        return ('undecided', f'{CL} is joined more than once')
    if ref is None:
        return ('undecided', f'job_group_id receives `{text(e)}`, not resolved')
    if ref != (CL, 'ancestor_id'):
        return ('bad', f'job_group_id receives `{text(e)}`') if ref[0] in (CL, 'jobs', 'new') else ('undecided', f'job_group_id receives `{text(e)}`')
    # every condition on the closure table / on jobs: WHERE and all ON clauses
    conds = sf.conjuncts(sel.where) + [c for j in sel.frm.joins for c in sf.conjuncts(j.on)]
    pairs, other = _eq_pairs(conds, alias, declared, prog)
    for c in other:
        refs = [_resolve(n, alias, declared, prog) for n in c.walk() if n.kind == 'col']
        if any(x is None or x[0] in (CL, 'jobs') for x in refs):
            return ('undecided', f'condition `{text(c)}` on the closure / jobs rows is not an equality the analysis can read')

    def job_batch(x: Ref) -> Optional[bool]:
        if x == ('jobs', 'batch_id'):
            return jobs_ok
        return same_as_attempt(x, 'batch_id')

    def job_id_ok(x: Ref) -> Optional[bool]:
        return same_as_attempt(x, 'job_id')
    jobs_ok: Optional[bool] = None
    if 'jobs' in alias.values():
        jb = _partner(pairs, ('jobs', 'batch_id'))
        jj = _partner(pairs, ('jobs', 'job_id'))
        jb = [x for x in jb if x[0] != CL]
        if not jb or not jj:
            jobs_ok = False
        else:
            vals = [same_as_attempt(x, 'batch_id') for x in jb] + [job_id_ok(x) for x in jj]
            jobs_ok = None if any(v is None for v in vals) else all(vals)
        extra = [p for p in pairs if any(x[0] == 'jobs' and x[1] not in ('batch_id', 'job_id', 'job_group_id') for x in p)]
        if extra:
            return ('undecided', f'the jobs row is restricted by {extra[0]}')
    cb = _partner(pairs, (CL, 'batch_id'))
    cg = _partner(pairs, (CL, 'job_group_id'))
    extra = [p for p in pairs if any(x[0] == CL and x[1] not in ('batch_id', 'job_group_id') for x in p)]
    if extra:
        return ('bad', f'the closure rows are restricted by {extra[0][0][1]} = {extra[0][1][1]} / {extra[0]}: not every ancestor receives the usage')
    if not cb or not cg:
        return ('bad', 'the closure rows are not restricted to (batch_id, job_group_id) of the job\'s group' if not other else 'closure join not readable') if not other else ('undecided', 'closure join not readable')
    bvals = [job_batch(x) for x in cb]

    def group_ok(x: Ref) -> Optional[bool]:
        if x == ('jobs', 'job_group_id'):
            return jobs_ok
        if x[0] == 'var':
            vs = tr.var_source(x[1])
            if vs is None:
                return None
            tb, c, key, _sel = vs
            if (tb, c) != ('jobs', 'job_group_id'):
                return False
            if key is None:
                return None
            return set(key) == {'batch_id', 'job_id'} and key['batch_id'] == ('new', 'batch_id') and key['job_id'] == ('new', 'job_id')
        if x == ('new', 'job_group_id'):
            return None
        return False
    gvals = [group_ok(x) for x in cg]
    vals = bvals + gvals
    if any(v is False for v in vals):
        return ('bad', f'closure rows selected by batch_id = {cb}, job_group_id = {cg}')
    if any(v is None for v in vals):
        return ('undecided', f'closure rows selected by batch_id = {cb}, job_group_id = {cg}: origin not resolved')
    return ('ok',)


def collect_durations(tr: TriggerReader) -> List[Tuple[N, N, Dict[str, str]]]:
    """(duration factor, statement, alias map) of every aggregate insert of the trigger whose usage is readable as duration x quantity."""
    out: List[Tuple[N, N, Dict[str, str]]] = []
    for tbl in TABLES:
        for st, guard in tr.per_table.get(tbl, []):
            alias = (_alias_map(st.select.frm) or {}) if st.select is not None else {}
            uf = tr.usage_factors(st, guard, alias)
            if uf[0] == 'ok':
                out.append((uf[1], st, alias))
    return out


def duration_verdict(tr: TriggerReader, durations: List[Tuple[N, N, Dict[str, str]]]) -> Tuple:
    """Does the factor the usage is multiplied with denote f(NEW) - f(OLD) (update trigger) / f(current attempt row) (insert trigger),
    f = max(rollup - start, 0) and 0 when either is NULL?  Compared as a value over the order domain, not as text.
    ('ok', detail) | ('bad', message, statement) | ('undecided', message)."""
    r, kind = tr.r, tr.kind
    if not durations:
        return ('undecided', f'{r.name}: no aggregate insert whose usage could be read; the billed duration is not found')
    distinct: Dict[str, Tuple[N, N]] = {}
    for e, st, _alias in durations:
        distinct.setdefault(text(e), (e, st))
    verdicts = []
    expected = 'f(NEW) - f(OLD)' if kind == 'update' else 'f(current attempt row)'
    for t, (e, st) in distinct.items():
        if kind == 'update':
            def sym_of(n: N) -> Optional[str]:
                if n.kind == 'col' and len(n.parts) == 2 and n.parts[0].upper() in ('OLD', 'NEW') and n.parts[1].lower() in af.TIME_COLS:
                    return f'{n.parts[0].lower()}.{n.parts[1].lower()}'
                return None
            syms = ['new.start_time', 'new.rollup_time', 'old.start_time', 'old.rollup_time']

            def want(row: Dict[str, Optional[int]]) -> af.Lin:
                return af._lin_add(af.billed_lin(row['new.start_time'], row['new.rollup_time']), af.billed_lin(row['old.start_time'], row['old.rollup_time']), -1)
        else:
            sources: Dict[str, str] = {}
            for n in e.walk():
                if sr.is_var(n) and n.parts[0].lower() in tr.declared:
                    v = n.parts[0].lower()
                    vs = tr.var_source(v)
                    if vs is None:
                        return ('undecided', f'{r.name}: the billed duration reads `{v}`, which is not read from a table by a single SELECT .. INTO')
                    tb, c, k, sel0 = vs
                    if tb != 'attempts' or c not in af.TIME_COLS:
                        return ('bad', f'the trigger bills `{t}`, which reads {tb}.{c}; expected f(start, rollup) of the attempts row (NEW.batch_id, NEW.job_id, NEW.attempt_id)', st)
                    if k is None:
                        return ('undecided', f'{r.name}: the attempts row is read with a WHERE clause that is not a conjunction of equalities')
                    if not (set(k) == {'batch_id', 'job_id', 'attempt_id'} and all(k[c2] == ('new', c2) for c2 in k)):
                        return ('bad', f'the trigger bills `{t}` with `{v}` read from the attempts row selected by {k}; expected the row (NEW.batch_id, NEW.job_id, NEW.attempt_id): '
                                'the duration of another attempt of the job is billed', sel0)
                    sources[v] = c

            def sym_of(n: N) -> Optional[str]:       # noqa: F811
                return sources.get(n.parts[0].lower()) if sr.is_var(n) else None
            syms = ['start_time', 'rollup_time']

            def want(row: Dict[str, Optional[int]]) -> af.Lin:       # noqa: F811
                return af.billed_lin(row['start_time'], row['rollup_time'])
        extra = sorted({sym_of(n) for n in e.walk() if n.kind == 'col' and sym_of(n) is not None} - set(syms))
        verdicts.append((t, st, af.compare_value_expr(e, sym_of, syms + extra, want)))
    for t, st, v in verdicts:
        if v[0] == 'bad':
            _, row, got, need = v
            return ('bad', f'the trigger bills `{t}`; expected {expected} with f = GREATEST(COALESCE(rollup - start, 0), 0). E.g. for times {af.realise(row)} it yields {got} instead of {need}', st,
                    {'class': af.realise(row), 'got': got, 'want': need})
    for t, st, v in verdicts:
        if v[0] == 'undecided':
            return ('undecided', f'{r.name}: billed duration `{t}`: {v[1]}')
    return ('ok', {'expression': list(distinct), 'ordering_classes': sum(v[1] for _, _, v in verdicts)})


def check_duration(ctx: Ctx, tr: TriggerReader, cons0: str, durations: List[Tuple[N, N, Dict[str, str]]]) -> None:
    """R1 (see duration_verdict)."""
    r = tr.r
    key = cons0 + ('::duration difference' if tr.kind == 'update' else '::duration of current attempt')
    v = duration_verdict(tr, durations)
    if v[0] == 'undecided':
        raise AnalysisError(v[1])
    if v[0] == 'bad':
        ctx.bad('R1', key, v[1], r.file, r.line_of(v[2]), extra=v[3] if len(v) > 3 else None)
    else:
        ctx.ok('R1', key, v[1])


def r4(ctx: Ctx) -> None:
    m = pf.load('batch/batch/driver/job.py')
    KEY = ('batch_id', 'job_id', 'attempt_id')
    found: List[Tuple[sf.Embedded, N]] = []
    for e in sf.embedded_in(m):
        if not e.qual.startswith('add_attempt_resources'):
            continue
        if e.sql_text is not None and 'attempt_resources' not in e.sql_text:
            continue
        for st in _emb_stmts(m, e):
            if st.kind in ('insert', 'update', 'delete') and any(t.lower() == 'attempt_resources' for t, _ in sf.written_tables(st)):
                found.append((e, st))
    ctx.need(len(found) == 1 and found[0][1].kind == 'insert', 'add_attempt_resources: the single insert into attempt_resources is not found')
    e, st = found[0]
    cons = f'{m.rel}::add_attempt_resources'
    # idempotence of a re-sent report: every ON DUPLICATE KEY assignment leaves the stored row as it is
    ctx.need(not st.ignore, 'add_attempt_resources: INSERT IGNORE (duplicates are dropped together with every other error); not analysed')
    changed = []
    for c, v in st.on_dup:
        ctx.need(c.kind == 'col', 'add_attempt_resources: ON DUPLICATE KEY UPDATE target is not a column')
        if _is_self_assign(c.parts[-1].lower(), v):
            continue
        leafy = v.kind in ('col', 'lit', 'param', 'values_fn') or \
            (v.kind == 'bin' and v.op in ('+', '-', '*') and all(x.kind in ('col', 'lit', 'param', 'values_fn') for x in (v.left, v.right)))
        ctx.need(leafy, f'add_attempt_resources: ON DUPLICATE KEY UPDATE {text(c)} = `{text(v)}` is not analysed')
        changed.append(f'{text(c)} = {text(v)}')
    ok = bool(st.on_dup) and not changed and not getattr(st, 'replace', False)
    ctx.check(ok, 'R4', cons + '::on duplicate', f'a re-sent resource report executes `{text(st)[-80:]}`' + (f' (changes {changed})' if changed else '') + '; it must leave an existing (attempt, resource) row unchanged '
              '(ON DUPLICATE KEY UPDATE quantity = quantity), otherwise usage already billed with the old quantity no longer matches', m.path, e.lineno)
    cols = [c.lower() for c in st.cols or []]
    needed = ['batch_id', 'job_id', 'attempt_id', 'resource_id', 'deduped_resource_id', 'quantity']
    ctx.need(sorted(cols) == sorted(needed), f'add_attempt_resources: the insert names the columns {cols}; expected {needed} in some order')
    ctx.ok('R4', cons + '::columns', {'columns': cols})
    # the values bound to those columns: the attempt's own key, and both ids of ONE resource record (the triggers key every aggregate on deduped_resource_id)
    arg = _call_args_node(e)
    elts = sr.args_tuple(e.fn, arg) or _py_args(e.fn, arg)
    ctx.need(elts is not None and len(elts) == len(cols) and len(st.rows) == 1 and all(x.kind == 'param' for x in st.rows[0]), 'add_attempt_resources: the values of the insert are not a tuple per row that can be bound to the columns')
    params = sr.params_in_order(st)
    row = st.rows[0]
    vals = {c: elts[[id(p) for p in params].index(id(v))] for c, v in zip(cols, row)}      # type: ignore[index]
    fn = e.fn
    ctx.need(fn is not None, 'add_attempt_resources: insert outside a function')
    pnames = _param_names_of(fn)
    keys: Dict[str, str] = {}
    for c in KEY:
        x = pf.resolve_expr(fn, vals[c])
        ctx.need(isinstance(x, ast.Name) and x.id in pnames and len(pf.assignments(fn).get(x.id, [])) == 1, f'add_attempt_resources: {c} receives `{pf.nsrc(vals[c])}`, which is not a parameter of the function; not resolved')
        keys[c] = x.id      # type: ignore[union-attr]
    crossed = {c: k for c, k in keys.items() if k != c and k in KEY}
    ctx.need(crossed or all(keys[c] == c for c in KEY), f'add_attempt_resources: the attempt key columns receive the parameters {keys}; which of them is which is not decided')
    ctx.check(not crossed, 'R4', cons + '::attempt key', f'the attempt key columns receive {keys}; expected the (batch_id, job_id, attempt_id) the resources were reported for', m.path, e.lineno)
    rid, did = vals['resource_id'], vals['deduped_resource_id']
    ctx.need(isinstance(rid, ast.Attribute) and isinstance(did, ast.Attribute), f'add_attempt_resources: resource ids are `{pf.nsrc(rid)}` / `{pf.nsrc(did)}`, not attributes of a resource record')
    attrs_ok = rid.attr == 'resource_id' and did.attr == 'deduped_resource_id'
    same_rec = pf.nsrc(pf.expand_locals(fn, rid.value)) == pf.nsrc(pf.expand_locals(fn, did.value))
    ctx.need(not attrs_ok or same_rec, f'add_attempt_resources: `{pf.nsrc(rid)}` and `{pf.nsrc(did)}` are read from records the analysis cannot show to be the same')
    ctx.check(attrs_ok, 'R4', cons + '::resource ids',
              f'resource_id / deduped_resource_id receive `{pf.nsrc(rid)}` / `{pf.nsrc(did)}`; expected .resource_id and .deduped_resource_id of the same resource record: the triggers add the usage under '
              'deduped_resource_id, a recomputation joins resources on resource_id', m.path, e.lineno)


# ----------------------------------------------------------------------------------------------------
# Python side: what is bound to the %s of an embedded statement, resolved through locals (names are not semantics)
# ----------------------------------------------------------------------------------------------------
def _emb_stmts(m: pf.Module, e: sf.Embedded) -> List[N]:
    """Parsed statements of an execute-style call; SQL kept in a module-level constant is followed.  Declines on opaque / unparsable SQL."""
    if e.sql_text is not None:
        sts = e.stmts()
        if e.parse_error:
            raise AnalysisError(f'{m.rel}:{e.lineno}: embedded SQL does not parse ({e.parse_error})')
        return sts
    a0 = e.call.args[0]
    g = None
    if isinstance(a0, ast.Name):
        try:
            g = pf.const_str(m.global_assign(a0.id))
        except Exception:
            g = None
    if g is None:
        raise AnalysisError(f'{m.rel}:{e.lineno}: the SQL text of `{pf.nsrc(e.call)[:60]}` is not a literal the analysis can resolve')
    from engines.sqlast import SqlParseError, parse_statements as _ps
    try:
        return _ps(g)
    except SqlParseError as ex:
        raise AnalysisError(f'{m.rel}:{e.lineno}: embedded SQL does not parse ({ex})')


def _py_args(fn: Optional[pf.FuncDef], e: Optional[ast.AST], depth: int = 4) -> Optional[List[ast.expr]]:
    """The Python expressions bound to the %s positions, in order: tuple / list literals, `*name` of a local tuple, `a + b`, locals followed."""
    if e is None or depth <= 0:
        return None
    if isinstance(e, ast.Name) and fn is not None:
        d = pf.single_def(fn, e.id)
        return _py_args(fn, d, depth - 1) if isinstance(d, ast.expr) else None
    if isinstance(e, (ast.Tuple, ast.List)):
        out: List[ast.expr] = []
        for x in e.elts:
            if isinstance(x, ast.Starred):
                sub = _py_args(fn, x.value, depth - 1)
                if sub is None:
                    return None
                out += sub
            else:
                out.append(x)
        return out
    if isinstance(e, ast.BinOp) and isinstance(e.op, ast.Add):
        l, r_ = _py_args(fn, e.left, depth - 1), _py_args(fn, e.right, depth - 1)
        return None if l is None or r_ is None else l + r_
    if isinstance(e, ast.Call) and isinstance(e.func, ast.Name) and e.func.id in ('tuple', 'list') and len(e.args) == 1 and not e.keywords:
        return _py_args(fn, e.args[0], depth - 1)
    return None


def _call_args_node(e: sf.Embedded) -> Optional[ast.AST]:
    if len(e.call.args) > 1:
        return e.call.args[1]
    for k in e.call.keywords:
        if k.arg in ('args', 'params', 'parameters'):
            return k.value
    return None


def _param_names_of(fn: pf.FuncDef) -> List[str]:
    return [a.arg for a in fn.args.posonlyargs + fn.args.args + fn.args.kwonlyargs]


def _record_field(fn: pf.FuncDef, x: ast.AST) -> Optional[Tuple[str, str]]:
    """(parameter, key) when x is `<parameter>['key']` (through single-definition locals) and the parameter is never re-bound."""
    x = pf.expand_locals(fn, x)
    if isinstance(x, ast.Subscript) and isinstance(x.value, ast.Name) and pf.const_str(x.slice) is not None and x.value.id in _param_names_of(fn):
        if len(pf.assignments(fn).get(x.value.id, [])) == 1:
            return (x.value.id, pf.const_str(x.slice))       # type: ignore[return-value]
    return None


def _sql_keymap(fn: pf.FuncDef, e: sf.Embedded, st: N) -> Tuple[Optional[Dict[str, Any]], str]:
    """column -> Python expression bound to the %s it is compared with, for a WHERE that is a conjunction of `column = %s` (either order).
    (None, why) when the WHERE clause or the argument tuple has another shape."""
    params = sr.params_in_order(st)
    elts = _py_args(fn, _call_args_node(e))
    if elts is None or len(elts) != len(params):
        return None, f'the arguments of the statement at line {e.lineno} cannot be bound to its {len(params)} parameters'
    bind = {id(p): x for p, x in zip(params, elts)}
    out: Dict[str, Any] = {}
    for c in sf.conjuncts(st.where):
        if c.kind == 'bin' and c.op == '=':
            for a_, b_ in ((c.left, c.right), (c.right, c.left)):
                if a_.kind == 'col' and b_.kind == 'param':
                    col = a_.parts[-1].lower()
                    if col in out:
                        return None, f'column {col} is constrained twice'
                    out[col] = bind[id(b_)]
                    break
            else:
                return None, f'WHERE conjunct `{text(c)}` is not `column = %s`'
        else:
            return None, f'WHERE conjunct `{text(c)}` is not `column = %s`'
    return out, ''


def _find_compactor(m: pf.Module, outer_name: str, tbl: str) -> Tuple[pf.FuncDef, List[sf.Embedded]]:
    """The function inside `outer_name` that rewrites `tbl` (whatever it is called), with its embedded statements in source order."""
    outer = m.func(outer_name)
    embs = sf.embedded_in(m)
    cands: Dict[int, Tuple[pf.FuncDef, List[sf.Embedded]]] = {}
    for e in embs:
        if e.fn is None or not (e.fn is outer or _inside_fn(m, e.fn, outer)):
            continue
        cands.setdefault(id(e.fn), (e.fn, []))[1].append(e)
    writers = []
    for fn, es in cands.values():
        for e in es:
            try:
                sts = _emb_stmts(m, e)
            except AnalysisError:
                continue
            if any(t.lower() == tbl for st in sts for t, _ in sf.written_tables(st)):
                writers.append((fn, sorted(es, key=lambda x: (x.lineno, x.call.col_offset))))
                break
    if len(writers) != 1:
        raise AnalysisError(f'{m.rel}::{outer_name}: expected one function that rewrites {tbl}, found {len(writers)}')
    return writers[0]


def _inside_fn(m: pf.Module, node: ast.AST, outer: ast.AST) -> bool:
    par = m.parents()
    cur: Optional[ast.AST] = node
    while cur is not None:
        if cur is outer:
            return True
        cur = par.get(cur)
    return False


def r5(ctx: Ctx, prog: sf.SqlProgram) -> None:
    m = pf.load('batch/batch/driver/main.py')
    compactors = {'compact_agg_billing_project_users_table.compact': 'aggregated_billing_project_user_resources_v3',
                  'compact_agg_billing_project_users_by_date_table.compact': 'aggregated_billing_project_user_resources_by_date_v3'}
    deferred: List[AnalysisError] = []
    for qual, tbl in compactors.items():
        try:
            _r5_compactor(ctx, m, qual, tbl)
        except AnchorRemoved:
            raise
        except AnalysisError as e:
            deferred.append(e)
    # closed world: the two triggers write all four tables, each compactor (named by its outermost function: the nested transaction body is
    # private) only its own
    trig = {'sql:attempts_after_update', 'sql:attempt_resources_after_insert'}
    tables = {t: set(trig) for t in TABLES}
    for q, t in compactors.items():
        tables[t].add(f'py:{m.rel}::{q.split(".")[0]}')
    dirs = ['batch/batch'] if ctx.tier == 'quick' else ['batch', 'gear', 'auth', 'ci', 'monitoring']
    aggregate_writers_scan(ctx, prog, dirs, tables, 'R5')
    if deferred:
        raise deferred[0]


_WRITE_VERB = re.compile(r'\b(INSERT|UPDATE|DELETE|REPLACE|TRUNCATE)\b', re.I)


def _outermost_fn(m: pf.Module, node: ast.AST) -> Optional[pf.FuncDef]:
    par = m.parents()
    cur = par.get(node)
    top = None
    while cur is not None:
        if isinstance(cur, (ast.FunctionDef, ast.AsyncFunctionDef)):
            top = cur
        cur = par.get(cur)
    return top


def _entry_functions(m: pf.Module, fn: pf.FuncDef, allowed_names: set, depth: int = 0, seen: Optional[set] = None) -> List[str]:
    """The functions through which the module-level function / method `fn` is entered: fn itself when it is one of the allowed writers, when
    nothing in the module calls it, or when it is referenced other than by a call; otherwise the entry functions of its callers (a statement
    extracted into a helper does not make the helper a new writer; a new caller of the helper is one)."""
    q = m.qualname(fn)
    seen = seen if seen is not None else set()
    if q in allowed_names or id(fn) in seen or depth > 4:
        return [q]
    seen.add(id(fn))
    par = m.parents()
    callers: List[pf.FuncDef] = []
    for n in ast.walk(m.tree):
        name = n.id if isinstance(n, ast.Name) else (n.attr if isinstance(n, ast.Attribute) else None)
        if name != fn.name or not isinstance(getattr(n, 'ctx', None), ast.Load):
            continue
        p_ = par.get(n)
        if not (isinstance(p_, ast.Call) and p_.func is n):
            return [q]          # passed around as a value: anybody may call it
        top = _outermost_fn(m, n)
        if top is None:
            return [q]
        if top is not fn and top not in callers:
            callers.append(top)
    if not callers:
        return [q]
    out: List[str] = []
    for g in callers:
        for x in _entry_functions(m, g, allowed_names, depth + 1, seen):
            if x not in out:
                out.append(x)
    return out


def aggregate_writers_scan(ctx: Ctx, prog: sf.SqlProgram, dirs: List[str], tables: Dict[str, set], rule: str) -> None:
    """Closed-world scan: every statement (stored routines; embedded SQL of the given packages, also when the text sits in a module-level
    constant) that writes one of `tables` belongs to one of the allowed writers of that table."""
    found: Dict[str, Dict[str, Tuple[str, int]]] = {t: {} for t in tables}
    for name, r in prog.routines.items():
        for st in sf.all_statements(r.ast.body):
            for t, _verb in sf.written_tables(st):
                if t.lower() in tables:
                    found[t.lower()].setdefault('sql:' + name, (r.file, r.line_of(st)))
    n_mod = 0
    for rel in pf.walk_py(dirs):
        m = pf.load(rel)
        n_mod += 1
        if not any(t in m.src for t in tables):
            continue
        allowed_names = {w.split('::', 1)[1] for ws in tables.values() for w in ws if w.startswith(f'py:{rel}::')}
        covered: set = set()
        for e in sf.embedded_in(m):
            a0 = e.call.args[0]
            for n in ast.walk(a0):
                covered.add(id(n))
            raw = e.sql_text
            if isinstance(a0, ast.Name):
                d = pf.single_def(e.fn, a0.id) if e.fn is not None else None
                if d is None:
                    try:
                        d = m.global_assign(a0.id)
                    except Exception:
                        d = None
                if d is not None:
                    for n in ast.walk(d):
                        covered.add(id(n))
                    if raw is None:
                        raw = pf.const_str(d) if isinstance(d, ast.expr) else None
            if raw is None or not any(t in raw for t in tables):
                continue
            sts = _emb_stmts(m, e)
            for st in sts:
                for t, _verb in sf.written_tables(st):
                    if t.lower() in tables:
                        top = _outermost_fn(m, e.call)
                        for q in (_entry_functions(m, top, allowed_names) if top is not None else ['<module>']):
                            found[t.lower()].setdefault(f'py:{rel}::{q}', (m.path, e.lineno))
        for n in ast.walk(m.tree):
            if isinstance(n, ast.Constant) and isinstance(n.value, str) and id(n) not in covered and _WRITE_VERB.search(n.value) and any(t in n.value for t in tables):
                raise AnalysisError(f'{rel}:{n.lineno}: a string naming an aggregate table together with a write verb is not an analysed execute() argument (opaque SQL)')
    ctx.unit('python_modules_scanned', n_mod)
    for t, allowed in tables.items():
        for w in sorted(found[t]):
            file, line = found[t][w]
            ctx.check(w in allowed, rule, f'{t}::writer {w}', f'{w} writes {t} but is not in the closed set of aggregate maintainers {sorted(allowed)}: usage enters or leaves the table '
                      'outside the two billing triggers and the sum-preserving compaction', file, line)
        missing = allowed - set(found[t])
        if missing:
            raise AnalysisError(f'expected writer {sorted(missing)[0]} of {t} not found (anchor vanished)')


def _r5_compactor(ctx: Ctx, m: pf.Module, qual: str, tbl: str) -> None:
    outer_name = qual.split('.')[0]
    fn, mine = _find_compactor(m, outer_name, tbl)
    cons = f'{m.rel}::{qual}'
    # statements hidden behind helpers that receive the transaction are not seen here: decline rather than mis-read the order
    pnames = _param_names_of(fn)
    ctx.need(bool(pnames), f'{qual}: the compacting function has no parameters')
    tx = pnames[0]
    exec_calls = {id(e.call) for e in mine}
    for n in pf.walk_shallow(fn):
        if isinstance(n, ast.Call) and id(n) not in exec_calls and any(isinstance(x, ast.Name) and x.id == tx for a_ in list(n.args) + [k.value for k in n.keywords] for x in ast.walk(a_)):
            raise AnalysisError(f'{qual}: the transaction `{tx}` is handed to `{pf.nsrc(n.func)}`; statements issued there are not followed')
    decorated = any(pf.dotted(d.func) == 'transaction' for d in fn.decorator_list if isinstance(d, ast.Call))
    if not decorated:
        ctx.need(not fn.decorator_list and not any(isinstance(n, (ast.With, ast.AsyncWith)) for n in pf.walk_shallow(fn)) and fn is not m.func(outer_name),
                 f'{qual}: the compaction steps are not in a function decorated with @transaction(..); how they are made atomic is not analysed')
    ctx.check(decorated, 'R5', cons + '::atomic', 'compaction steps are not inside one @transaction', m.path, fn.lineno)
    sts = [(e, _emb_stmts(m, e)) for e in mine]
    ctx.need(all(len(x) == 1 for _, x in sts), f'{qual}: an execute call carries more than one statement')
    sts1 = [(e, x[0]) for e, x in sts]
    kinds = [s_.kind for _, s_ in sts1]
    recvs = [e.receiver for e in mine]
    ctx.check(kinds[:3] == ['select', 'delete', 'insert'] and all(k == 'select' for k in kinds[3:]) and all(rv == tx for rv in recvs), 'R5', cons + '::order',
              f'statements run as {kinds} on {recvs}; expected SELECT SUM .. FOR UPDATE, DELETE, INSERT on the transaction `{tx}`, then read-only checks', m.path, fn.lineno)
    if kinds[:3] != ['select', 'delete', 'insert']:
        return
    (e1, s1), (e2, s2), (e3, s3) = sts1[:3]
    keyc = TABLES[tbl][:]

    def describe(km: Dict[str, Any]) -> Dict[str, str]:
        return {c: pf.nsrc(pf.expand_locals(fn, x)) for c, x in km.items()}

    def key_verdict(km: Dict[str, Any]) -> Optional[bool]:
        """True: column c is bound to <record>['c'] for every key column, one record; False: a resolved binding differs; None: not resolved."""
        fields = {c: _record_field(fn, x) for c, x in km.items()}
        if any(v is None for v in fields.values()):
            return None
        recs = {v[0] for v in fields.values()}      # type: ignore[index]
        return set(km) == set(keyc) and len(recs) == 1 and all(fields[c][1] == c for c in km)        # type: ignore[index]
    k1, why1 = _sql_keymap(fn, e1, s1)
    k2, why2 = _sql_keymap(fn, e2, s2)
    ctx.need(k1 is not None, f'{qual}: SUM query: {why1}')
    ctx.need(k2 is not None, f'{qual}: DELETE: {why2}')
    v1, v2 = key_verdict(k1), key_verdict(k2)
    ctx.need(v1 is not None and v2 is not None, f'{qual}: the key values {describe(k1)} / {describe(k2)} are not fields of the record handed to the function')
    inner = sr.unwrap_sum(s1.cols[0][0]) if len(s1.cols) == 1 else None
    ctx.need(not s1.group and s1.having is None, f'{qual}: the SUM query has GROUP BY / HAVING; an empty group yields no row - not analysed')
    ctx.check(bool(v1) and s1.lock == 'FOR UPDATE' and inner is not None and inner.kind == 'col' and inner.parts[-1].lower() == 'usage' and [t.lower() for t in sf.table_names(s1.frm)] == [tbl], 'R5', cons + '::sum',
              f'the total is not SUM(usage) of exactly the target key read FOR UPDATE (key {describe(k1)}, lock `{s1.lock}`)', m.path, e1.lineno)
    ctx.check(bool(v2) and [t.lower() for t in sf.table_names(s2.frm)] == [tbl], 'R5', cons + '::delete', f'rows deleted are not exactly those summed (key {describe(k2)})', m.path, e2.lineno)
    rec1 = {(_record_field(fn, x) or ('?',))[0] for x in k1.values()} | {(_record_field(fn, x) or ('?',))[0] for x in k2.values()}
    ins, dup, _ = sr.insert_colmap(s3)
    params = sr.params_in_order(s3)
    elts = _py_args(fn, _call_args_node(e3))
    ctx.need(elts is not None and len(elts) == len(params), f'{qual}: the arguments of the INSERT cannot be bound to its {len(params)} parameters')
    bind = {id(p): x for p, x in zip(params, elts)}         # type: ignore[arg-type]
    # what each inserted column receives: a Python expression (through %s) or an SQL literal
    got: Dict[str, Any] = {c: (bind[id(v)] if v.kind == 'param' else v) for c, v in ins.items()}
    sum_call = e1.call
    alias = (s1.cols[0][1] or 'usage').lower()

    def is_sum_field(x: Any) -> Optional[bool]:
        if isinstance(x, N):
            return False if x.kind == 'lit' else None
        y = pf.expand_locals(fn, x)
        if isinstance(y, ast.Subscript) and pf.const_str(y.slice) is not None:
            base = y.value
            if isinstance(base, ast.Name):
                d = pf.single_def(fn, base.id)
                if isinstance(d, ast.Await):
                    d = d.value
                if d is sum_call:
                    return pf.const_str(y.slice).lower() == alias       # type: ignore[union-attr]
                if base.id in _param_names_of(fn):
                    return False            # a field of the target record, not the sum just read
                if isinstance(d, ast.Call):
                    return False            # the result of another query
        if isinstance(y, ast.Constant):
            return False
        return None

    def is_zero(x: Any) -> Optional[bool]:
        if isinstance(x, N):
            return x.kind == 'lit' and x.value == 0 if x.kind == 'lit' else None
        y = pf.expand_locals(fn, x)
        if isinstance(y, ast.Constant):
            return y.value == 0 and not isinstance(y.value, bool)
        if _record_field(fn, x) is not None:
            return False
        return None
    keyv: Dict[str, Optional[bool]] = {}
    for c in keyc:
        x = got.get(c)
        if x is None:
            keyv[c] = False
        elif isinstance(x, N):
            keyv[c] = False if x.kind == 'lit' else None
        else:
            f = _record_field(fn, x)
            keyv[c] = None if f is None else (f[1] == c and f[0] in rec1)
    zv = is_zero(got['token']) if 'token' in got else False
    uv = is_sum_field(got['usage']) if 'usage' in got else False
    shown = {c: (text(x) if isinstance(x, N) else pf.nsrc(pf.expand_locals(fn, x))) for c, x in got.items()}
    allv = list(keyv.values()) + [zv, uv]
    ctx.need(any(v is False for v in allv) or all(v is True for v in allv), f'{qual}: the values of the re-inserted row {shown} are not resolved')
    ctx.check(all(v is True for v in allv) and not dup and not s3.ignore and s3.table.lower() == tbl and set(got) == set(keyc) | {'token', 'usage'}, 'R5', cons + '::reinsert',
              f'the compacted row is inserted as {shown}; expected the target key, token 0 and the sum just read ({alias})', m.path, e3.lineno)


def _time_exprs(e: Any, is_time: Any) -> Iterator[N]:
    """Maximal value expressions over the attempt's timestamps inside a statement: products and comparisons are entered, everything else
    that reads a timestamp (GREATEST / COALESCE / IF / CASE / + / -) is one duration expression."""
    if isinstance(e, (list, tuple)):
        for x in e:
            yield from _time_exprs(x, is_time)
        return
    if not isinstance(e, N):
        return
    valueish = e.kind in ('func', 'case', 'cast') and getattr(e, 'name', '') not in ('SUM', 'JSON_OBJECTAGG', 'JSON_OBJECT', 'COUNT', 'MAX', 'MIN', 'CAST') or (e.kind == 'bin' and e.op in ('+', '-'))
    if valueish and any(n.kind == 'col' and is_time(n) for n in e.walk()) and not any(n.kind in ('select', 'subq') or (n.kind == 'func' and n.name in ('SUM', 'JSON_OBJECTAGG')) for n in e.walk()):
        yield e
        return
    for v in e.fields().values():
        yield from _time_exprs(v, is_time)


def r1_audit(ctx: Ctx) -> None:
    m = pf.load('batch/batch/driver/main.py')
    embs = [e for e in sf.embedded_in(m) if e.qual.startswith('check_resource_aggregation') and e.sql_text and 'rollup_time' in e.sql_text]
    ctx.need(len(embs) >= 2, 'check_resource_aggregation: recomputation queries not found')
    n = 0
    undecided: List[str] = []
    for e in sorted(embs, key=lambda x: x.lineno):
        for st in _emb_stmts(m, e):
            attempts_aliases = {'attempts'}
            for node in st.walk():
                if node.kind == 'select' and getattr(node, 'frm', None) is not None:
                    for t in sf.from_tables(node.frm):
                        if t.kind == 'table' and t.name.lower() == 'attempts':
                            attempts_aliases.add((t.alias or t.name).lower())

            def sym_of(c: N) -> Optional[str]:
                if c.kind == 'col' and c.parts[-1].lower() in af.TIME_COLS and (len(c.parts) == 1 or c.parts[-2].lower() in attempts_aliases):
                    return c.parts[-1].lower()
                return None
            for node in _time_exprs(st, lambda c: sym_of(c) is not None):
                n += 1
                cons = f'{m.rel}::check_resource_aggregation::duration #{n}'
                syms = ['start_time', 'rollup_time']
                extra = sorted({sym_of(c) for c in node.walk() if c.kind == 'col' and sym_of(c) is not None} - set(syms))
                v = af.compare_value_expr(node, sym_of, syms + extra, lambda row: af.billed_lin(row['start_time'], row['rollup_time']))
                if v[0] == 'bad':
                    ctx.bad('R1', cons, f'the audit recomputes the duration as `{text(node)}`, the triggers use GREATEST(COALESCE(rollup_time - start_time, 0), 0): for times {af.realise(v[1])} it yields {v[2]} instead of {v[3]}',
                            m.path, e.lineno)
                elif v[0] == 'undecided':
                    undecided.append(f'check_resource_aggregation: duration expression `{text(node)}`: {v[1]}')
                else:
                    ctx.ok('R1', cons, {'expression': text(node), 'ordering_classes': v[1]})
    if undecided:
        raise AnalysisError(undecided[0])
    ctx.need(n >= 3, f'only {n} duration expressions in the audit')


# ----------------------------------------------------------------------------------------------------
# R8: the rows and columns the aggregates were computed from are never removed or rewritten behind the triggers' back
# ----------------------------------------------------------------------------------------------------
BILLED_ROWS = ('attempts', 'attempt_resources')
# columns the two triggers multiply by or key on (besides the billed times of `attempts`, which the update trigger itself follows)
TRIGGER_INPUTS = {
    'attempt_resources': ('batch_id', 'job_id', 'attempt_id', 'resource_id', 'deduped_resource_id', 'quantity'),
    'attempts': ('batch_id', 'job_id', 'attempt_id'),
    'batches': ('billing_project', 'user'),
    'jobs': ('job_group_id',),
    'job_group_self_and_ancestors': ('batch_id', 'job_group_id', 'ancestor_id'),
}
_REMOVE_WORD = re.compile(r'\b(DELETE|TRUNCATE|REPLACE)\b', re.I)


def _removal_verdict(schema: cs.Schema, prog: sf.SqlProgram, table: str) -> Optional[Tuple[str, str, List[cs.FK]]]:
    """('bad' | 'undecided', why, cascade path) when deleting a row of `table` removes billed rows without any trigger subtracting their
    usage; None when the table is not connected to the billed rows."""
    t = table.lower()
    if t in BILLED_ROWS:
        path: Optional[List[cs.FK]] = []
    else:
        path = schema.cascade_path(t, BILLED_ROWS)
    if path is None:
        return None
    unc = [fk.uncertain for fk in path if fk.uncertain]
    if unc:
        return ('undecided', unc[0], path)
    if not path:
        comp = [r.name for tb in (t,) for r in prog.triggers_on(tb, 'DELETE')]
        if comp:
            return ('undecided', f'{t} has DELETE trigger(s) {comp}: whether they take the usage of the removed row out of every aggregate is not analysed', path)
    return ('bad', '', path)


def _chain_text(table: str, path: List[cs.FK]) -> str:
    if not path:
        return f'{table} rows are the billed rows themselves'
    return ' ; '.join(f'{fk.child}({", ".join(fk.cols)}) REFERENCES {fk.parent}({", ".join(fk.pcols)}) ON DELETE CASCADE [{fk.file}]' for fk in path)


def _removal_message(table: str, path: List[cs.FK], st_text: str) -> str:
    gone = 'attempt_resources' if (path and path[-1].child.lower() == 'attempt_resources') or table.lower() == 'attempt_resources' else 'attempts (and, through its own cascade, attempt_resources)'
    return (f'`{st_text}` removes rows of {table}; every such row takes {gone} rows with it ({_chain_text(table, path)}). No trigger subtracts their usage (there is no DELETE '
            'trigger, and MySQL does not fire triggers for rows removed by a foreign-key cascade), so aggregated_job_resources_v3 / aggregated_job_group_resources_v3 / '
            'aggregated_billing_project_user_resources(_by_date)_v3 keep quantity x billed time of attempts that no longer exist: history = attempt billed and finished, '
            f'then this statement removes its {table} row -> recorded usage X > 0, sum over the remaining attempts 0')


def _assigned_columns(st: N) -> List[Tuple[str, str, N]]:
    """(table, column, value) for every column an UPDATE / ON DUPLICATE KEY UPDATE clause assigns."""
    out: List[Tuple[str, str, N]] = []
    if st.kind == 'update':
        tabs = [t for t in sf.from_tables(st.frm) if t.kind == 'table']
        alias = {(t.alias or t.name).lower(): t.name.lower() for t in tabs}
        for c, v in st.sets:
            if c.kind != 'col':
                continue
            if len(c.parts) > 1:
                tn = alias.get(c.parts[-2].lower(), c.parts[-2].lower())
                out.append((tn, c.parts[-1].lower(), v))
            elif len(tabs) == 1:
                out.append((tabs[0].name.lower(), c.parts[-1].lower(), v))
            else:
                for t in tabs:
                    out.append((t.name.lower(), c.parts[-1].lower(), v))        # unqualified column of a multi-table UPDATE: any of them
    elif st.kind == 'insert':
        for c, v in st.on_dup:
            if c.kind == 'col':
                out.append((st.table.lower(), c.parts[-1].lower(), v))
    return out


def _is_self_assign(col: str, v: N) -> bool:
    return v.kind == 'col' and v.parts[-1].lower() == col


def r8(ctx: Ctx, prog: sf.SqlProgram) -> None:
    schema = cs.load_schema()
    sources = schema.cascade_sources(BILLED_ROWS)
    protected = set(BILLED_ROWS) | set(sources)
    ctx.need({'instances', 'jobs', 'batches'} <= protected, f'schema replay: the foreign keys from attempts to instances / jobs / batches are not found (cascade sources {sorted(sources)})')
    ctx.unit('foreign_keys', len(schema.fks))
    ctx.extra_cov['cascade_sources_of_billed_rows'] = {t: _chain_text(t, p) for t, p in sources.items()}
    for tb in BILLED_ROWS:
        for tr in prog.triggers_on(tb, 'DELETE'):
            ctx.info(f'{tr.name}: DELETE trigger on {tb} (cascaded deletes do not fire it)')
    n_stmts = 0
    undecided: List[str] = []

    def judge(st: N, where_key: str, file: str, line: int) -> None:
        nonlocal n_stmts
        n_stmts += 1
        stext = common_short(text(st))
        if st.kind == 'delete' or (st.kind == 'insert' and getattr(st, 'replace', False)):
            targets = [t for t, _ in sf.written_tables(st)] if st.kind == 'delete' else [st.table]
            for t in targets:
                v = _removal_verdict(schema, prog, t)
                if v is None:
                    continue
                status, why, path = v
                cons = f'{where_key}::removes {t.lower()} rows'
                if status == 'undecided':
                    undecided.append(f'{cons}: {why}')
                    continue
                if st.kind == 'delete' and st.where is not None and any(n.kind in ('select', 'subq', 'exists', 'derived') for n in st.where.walk() if isinstance(n, N)):
                    undecided.append(f'{cons}: the DELETE is restricted by a sub-query; whether it spares every row that still has attempts is not analysed')
                    continue
                ctx.bad('R8', cons, _removal_message(t, path, stext), file, line, extra={'table': t, 'cascade': [repr(fk) for fk in path]})
        for tb, col, v in _assigned_columns(st):
            if tb in TRIGGER_INPUTS and col in TRIGGER_INPUTS[tb] and not _is_self_assign(col, v):
                ctx.bad('R8', f'{where_key}::rewrites {tb}.{col}',
                        f'`{stext}` assigns {tb}.{col}, which the billing triggers {"multiply the billed time by" if col == "quantity" else "key the aggregates on"}: usage already added for the row '
                        f'under the old value stays where it is while a recomputation over the attempts uses the new value (nothing re-posts the difference)', file, line)

    for name, r in sorted(prog.routines.items()):
        for st in sf.all_statements(r.ast.body):
            if st.kind in ('delete', 'update', 'insert'):
                judge(st, f'sql::{name}::{common_short(text(st), 70)}', r.file, r.line_of(st))
    # top-level statements of the migrations that run after the aggregates exist (the schema replay only records those)
    for file, line, body in schema.top_dml:
        if not _REMOVE_WORD.match(body):
            continue
        m = re.match(r'(?:DELETE\s+FROM|TRUNCATE(?:\s+TABLE)?|REPLACE(?:\s+INTO)?)\s+`?([A-Za-z_0-9]+)`?', body, re.I)
        ctx.need(m is not None, f'{file}:{line}: top-level `{common_short(body, 60)}` not recognised')
        v = _removal_verdict(schema, prog, m.group(1))
        if v is not None and v[0] == 'bad':
            ctx.bad('R8', f'{file}::migration removes {m.group(1).lower()} rows', _removal_message(m.group(1), v[2], common_short(body)), file, line)
        elif v is not None:
            undecided.append(f'{file}:{line}: {v[1]}')
    # only the batch service holds credentials for the batch database; auth / ci / monitoring have databases of their own (with tables of the same names)
    dirs = ['batch/batch'] if ctx.tier == 'quick' else ['batch']
    names_re = re.compile(r'\b(' + '|'.join(sorted(protected | set(TRIGGER_INPUTS))) + r')\b')
    n_mod = 0
    for rel in pf.walk_py(dirs):
        if rel.startswith('batch/sql/') or '/test/' in rel or rel.startswith('batch/test'):
            continue
        m = pf.load(rel)
        n_mod += 1
        if not _REMOVE_WORD.search(m.src) and 'UPDATE' not in m.src.upper():
            continue
        covered: set = set()
        for e in sf.embedded_in(m):
            a0 = e.call.args[0]
            for n in ast.walk(a0):
                covered.add(id(n))
            if isinstance(a0, ast.Name) and e.fn is not None:
                d = pf.single_def(e.fn, a0.id)
                if d is not None:
                    for n in ast.walk(d):
                        covered.add(id(n))
            sql_text = e.sql_text
            if sql_text is None:
                # SQL kept in a module-level constant
                g = None
                if isinstance(a0, ast.Name):
                    try:
                        g = pf.const_str(m.global_assign(a0.id))
                    except AnalysisError:
                        g = None
                if g is None:
                    continue
                for st0 in m.tree.body:
                    if isinstance(st0, (ast.Assign, ast.AnnAssign)):
                        for n in ast.walk(st0):
                            covered.add(id(n))
                sql_text = g
            up = sql_text.upper()
            removing = _REMOVE_WORD.search(up) is not None
            if not (removing or 'UPDATE' in up):
                continue
            if not names_re.search(sql_text) and '\u27e6' not in sql_text:
                continue            # names every table it touches, none of them protected
            if sql_text is e.sql_text:
                sts = e.stmts()
                perr = e.parse_error
            else:
                from engines.sqlast import SqlParseError, parse_statements as _ps
                try:
                    sts, perr = _ps(sql_text), None
                except SqlParseError as ex:
                    sts, perr = [], str(ex)
            if perr:
                # only a statement that can remove / rewrite the protected rows matters
                hole_target = re.search(r'\b(DELETE\s+FROM|DELETE|TRUNCATE(\s+TABLE)?|REPLACE(\s+INTO)?|UPDATE)\s+`?\u27e6', sql_text, re.I) is not None
                if hole_target or re.search(r'\b(DELETE|TRUNCATE|REPLACE)\b[^;]*\b(' + '|'.join(sorted(protected)) + r')\b', sql_text, re.I) or \
                        re.search(r'\bUPDATE\s+`?(' + '|'.join(sorted(TRIGGER_INPUTS)) + r')\b', sql_text, re.I):
                    raise AnalysisError(f'{rel}:{e.lineno}: SQL that may remove or rewrite billed rows does not parse ({perr})')
                continue
            for st in sts:
                if st.kind in ('delete', 'update', 'insert'):
                    judge(st, f'{rel}::{e.qual}::{common_short(text(st), 70)}', m.path, e.lineno)
        for n in ast.walk(m.tree):
            if isinstance(n, ast.Constant) and isinstance(n.value, str) and id(n) not in covered:
                if re.search(r'\b(DELETE\s+FROM|DELETE\s+\w+\s+FROM|TRUNCATE(\s+TABLE)?|REPLACE(\s+INTO)?)\s+`?(' + '|'.join(sorted(protected)) + r')`?\b', n.value, re.I):
                    raise AnalysisError(f'{rel}:{n.lineno}: a string that deletes from a table the billed rows hang off is not an analysed execute() argument (opaque SQL)')
    ctx.unit('statements_checked_for_row_removal', n_stmts)
    ctx.unit('python_modules_scanned_r8', n_mod)
    if undecided:
        raise AnalysisError('R8: ' + undecided[0])
    # one instance per protected table: nothing removes its rows
    for t in sorted(protected):
        ctx.ok('R8', f'schema::{t}::rows never removed', {'cascade': _chain_text(t, sources.get(t, []))})
    for tb, cols in sorted(TRIGGER_INPUTS.items()):
        ctx.ok('R8', f'schema::{tb}::trigger inputs write-once', {'columns': list(cols)})
    # positive control: the same machinery must see a synthetic purge of a cascade source
    from engines.sqlast import parse_statements
    st0 = parse_statements('DELETE FROM instances WHERE name = %s AND removed')[0]
    v0 = _removal_verdict(schema, prog, sf.written_tables(st0)[0][0])
    if v0 is None or v0[0] != 'bad' or not v0[2]:
        raise AnalysisError('positive control failed: a synthetic DELETE FROM instances is not connected to attempts by the replayed foreign keys')
    ctx.ok('R8', 'positive-control::synthetic DELETE FROM instances', nontrivial=False)


def r7(ctx: Ctx, prog: sf.SqlProgram) -> None:
    """Closure rows (engines/c02closure.py): the triggers fan a job's usage out over the rows of job_group_self_and_ancestors of the job's group, so
    `usage per job group counting all descendant jobs` / `per batch` (the row of the root group) holds only if every new group g with parent p gets
    exactly (g, g, 0) plus every row of p with level + 1 - also when p was created a moment earlier by the same request."""
    from engines import c02closure as cc
    try:
        results = cc.check_closure(prog, ctx.tier)
    except (RecursionError, KeyError, AttributeError, TypeError, ValueError, IndexError, AssertionError) as e:     # a shape the abstract executor was not written for
        raise AnalysisError(f'R7: abstract execution of the job-group creation code failed on an unexpected shape ({type(e).__name__}: {e})')
    for status, key, msg, file, line in results:
        if status == 'ok':
            ctx.ok('R7', key, msg)
        else:
            ctx.bad('R7', key, msg, file, line)


def run(ctx: Ctx) -> None:
    ctx.explanation ='Obligations of the billing-aggregate invariant decided on both billing triggers (effective SQL), the resource registration insert, the compactors and the audit.'
    ctx.rule('R1', 'same billed-duration function f in the update trigger (f(NEW)-f(OLD)), the insert trigger (f(current attempt)) and the audit queries', 6)
    ctx.rule('R2', 'each trigger inserts once into each of the four aggregates: amount = diff x quantity, on-duplicate adds the same, keys from the attempt\'s batch/job/owner, ancestors fan-out', 34)
    ctx.rule('R3', 'rows billed: update trigger = attempt_resources of the full attempt key; insert trigger = the inserted row only', 8)
    ctx.rule('R4', 'add_attempt_resources is idempotent on re-send and binds the attempt key and both ids of one resource record', 4)
    ctx.rule('R5', 'compaction preserves sums (SUM FOR UPDATE, DELETE, INSERT token 0 with one key in one transaction); closed world of aggregate writers', 20)
    ctx.rule('R6', 'the aggregate upserts run whenever the billed duration changes (either direction): enclosing conditions are TRUE on every reachable (OLD, stored) row pair with f(NEW) != f(OLD)', 8)
    ctx.assume('R6: the rows an UPDATE of attempts can store are those the writer statements and attempts_before_update produce from an OLD row with rollup <= end (order domain shared with C03)')
    ctx.assume('MySQL: AFTER INSERT trigger does not fire when INSERT .. ON DUPLICATE KEY UPDATE takes the update path; AFTER UPDATE fires once per changed row')
    ctx.rule('R7', 'closure rows behind the job-group fan-out: every creation of a job group (each call site of the function inserting the job_groups row, generic loop iteration, per-request '
             'caches included) writes exactly the self row and every row of the parent with level + 1 into job_group_self_and_ancestors', 2)
    ctx.assume('R7: a group named as parent exists (created before the request or by an earlier element of the same request); rows of an existing group never change (R8)')
    ctx.rule('R8', 'billed rows and trigger inputs outlive the aggregates: no statement removes attempts / attempt_resources rows, directly or through an ON DELETE CASCADE chain '
             '(instances, jobs, batches, ..), and none rewrites the quantity / key columns the triggers used', 13)
    ctx.assume('MySQL: rows removed by a foreign-key cascade fire no triggers; there is no statement that subtracts usage from an aggregate')
    prog = sf.load_program()
    # every group of rules runs even if an earlier one has to decline: a violation established by one group must not be hidden by an
    # unrecognised shape in another (the first decline is re-raised at the end; finish() reports violations first)
    deferred: List[AnalysisError] = []

    def group(fn, *a) -> None:
        try:
            fn(*a)
        except AnchorRemoved:
            raise
        except AnalysisError as e:
            deferred.append(e)
    group(check_trigger, ctx, prog, prog.routine('attempts_after_update'), 'update')
    group(check_trigger, ctx, prog, prog.routine('attempt_resources_after_insert'), 'insert')
    group(r1_audit, ctx)
    group(r4, ctx)
    group(r5, ctx, prog)
    group(r8, ctx, prog)
    group(r7, ctx, prog)
    ctx.unit('effective_routines', len(prog.routines))
    if deferred:
        raise deferred[0]
