"""C02 Billing aggregates equal the sum of attempt usage  (structural clauses).

  R1  one billed-duration function f(a) = GREATEST(COALESCE(a.rollup_time - a.start_time, 0), 0):  the attempts update trigger adds
      f(NEW) - f(OLD), the attempt_resources insert trigger adds f(current attempt row), the service's audit recomputes with the same f
  R2  both triggers write all four aggregate tables with `usage += diff x quantity` (insert value == on-duplicate increment), keyed by
      deduped_resource_id and by the attempt's own batch / job / billing project / user; the job-group table fans out over all ancestors
  R3  complementary coverage: the update trigger bills exactly the attempt_resources rows of the updated attempt (full key);
      the insert trigger reads the attempt row of the inserted resource (full key) - so every (attempt, resource) increment is billed once
  R4  add_attempt_resources re-sends are idempotent (ON DUPLICATE KEY UPDATE quantity = quantity)
  R5  compaction: SUM .. FOR UPDATE, DELETE, INSERT(token 0, that sum) with one key, in one @transaction, nothing else written;
      closed world of writers of the aggregate tables = the two triggers + the two compactors
  R6  the aggregate upserts run whenever the billed duration changes, in either direction: every condition enclosing an upsert (IF
      nesting, ELSE branches, code after `IF .. THEN LEAVE`) is TRUE for every (OLD row, stored row) pair that the writers of attempts
      and the BEFORE UPDATE trigger can produce (the order domain of C03: the before-trigger's outputs are the after-trigger's inputs)
      with f(NEW) != f(OLD); for the insert trigger: for every current attempt row with f > 0.  Decided symbolically per ordering class:
      D = f(NEW) - f(OLD) and every arithmetic comparison in a guard are linear forms over the gaps between consecutive timestamps of
      the class (each gap an integer >= 1), whose possible signs follow from the coefficient signs; where the ordering does not fix the
      sign of D the class is split by it.  No concrete values are evaluated (numbers only appear in the printed witness).  A guard that
      depends on data outside the attempt row, or whose truth is correlated with D in a way the split does not capture, is declined.
  R7  the closure table behind the job-group fan-out (engines/c02closure.py): abstract execution of every creation of a job group (each call site of
      the function that inserts the job_groups row; generic iteration of the loop over the request's specs; per-request ancestor caches as heap
      objects keyed by linear forms of ids): the rows reaching job_group_self_and_ancestors are exactly (g, g, 0) + every row of the parent with
      level + 1 - also when the parent was created by an earlier element of the same request.  Inductive step when every cache store is canonical
      (key = a group id, value = that group's chain), otherwise the two-step history (g1, then a child of g1) with exact stores.
  R8  lifetime of what the aggregates were computed from (engines/c02schema.py: foreign-key graph replayed from the migrations): nothing subtracts
      usage, and rows removed through ON DELETE CASCADE fire no trigger, so no statement anywhere (effective routines, migrations after the v3
      aggregates, Python of the batch service) may DELETE / REPLACE rows of attempts, attempt_resources or of any table they hang off by cascade
      (instances, jobs, batches, job_groups, batch_updates, ..), nor rewrite the columns the triggers multiply by / key on
      (attempt_resources.quantity / ids, batches.billing_project / user, jobs.job_group_id, closure rows).
Not decided: attribution across a UTC date roll-over, numeric totals; a closure copy restricted by a filter (declined); deletes restricted by a sub-query (declined).
"""
from __future__ import annotations

import ast
import itertools
import re
from typing import Any, Dict, Iterator, List, Optional, Sequence, Tuple

from engines import attemptfacts as af
from engines import c02schema as cs
from engines import pyfacts as pf
from engines import sqlfront as sf
from engines import sqlrules as sr
from engines.common import AnalysisError, AnchorRemoved, Ctx
from engines.common import short as common_short
from engines.sqlast import N, parse_expr, text
from engines.sqleval import UNKNOWN, may

META = dict(
    category='other',
    text='Per-statement obligations of the billing invariant decided on every writer of the four aggregate tables: same duration function in both '
         'triggers and in the audit, increment = duration difference x quantity with insert/on-duplicate symmetry and correct keys, complementary '
         'row coverage, idempotent resource registration, sum-preserving compaction, closed-world writers; and the conditions that enclose the aggregate upserts '
         'are TRUE whenever the billed duration changes, decided over the order domain of (OLD row, stored row) pairs that the writers of attempts and the BEFORE UPDATE trigger produce. '
         'Inputs of the triggers: the closure rows every new job group receives (abstract execution of the creating Python code, per-request caches included) and the lifetime of billed rows '
         '(no DELETE reaches attempts / attempt_resources directly or through an ON DELETE CASCADE chain; trigger inputs are write-once).',
    note='Trusted: SQL parser, migration replay; MySQL trigger semantics (AFTER INSERT does not fire for a duplicate-key no-op). Date roll-over and numeric totals not decided. '
         'R6 over-approximates the reachable attempt rows (every OLD row with rollup <= end; call-chain NULL classes as in C03).',
    technique='static analysis: SQL AST normal forms, sibling agreement between the two billing triggers and the audit query, closed-world writer scan, path conditions of the trigger body '
              'evaluated symbolically (three-valued, linear forms over the gaps of each ordering class) on the abstract row pairs shared with C03; abstract execution of Python over symbolic '
              'ids (linear normal forms) and row-set segments with explicit case splits; foreign-key graph replay and closed-world scan of row-removing statements',
    design_ref='DESIGN.md §3 C02',
)

TABLES = {
    'aggregated_billing_project_user_resources_v3': ['billing_project', 'user', 'resource_id'],
    'aggregated_job_group_resources_v3': ['batch_id', 'job_group_id', 'resource_id'],
    'aggregated_job_resources_v3': ['batch_id', 'job_id', 'resource_id'],
    'aggregated_billing_project_user_resources_by_date_v3': ['billing_date', 'billing_project', 'user', 'resource_id'],
}


def f_text(prefix: str) -> str:
    return text(parse_expr(f'GREATEST(COALESCE({prefix}rollup_time - {prefix}start_time, 0), 0)'))


def _product_factors(e: N) -> List[str]:
    if e.kind == 'bin' and e.op == '*':
        return sorted(_product_factors(e.left) + _product_factors(e.right))
    return [text(e).lower()]


def _bound_vars(routine: N) -> Dict[str, Tuple[str, str, N]]:
    """var -> (table, column, select stmt) for single-table SELECT col.. INTO var.."""
    out = {}
    for st in sf.all_statements(routine.body):
        if st.kind == 'select' and st.into and st.frm is not None and len(sf.table_names(st.frm)) == 1:
            for (c, _), v in zip(st.cols, st.into):
                if c.kind == 'col' and sr.is_var(v):
                    out[v.parts[0].lower()] = (sf.table_names(st.frm)[0].lower(), c.parts[-1].lower(), st)
    return out


# ----------------------------------------------------------------------------------------------------
# path conditions inside a trigger body (IF nesting, ELSE, statements after `IF c THEN .. LEAVE/SIGNAL`)
# ----------------------------------------------------------------------------------------------------
# fact := ('atom', cond, polarity)            polarity True: cond is TRUE;  False: cond is FALSE or NULL (branch not taken)
#       | ('nall', (fact, ...))               not all of the facts hold (an earlier leaving path was not taken)
Fact = Tuple


def _exits(stmts: Sequence[N]) -> bool:
    return bool(stmts) and stmts[-1].kind in ('leave', 'signal')


def path_facts(name: str, body: Sequence[N], guard: Tuple[Fact, ...] = (), inner_labels: Tuple[str, ...] = ()) -> Iterator[Tuple[N, Tuple[Fact, ...]]]:
    """(statement, facts that hold whenever it runs), in program order."""
    extra: Tuple[Fact, ...] = ()
    for st in body:
        g = guard + extra
        if st.kind == 'if':
            neg: Tuple[Fact, ...] = ()
            leaving: List[Tuple[Fact, ...]] = []
            for c, b in st.branches:
                yield from path_facts(name, b, g + neg + (('atom', c, True),), inner_labels)
                if _exits(b):
                    leaving.append(neg + (('atom', c, True),))
                neg = neg + (('atom', c, False),)
            if st.orelse is not None:
                yield from path_facts(name, st.orelse, g + neg, inner_labels)
                if _exits(st.orelse):
                    leaving.append(neg)
            for path in leaving:
                extra = extra + ((('nall', path),) if len(path) > 1 else (('atom', path[0][1], not path[0][2]),))
        elif st.kind in ('loop', 'while', 'block'):
            lab = getattr(st, 'label', None)
            if any(x.kind in ('leave', 'iterate') for x in sf.all_statements(st.body)):
                raise AnalysisError(f'{name}: LEAVE/ITERATE inside a nested {st.kind}: control flow not modelled')
            yield st, g
            yield from path_facts(name, st.body, g, inner_labels + ((lab,) if lab else ()))
        elif st.kind == 'leave':
            if st is not body[-1]:
                raise AnalysisError(f'{name}: LEAVE that is not the last statement of its branch')
            yield st, g
        elif st.kind == 'iterate':
            raise AnalysisError(f'{name}: ITERATE: control flow not modelled')
        elif st.kind == 'declare_handler':
            raise AnalysisError(f'{name}: condition handler in a billing trigger: control flow not modelled')
        else:
            yield st, g
    return


def fact_text(f: Fact) -> str:
    if f[0] == 'atom':
        return text(f[1]) if f[2] else f'NOT {text(f[1])}'
    return 'NOT (' + ' AND '.join(fact_text(x) for x in f[1]) + ')'


def fact_status(f: Fact, ce: af.CondEval) -> str:
    """'T' holds for every realisation of the class | 'F' for none | 'V' exactly: for some but not all | 'U' not decided."""
    if f[0] == 'atom':
        r = ce.truth(f[1])
        if r[0] == 'const':
            return 'T' if (r[1] is True) == f[2] else 'F'
        if r[0] == 'var':
            outs = {(o is True) == f[2] for o in r[1]}
            return 'T' if outs == {True} else ('F' if outs == {False} else 'V')
        return 'U'
    vals = [fact_status(x, ce) for x in f[1]]
    if any(v == 'F' for v in vals):
        return 'T'
    if all(v == 'T' for v in vals):
        return 'F'
    if vals.count('V') == 1 and all(v in ('T', 'V') for v in vals):
        return 'V'
    return 'U'


def fact_numeric(f: Fact, known) -> Optional[bool]:
    """Only used to pick the numbers printed in a witness (never for a verdict)."""
    if f[0] == 'atom':
        m = may(f[1], known)
        return None if len(m) != 1 else (next(iter(m)) == f[2])
    vals = [fact_numeric(x, known) for x in f[1]]
    if any(v is False for v in vals):
        return True
    return False if all(v is True for v in vals) else None


def _is_prefix(a: Tuple[Fact, ...], b: Tuple[Fact, ...]) -> bool:
    return len(a) <= len(b) and all(x is y or x == y for x, y in zip(a, b))


def nested_env(r: sf.Routine, stmts: List[Tuple[N, Tuple[Fact, ...]]]) -> Dict[str, Tuple[N, Tuple[Fact, ...], int]]:
    """var -> (defining expression with earlier definitions substituted, facts of the SET, program position) for variables assigned
    exactly once in the routine by a SET (anywhere, also inside IF blocks)."""
    counts: Dict[str, int] = {}
    for st, _ in stmts:
        targets: List[N] = []
        if st.kind == 'set':
            targets = [t for t, _ in st.assigns]
        elif st.kind in ('select', 'fetch') and getattr(st, 'into', None):
            targets = list(st.into)
        for t in targets:
            if sr.is_var(t):
                counts[t.parts[0].lower()] = counts.get(t.parts[0].lower(), 0) + 1
    declared = set(sr.declared_vars(r.ast))
    env: Dict[str, Tuple[N, Tuple[Fact, ...], int]] = {}
    for i, (st, facts) in enumerate(stmts):
        if st.kind != 'set':
            continue
        for t, v in st.assigns:
            if sr.is_var(t) and t.parts[0].lower() in declared and counts.get(t.parts[0].lower()) == 1:
                usable = {k: e for k, (e, f2, _) in env.items() if _is_prefix(f2, facts)}
                env[t.parts[0].lower()] = (sr.inline_expr(v, usable), facts, i)
    return env


def _inline_fact(f: Fact, env: Dict[str, N]) -> Fact:
    if f[0] == 'atom':
        return ('atom', sr.inline_expr(f[1], env), f[2])
    return ('nall', tuple(_inline_fact(x, env) for x in f[1]))


def f_value(s: Optional[int], r: Optional[int]) -> int:
    return max(r - s, 0) if s is not None and r is not None else 0


def _lin_f(s_: Optional[int], r_: Optional[int]) -> af.Lin:
    """f = GREATEST(COALESCE(rollup - start, 0), 0) as a linear form over the rank atoms of an ordering class."""
    if s_ is None or r_ is None or r_ <= s_:
        return af._lin({}, 0)
    return af._lin_add(af._lin({r_: 1}, 0), af._lin({s_: 1}, 0), -1)


def _numbers(ranks: Sequence[Optional[int]], gaps: Sequence[int]) -> Dict[int, int]:
    ks = sorted({x for x in ranks if x is not None and x != af.ZERO})
    val = {af.ZERO: 0}
    acc = 0
    for k, g in zip(ks, gaps):
        acc += g
        val[k] = acc
    return val


_points_cache: Dict[int, List[Tuple[str, str, Dict[str, Any], Dict[str, Any]]]] = {}


def attempt_row_changes(ctx: Ctx, prog: sf.SqlProgram) -> List[Tuple[str, str, Dict[str, Any], Dict[str, Any]]]:
    """Distinct (OLD row, stored row) pairs an UPDATE of attempts can produce: every writer statement x call chain x ordering class,
    through the parsed BEFORE UPDATE trigger (shared with C03)."""
    if id(prog) in _points_cache:
        return _points_cache[id(prog)]
    trig = prog.routine('attempts_before_update')
    a = trig.ast
    ctx.need(a.rkind == 'trigger' and a.timing == 'BEFORE' and a.event == 'UPDATE' and a.table.lower() == 'attempts', 'attempts_before_update is not BEFORE UPDATE ON attempts')
    ws = af.find_writers(ctx, prog, rule=None)
    af.refine_from_callers(ctx, prog, ws)
    ctx.need(len(ws) >= 7, f'only {len(ws)} writers of attempts found')
    special = [l for l in af.zeroing_reasons(a.body)]
    seen = set()
    out = []
    zero = set(special)
    for w in sorted(ws, key=lambda w: not w.assigns):       # statements that set nothing (duplicate-key no-op) last: better witnesses first
        for label, old, new, stored in af.transitions(a.body, w, special):
            key = (tuple(old[c] for c in af.COLS), tuple(stored[c] for c in af.COLS))
            if key not in seen:
                seen.add(key)
                out.append((w.wid, label, old, stored, new['reason'] in zero))
    # witnesses are taken in this order: OLD rows that real histories produce first (reason set iff end set, not an activation timeout)
    out.sort(key=lambda p: ((p[2]['reason'] is None) != (p[2]['end_time'] is None), p[2]['reason'] in zero, p[3]['reason'] in zero, p[4]))
    out = [p[:4] for p in out]
    _points_cache[id(prog)] = out
    ctx.unit('attempt_row_changes', len(out))
    return out


def check_guards_update(ctx: Ctx, r: sf.Routine, cons: str, st: N, facts: Tuple[Fact, ...], points) -> None:
    """R6 for the AFTER UPDATE trigger."""
    if not facts:
        ctx.ok('R6', cons, 'unconditional')
        return
    verdict = _guard_verdict_update(tuple(facts), points)
    if verdict[0] == 'bad':
        _, f, wid, label, ov, nv, d = verdict
        ctx.bad('R6', cons, f'the upsert into the aggregate is skipped although the billed duration of the attempt changes by {d} ms: the enclosing condition `{fact_text(f)}` is not TRUE. '
                f'Witness: {wid} (call chain {label}) turns OLD={ov} into the stored row NEW={nv}; f(NEW) - f(OLD) = {d} with f = GREATEST(COALESCE(rollup - start, 0), 0), '
                f'so every aggregate keeps quantity x {f_value(ov["start_time"], ov["rollup_time"])} while the attempt now says quantity x {f_value(nv["start_time"], nv["rollup_time"])}',
                r.file, r.line_of(st), extra={'writer': wid, 'chain': label, 'old': ov, 'new': nv, 'diff': d, 'condition': fact_text(f)})
        return
    if verdict[0] == 'undecided':
        raise AnalysisError(f'{cons}: the upsert is conditional on `{verdict[1]}`, which depends on data outside the attempt row; cannot decide whether increments are skipped')
    ctx.ok('R6', cons, {'conditions': [fact_text(f) for f in facts], 'row_changes_with_nonzero_difference': verdict[1]})


_verdicts: Dict[str, tuple] = {}


def _guard_verdict_update(facts: Tuple[Fact, ...], points) -> tuple:
    key = ' && '.join(fact_text(f) for f in facts)
    if key in _verdicts:
        return _verdicts[key]
    _verdicts[key] = v = _guard_verdict_update0(facts, points)
    return v


def _guard_verdict_update0(facts: Tuple[Fact, ...], points) -> tuple:
    """Abstract decision per ordering class of (OLD row, stored row): D = f(NEW) - f(OLD) as a linear form over the gaps of the class;
    classes where D is identically 0 carry no obligation; where the sign of D is not fixed by the ordering the class is split by that sign."""
    undecided: Optional[str] = None
    cases = 0
    uses_reason = any(n.kind == 'col' and n.parts[-1].lower() == 'reason' for f in facts for n in _fact_nodes(f))
    done = set()
    for wid, label, old, new in points:
        pk = (tuple(old[c] for c in af.TIME_COLS), tuple(new[c] for c in af.TIME_COLS)) + ((old['reason'], new['reason']) if uses_reason else ())
        if pk in done:
            continue
        done.add(pk)
        ranks = [old[c] for c in af.TIME_COLS] + [new[c] for c in af.TIME_COLS]
        basis = af.GapBasis(ranks)
        dlin = af._lin_add(_lin_f(new['start_time'], new['rollup_time']), _lin_f(old['start_time'], old['rollup_time']), -1)
        da, dc = basis.coeffs(dlin)
        cn, cz, cp = af.sign_info(da, dc)
        if cn is False and cp is False:
            continue        # the billed duration does not change in this class

        def leaf(n: N):
            if n.kind == 'col' and len(n.parts) == 2 and n.parts[0].upper() in ('OLD', 'NEW') and n.parts[1].lower() in af.COLS:
                return (old if n.parts[0].upper() == 'OLD' else new)[n.parts[1].lower()]
            raise af.UnknownLeaf(text(n))
        sigmas = [sg for sg, can in ((-1, cn), (1, cp)) if can]
        split = not (len(sigmas) == 1 and cz is False)
        for sg in sigmas:
            cases += 1
            ce = af.CondEval(leaf, basis, pivot=(da, dc) if split else None, pivot_sign=sg)
            for f in facts:
                v = fact_status(f, ce)
                if v in ('F', 'V'):
                    return ('bad', f, wid, label) + _witness_update(f, old, new, ranks, da, sg, v)
                if v == 'U' and undecided is None:
                    undecided = fact_text(f)
    if undecided is not None:
        return ('undecided', undecided)
    return ('ok', cases)


def _witness_update(f: Fact, old: Dict[str, Any], new: Dict[str, Any], ranks, da: Tuple[int, ...], sg: int, status: str) -> tuple:
    """Numbers for the message of an already established violation: a realisation of the class with sign(D) = sg (and, for a condition
    that fails only for part of the class, one on which it fails)."""
    n = len(da)
    base = [1000 if a * sg >= 0 else 1 for a in da]
    cands = [base] + [list(g) for g in itertools.product((1, 1000), repeat=n)] + [[2000 if x == 1000 else 1 for x in base]]
    pick = None
    for gaps in cands:
        val = _numbers(ranks, gaps)
        ov = {c: (None if old[c] is None else val[old[c]]) for c in af.TIME_COLS}
        nv = {c: (None if new[c] is None else val[new[c]]) for c in af.TIME_COLS}
        ov['reason'], nv['reason'] = old['reason'], new['reason']
        d = f_value(nv['start_time'], nv['rollup_time']) - f_value(ov['start_time'], ov['rollup_time'])
        if d == 0 or (d > 0) != (sg > 0):
            continue

        def known(x: N):
            if x.kind == 'col' and len(x.parts) == 2 and x.parts[0].upper() in ('OLD', 'NEW') and x.parts[1].lower() in af.COLS:
                return (ov if x.parts[0].upper() == 'OLD' else nv)[x.parts[1].lower()]
            return UNKNOWN
        if pick is None:
            pick = (ov, nv, d)
        if fact_numeric(f, known) is False:
            pick = (ov, nv, d)
            break
    if pick is None:
        val = _numbers(ranks, [1000] * n)
        ov = {c: (None if old[c] is None else val[old[c]]) for c in af.COLS[:3]}
        nv = {c: (None if new[c] is None else val[new[c]]) for c in af.COLS[:3]}
        pick = (ov, nv, f_value(nv['start_time'], nv['rollup_time']) - f_value(ov['start_time'], ov['rollup_time']))
    return pick


def _fact_nodes(f: Fact) -> Iterator[N]:
    if f[0] == 'atom':
        yield from f[1].walk()
    else:
        for x in f[1]:
            yield from _fact_nodes(x)


def check_guards_insert(ctx: Ctx, r: sf.Routine, cons: str, st: N, facts: Tuple[Fact, ...], bound: Dict[str, Tuple[str, str, N]]) -> None:
    """R6 for the AFTER INSERT trigger on attempt_resources: the current attempt row is arbitrary (any ordering class with rollup > start)."""
    if not facts:
        ctx.ok('R6', cons, 'unconditional')
        return
    undecided: Optional[str] = None
    cases = 0
    for ordv in af.weak_orderings(3):
        row = dict(zip(af.TIME_COLS, ordv))
        s_, r_ = row['start_time'], row['rollup_time']
        if not (s_ is not None and r_ is not None and r_ > s_) or not af.inv(row):
            continue
        cases += 1
        basis = af.GapBasis(list(ordv))

        def leaf(n: N):
            if sr.is_var(n) and n.parts[0].lower() in bound and bound[n.parts[0].lower()][0] == 'attempts' and bound[n.parts[0].lower()][1] in row:
                return row[bound[n.parts[0].lower()][1]]
            raise af.UnknownLeaf(text(n))
        ce = af.CondEval(leaf, basis)
        for f in facts:
            v = fact_status(f, ce)
            if v in ('F', 'V'):
                part = 'for every such row' if v == 'F' else 'for some such rows (depending on how far the times are apart)'
                ctx.bad('R6', cons, f'the upsert is skipped for a resource registered after the attempt was already billed: the enclosing condition `{fact_text(f)}` is not TRUE {part} '
                        f'when the attempt row has {af.realise(row)} (billed time > 0): quantity x billed time of the new resource never reaches the aggregate',
                        r.file, r.line_of(st), extra={'attempt_row_class': af.realise(row), 'condition': fact_text(f)})
                return
            if v == 'U' and undecided is None:
                undecided = fact_text(f)
    if undecided is not None:
        raise AnalysisError(f'{cons}: the upsert is conditional on `{undecided}`, which depends on data outside the attempt row; cannot decide whether increments are skipped')
    ctx.ok('R6', cons, {'conditions': [fact_text(f) for f in facts], 'attempt_row_classes_with_billed_time': cases})


def check_trigger(ctx: Ctx, prog: sf.SqlProgram, r: sf.Routine, kind: str) -> None:
    a = r.ast
    stmts = list(path_facts(r.name, a.body))
    facts_of = {id(st): f for st, f in stmts}
    pos_of = {id(st): i for i, (st, _) in enumerate(stmts)}
    nenv = nested_env(r, stmts)
    bound = _bound_vars(a)
    ctx.need('msec_diff_rollup' in nenv, f'{r.name}: msec_diff_rollup is not assigned by exactly one SET')
    diff, diff_facts, diff_pos = nenv['msec_diff_rollup']
    cons0 = f'{r.file}::{r.name}'
    # R1
    if kind == 'update':
        want = f'({f_text("NEW.")} - {f_text("OLD.")})'
        ctx.check(text(diff) == want, 'R1', cons0 + '::duration difference', f'the trigger bills `{text(diff)}`, expected f(NEW) - f(OLD) with f = GREATEST(COALESCE(rollup - start, 0), 0)',
                  r.file, r.line)
    else:
        # f over variables read from the attempt row of NEW's key
        vs = [c for c in sf.cols_in(diff)]
        names = sorted({text(c).lower() for c in vs})
        ok = len(names) == 2 and all(n in bound for n in names)
        if ok:
            rv = [n for n in names if bound[n][1] == 'rollup_time']
            sv = [n for n in names if bound[n][1] == 'start_time']
            ok = len(rv) == 1 and len(sv) == 1 and text(diff) == text(parse_expr(f'GREATEST(COALESCE({rv[0]} - {sv[0]}, 0), 0)'))
            if ok:
                st = bound[rv[0]][2]
                ok = bound[rv[0]][0] == 'attempts' and bound[sv[0]][2] is st and sr.has_eq(st.where, 'batch_id', 'new.batch_id') and \
                    sr.has_eq(st.where, 'job_id', 'new.job_id') and sr.has_eq(st.where, 'attempt_id', 'new.attempt_id')
                if ok:
                    ctx.need(_is_prefix(facts_of[id(st)], diff_facts) and pos_of[id(st)] < diff_pos, f'{r.name}: the attempt row is not read on every path before msec_diff_rollup is computed')
        ctx.check(ok, 'R1', cons0 + '::duration of current attempt', f'the trigger bills `{text(diff)}`; expected f(start, rollup) read from the attempts row (NEW.batch_id, NEW.job_id, NEW.attempt_id)',
                  r.file, r.line)
    env = {k: e for k, (e, _, _) in nenv.items()}
    # R2 / R3
    per_table: Dict[str, List[Tuple[N, tuple]]] = {}
    for st, guard in stmts:
        if st.kind == 'insert' and st.table.lower() in TABLES:
            per_table.setdefault(st.table.lower(), []).append((st, guard))
        elif st.kind in ('update', 'delete') and any(t.lower() in TABLES for t, _ in sf.written_tables(st)):
            ctx.bad('R2', cons0 + f'::{st.kind} of aggregate', f'aggregate table modified by {st.kind} inside the trigger: {text(st)[:100]}', r.file, r.line_of(st))
    for tbl, keycols in TABLES.items():
        cons = f'{cons0}::{tbl}'
        sts = per_table.get(tbl, [])
        if len(sts) != 1:
            ctx.bad('R2', cons, f'the trigger has {len(sts)} inserts into {tbl} (expected exactly one): ' + ('this aggregate is never updated by this path' if not sts else 'usage would be added more than once'),
                    r.file, r.line)
            continue
        st, guard = sts[0]
        ins, dup, uvars = sr.insert_colmap(st)
        # every variable the statement uses is defined on every path that reaches it
        used = {text(n).lower() for n in st.walk() if sr.is_var(n)}
        for v in sorted(used & set(nenv)):
            ctx.need(_is_prefix(nenv[v][1], guard) and nenv[v][2] < pos_of[id(st)], f'{r.name}: `{v}` is not assigned on every path that reaches the insert into {tbl}')
        for v in sorted(used & set(bound)):
            sel0 = bound[v][2]
            ctx.need(_is_prefix(facts_of[id(sel0)], guard) and pos_of[id(sel0)] < pos_of[id(st)], f'{r.name}: `{v}` is not read on every path that reaches the insert into {tbl}')
        # R6: conditions enclosing the upsert, with single-assignment variables inlined
        facts = tuple(_inline_fact(f, {k: e for k, (e, f2, p2) in nenv.items() if _is_prefix(f2, guard) and p2 < pos_of[id(st)]}) for f in guard)
        if kind == 'update':
            check_guards_update(ctx, r, cons + '::guard', st, facts, attempt_row_changes(ctx, prog))
        else:
            check_guards_insert(ctx, r, cons + '::guard', st, facts, bound)
        use = ins.get('usage')
        ctx.need(use is not None, f'{r.name}: insert into {tbl} has no usage column')
        fac = _product_factors(use)
        qty = 'new.quantity' if kind == 'insert' else None
        ok_amt = len(fac) == 2 and 'msec_diff_rollup' in fac and (([x for x in fac if x != 'msec_diff_rollup'] or [''])[0] in (('new.quantity',) if kind == 'insert' else ('quantity', 'attempt_resources.quantity')))
        ctx.check(ok_amt, 'R2', cons + '::amount', f'usage inserted is `{text(use)}`, expected msec_diff_rollup x quantity of the {"inserted" if kind == "insert" else "attempt_resources"} row', r.file, r.line_of(st))
        d = dup.get('usage')
        inc = sr.dup_increment('usage', d, uvars) if d is not None else None
        ctx.check(inc is not None and inc[0] == 1 and _product_factors(inc[1]) == fac and list(dup) == ['usage'], 'R2', cons + '::on-duplicate',
                  f'ON DUPLICATE KEY UPDATE `{text(d)}` does not add the same amount as a fresh row would hold', r.file, r.line_of(st))
        rid = text(ins.get('resource_id', N('lit', value=None))).lower()
        ctx.check(rid in ('new.deduped_resource_id', 'attempt_resources.deduped_resource_id', 'deduped_resource_id'), 'R2', cons + '::resource key',
                  f'resource_id column receives `{rid}`, expected the deduped_resource_id of the resource row', r.file, r.line_of(st))
        # entity keys
        def origin(col: str) -> str:
            e = ins.get(col)
            if e is None:
                return '<missing>'
            t = text(e).lower()
            if sr.is_var(e) and t in bound:
                tb, c, sel = bound[t]
                key = 'new.batch_id' if sr.has_eq(sel.where, 'id', 'new.batch_id') or sr.has_eq(sel.where, 'batch_id', 'new.batch_id') else '?'
                return f'{tb}.{c}@{key}'
            return t
        if 'billing_project' in keycols:
            ctx.check(origin('billing_project') == 'batches.billing_project@new.batch_id' and origin('user') == 'batches.user@new.batch_id', 'R2', cons + '::owner keys',
                      f'billing_project/user columns receive {origin("billing_project")} / {origin("user")}; expected the billing project and user of batch NEW.batch_id', r.file, r.line_of(st))
        if 'job_id' in keycols:
            ctx.check(origin('batch_id') in ('new.batch_id', 'attempt_resources.batch_id') and origin('job_id') in ('new.job_id', 'attempt_resources.job_id'), 'R2', cons + '::job keys',
                      f'batch_id/job_id columns receive {origin("batch_id")} / {origin("job_id")}', r.file, r.line_of(st))
        if 'job_group_id' in keycols:
            sel = st.select
            okf = sel is not None and 'job_group_self_and_ancestors' in [t.lower() for t in sf.table_names(sel.frm)] and origin('job_group_id').split('.')[-1] == 'ancestor_id'
            if okf and kind == 'insert':
                jg = [c for c in sf.conjuncts(sel.where) if c.kind == 'bin' and c.op == '=' and text(c.left).lower().endswith('job_group_id')]
                v = text(jg[0].right).lower() if jg else ''
                okf = bool(jg) and v in bound and bound[v][:2] == ('jobs', 'job_group_id') and sr.has_eq(bound[v][2].where, 'job_id', 'new.job_id') and \
                    sr.has_eq(bound[v][2].where, 'batch_id', 'new.batch_id') and sr.has_eq(sel.where, 'batch_id', 'new.batch_id')
            elif okf:
                on = [text(c).lower() for j in sel.frm.joins for c in sf.conjuncts(j.on)]
                okf = '(jobs.job_group_id = job_group_self_and_ancestors.job_group_id)' in on and '(jobs.batch_id = job_group_self_and_ancestors.batch_id)' in on and \
                    '(attempt_resources.job_id = jobs.job_id)' in on and '(attempt_resources.batch_id = jobs.batch_id)' in on
            ctx.check(okf, 'R2', cons + '::ancestor fan-out', 'usage is not added for the job\'s own group and every ancestor group (join job_group_self_and_ancestors on the job\'s batch_id / job_group_id, insert ancestor_id)',
                      r.file, r.line_of(st))
        if 'billing_date' in keycols:
            bd = ins.get('billing_date')
            ctx.check(bd is not None and 'utc_date' in text(sr.inline_expr(bd, env)).lower(), 'R2', cons + '::billing date', f'billing_date column receives `{text(bd)}`', r.file, r.line_of(st))
        # R3: source rows
        if kind == 'update':
            sel = st.select
            ok3 = sel is not None and sf.table_names(sel.frm)[0].lower() == 'attempt_resources' and sr.has_eq(sel.where, 'batch_id', 'new.batch_id') and \
                sr.has_eq(sel.where, 'job_id', 'new.job_id') and sr.has_eq(sel.where, 'attempt_id', 'new.attempt_id') and len(sf.conjuncts(sel.where)) == 3 and \
                all(j.jtype == 'LEFT' or tbl == 'x' for j in sel.frm.joins)
            ctx.check(ok3, 'R3', cons + '::rows billed', f'the rows billed are not exactly the attempt_resources of (NEW.batch_id, NEW.job_id, NEW.attempt_id): FROM {text(sel.frm) if sel else None} WHERE {text(sel.where) if sel else None}',
                      r.file, r.line_of(st))
        else:
            ctx.check(st.select is None or tbl == 'aggregated_job_group_resources_v3', 'R3', cons + '::single row', 'the insert trigger bills more than the inserted resource row', r.file, r.line_of(st))


def r4(ctx: Ctx) -> None:
    m = pf.load('batch/batch/driver/job.py')
    embs = [e for e in sf.embedded_in(m) if e.sql_text and 'attempt_resources' in e.sql_text and e.qual.startswith('add_attempt_resources')]
    ctx.need(len(embs) == 1, 'add_attempt_resources insert not found')
    e = embs[0]
    st = e.stmts()[0]
    ok = st.kind == 'insert' and len(st.on_dup) == 1 and text(st.on_dup[0][0]).lower() == text(st.on_dup[0][1]).lower() == 'quantity' and not st.ignore
    ctx.check(ok, 'R4', f'{m.rel}::add_attempt_resources::on duplicate', f'a re-sent resource report executes `{text(st)[-80:]}`; it must leave an existing (attempt, resource) row unchanged '
              '(ON DUPLICATE KEY UPDATE quantity = quantity), otherwise usage already billed with the old quantity no longer matches', m.path, e.lineno)
    cols = [c.lower() for c in st.cols or []]
    ctx.check(cols == ['batch_id', 'job_id', 'attempt_id', 'resource_id', 'deduped_resource_id', 'quantity'], 'R4', f'{m.rel}::add_attempt_resources::columns', f'columns {cols}', m.path, e.lineno)
    # the values bound to those columns: the attempt's own key, and both ids of ONE resource record (the triggers key every aggregate on deduped_resource_id)
    elts = sr.args_tuple(e.fn, e.call.args[1] if len(e.call.args) > 1 else None)
    ctx.need(elts is not None and len(elts) == len(cols) and len(st.rows) == 1 and all(x.kind == 'param' for x in st.rows[0]), 'add_attempt_resources: the values of the insert are not a tuple per row that can be bound to the columns')
    vals = dict(zip(cols, elts))
    if all(c in vals for c in ('batch_id', 'job_id', 'attempt_id', 'resource_id', 'deduped_resource_id')):
        keys = {c: pf.nsrc(pf.resolve_expr(e.fn, vals[c])) for c in ('batch_id', 'job_id', 'attempt_id')}
        ctx.check(all(keys[c] == c for c in keys), 'R4', f'{m.rel}::add_attempt_resources::attempt key', f'the attempt key columns receive {keys}; expected the (batch_id, job_id, attempt_id) the resources were reported for',
                  m.path, e.lineno)
        rid, did = vals['resource_id'], vals['deduped_resource_id']
        ctx.need(isinstance(rid, ast.Attribute) and isinstance(did, ast.Attribute), f'add_attempt_resources: resource ids are `{pf.nsrc(rid)}` / `{pf.nsrc(did)}`, not attributes of a resource record')
        ctx.check(rid.attr == 'resource_id' and did.attr == 'deduped_resource_id' and pf.nsrc(rid.value) == pf.nsrc(did.value), 'R4', f'{m.rel}::add_attempt_resources::resource ids',
                  f'resource_id / deduped_resource_id receive `{pf.nsrc(rid)}` / `{pf.nsrc(did)}`; expected .resource_id and .deduped_resource_id of the same resource record: the triggers add the usage under '
                  'deduped_resource_id, a recomputation joins resources on resource_id', m.path, e.lineno)


def r5(ctx: Ctx, prog: sf.SqlProgram) -> None:
    m = pf.load('batch/batch/driver/main.py')
    compactors = {'compact_agg_billing_project_users_table.compact': 'aggregated_billing_project_user_resources_v3',
                  'compact_agg_billing_project_users_by_date_table.compact': 'aggregated_billing_project_user_resources_by_date_v3'}
    embs = sf.embedded_in(m)
    for qual, tbl in compactors.items():
        fn = m.func(qual)
        cons = f'{m.rel}::{qual}'
        ctx.check(any(pf.dotted(d.func) == 'transaction' for d in fn.decorator_list if isinstance(d, ast.Call)), 'R5', cons + '::atomic', 'compaction steps are not inside one @transaction', m.path, fn.lineno)
        mine = sorted([e for e in embs if e.fn is fn], key=lambda e: e.lineno)
        sts = [(e, e.stmts()[0]) for e in mine]
        kinds = [s.kind for _, s in sts]
        ctx.check(kinds[:3] == ['select', 'delete', 'insert'] and all(k == 'select' for k in kinds[3:]) and all(e.receiver == 'tx' for e in mine), 'R5', cons + '::order',
                  f'statements run as {kinds} on {[e.receiver for e in mine]}; expected SELECT SUM .. FOR UPDATE, DELETE, INSERT on the transaction, then read-only checks', m.path, fn.lineno)
        if kinds[:3] != ['select', 'delete', 'insert']:
            continue
        (e1, s1), (e2, s2), (e3, s3) = sts[:3]
        keyc = TABLES[tbl][:]

        def keymap(e: sf.Embedded, st: N) -> Dict[str, str]:
            params = sr.params_in_order(st)
            elts = sr.args_tuple(e.fn, e.call.args[1]) or []
            bind = {id(p): pf.nsrc(x) for p, x in zip(params, elts)}
            out = {}
            for c in sf.conjuncts(st.where):
                if c.kind == 'bin' and c.op == '=' and c.right.kind == 'param':
                    out[text(c.left).lower().split('.')[-1]] = bind.get(id(c.right), '?')
            return out
        want = {k: f"target['{k}']" for k in keyc}
        k1, k2 = keymap(e1, s1), keymap(e2, s2)
        inner = sr.unwrap_sum(s1.cols[0][0])
        ctx.check(k1 == want and s1.lock == 'FOR UPDATE' and inner is not None and text(inner).lower() == 'usage' and sf.table_names(s1.frm) == [tbl] and not s1.group, 'R5', cons + '::sum',
                  f'the total is not SUM(usage) of exactly the target key read FOR UPDATE (key {k1}, lock `{s1.lock}`)', m.path, e1.lineno)
        ctx.check(k2 == want and len(sf.conjuncts(s2.where)) == len(keyc) and sf.table_names(s2.frm) == [tbl], 'R5', cons + '::delete', f'rows deleted are not exactly those summed (key {k2})', m.path, e2.lineno)
        ins, dup, _ = sr.insert_colmap(s3)
        params = sr.params_in_order(s3)
        elts = sr.args_tuple(e3.fn, e3.call.args[1]) or []
        bind = {id(p): pf.nsrc(x) for p, x in zip(params, elts)}
        got = {c: bind.get(id(v), text(v)) for c, v in ins.items()}
        sum_var = None
        par = m.parents().get(e1.call)
        while par is not None and not isinstance(par, ast.Assign):
            par = m.parents().get(par)
        if isinstance(par, ast.Assign):
            sum_var = pf.nsrc(par.targets[0])
        alias = s1.cols[0][1] or 'usage'
        want3 = dict(want)
        want3['token'] = '0'
        want3['usage'] = f"{sum_var}['{alias}']"
        ctx.check(got == want3 and not dup and s3.table.lower() == tbl, 'R5', cons + '::reinsert', f'the compacted row is inserted as {got}; expected {want3}', m.path, e3.lineno)
    # closed world
    allowed = {'sql:attempts_after_update', 'sql:attempt_resources_after_insert'} | {f'py:{m.rel}::{q}' for q in compactors}
    from rules.c01 import writers_scan
    tables = {t: set(allowed) for t in TABLES}
    # each compactor only its own table; triggers all four
    for q, t in compactors.items():
        for t2 in TABLES:
            if t2 != t:
                tables[t2].discard(f'py:{m.rel}::{q}')
    for t in ('aggregated_job_group_resources_v3', 'aggregated_job_resources_v3'):
        tables[t] = {'sql:attempts_after_update', 'sql:attempt_resources_after_insert'}
    dirs = ['batch/batch'] if ctx.tier == 'quick' else ['batch', 'gear', 'auth', 'ci', 'monitoring']
    writers_scan(ctx, prog, dirs, tables, 'R5')


def r1_audit(ctx: Ctx) -> None:
    m = pf.load('batch/batch/driver/main.py')
    embs = [e for e in sf.embedded_in(m) if e.qual.startswith('check_resource_aggregation') and e.sql_text and 'rollup_time' in e.sql_text]
    ctx.need(len(embs) >= 2, 'check_resource_aggregation: recomputation queries not found')
    want = f_text('')
    n = 0
    for e in embs:
        for st in e.stmts():
            for node in st.walk():
                if node.kind == 'func' and node.name == 'GREATEST':
                    n += 1
                    ctx.check(text(node) == want, 'R1', f'{m.rel}::check_resource_aggregation::{text(node)[:60]}', f'the audit recomputes the duration as `{text(node)}`, the triggers use `{want}`',
                              m.path, e.lineno)
    ctx.need(n >= 3, f'only {n} duration expressions in the audit')


# ----------------------------------------------------------------------------------------------------
# R8: the rows and columns the aggregates were computed from are never removed or rewritten behind the triggers' back
# ----------------------------------------------------------------------------------------------------
BILLED_ROWS = ('attempts', 'attempt_resources')
# columns the two triggers multiply by or key on (besides the billed times of `attempts`, which the update trigger itself follows)
TRIGGER_INPUTS = {
    'attempt_resources': ('batch_id', 'job_id', 'attempt_id', 'resource_id', 'deduped_resource_id', 'quantity'),
    'attempts': ('batch_id', 'job_id', 'attempt_id'),
    'batches': ('billing_project', 'user'),
    'jobs': ('job_group_id',),
    'job_group_self_and_ancestors': ('batch_id', 'job_group_id', 'ancestor_id'),
}
_REMOVE_WORD = re.compile(r'\b(DELETE|TRUNCATE|REPLACE)\b', re.I)


def _removal_verdict(schema: cs.Schema, prog: sf.SqlProgram, table: str) -> Optional[Tuple[str, str, List[cs.FK]]]:
    """('bad' | 'undecided', why, cascade path) when deleting a row of `table` removes billed rows without any trigger subtracting their
    usage; None when the table is not connected to the billed rows."""
    t = table.lower()
    if t in BILLED_ROWS:
        path: Optional[List[cs.FK]] = []
    else:
        path = schema.cascade_path(t, BILLED_ROWS)
    if path is None:
        return None
    unc = [fk.uncertain for fk in path if fk.uncertain]
    if unc:
        return ('undecided', unc[0], path)
    if not path:
        comp = [r.name for tb in (t,) for r in prog.triggers_on(tb, 'DELETE')]
        if comp:
            return ('undecided', f'{t} has DELETE trigger(s) {comp}: whether they take the usage of the removed row out of every aggregate is not analysed', path)
    return ('bad', '', path)


def _chain_text(table: str, path: List[cs.FK]) -> str:
    if not path:
        return f'{table} rows are the billed rows themselves'
    return ' ; '.join(f'{fk.child}({", ".join(fk.cols)}) REFERENCES {fk.parent}({", ".join(fk.pcols)}) ON DELETE CASCADE [{fk.file}]' for fk in path)


def _removal_message(table: str, path: List[cs.FK], st_text: str) -> str:
    gone = 'attempt_resources' if (path and path[-1].child.lower() == 'attempt_resources') or table.lower() == 'attempt_resources' else 'attempts (and, through its own cascade, attempt_resources)'
    return (f'`{st_text}` removes rows of {table}; every such row takes {gone} rows with it ({_chain_text(table, path)}). No trigger subtracts their usage (there is no DELETE '
            'trigger, and MySQL does not fire triggers for rows removed by a foreign-key cascade), so aggregated_job_resources_v3 / aggregated_job_group_resources_v3 / '
            'aggregated_billing_project_user_resources(_by_date)_v3 keep quantity x billed time of attempts that no longer exist: history = attempt billed and finished, '
            f'then this statement removes its {table} row -> recorded usage X > 0, sum over the remaining attempts 0')


def _assigned_columns(st: N) -> List[Tuple[str, str, N]]:
    """(table, column, value) for every column an UPDATE / ON DUPLICATE KEY UPDATE clause assigns."""
    out: List[Tuple[str, str, N]] = []
    if st.kind == 'update':
        tabs = [t for t in sf.from_tables(st.frm) if t.kind == 'table']
        alias = {(t.alias or t.name).lower(): t.name.lower() for t in tabs}
        for c, v in st.sets:
            if c.kind != 'col':
                continue
            if len(c.parts) > 1:
                tn = alias.get(c.parts[-2].lower(), c.parts[-2].lower())
                out.append((tn, c.parts[-1].lower(), v))
            elif len(tabs) == 1:
                out.append((tabs[0].name.lower(), c.parts[-1].lower(), v))
            else:
                for t in tabs:
                    out.append((t.name.lower(), c.parts[-1].lower(), v))        # unqualified column of a multi-table UPDATE: any of them
    elif st.kind == 'insert':
        for c, v in st.on_dup:
            if c.kind == 'col':
                out.append((st.table.lower(), c.parts[-1].lower(), v))
    return out


def _is_self_assign(col: str, v: N) -> bool:
    return v.kind == 'col' and v.parts[-1].lower() == col


def r8(ctx: Ctx, prog: sf.SqlProgram) -> None:
    schema = cs.load_schema()
    sources = schema.cascade_sources(BILLED_ROWS)
    protected = set(BILLED_ROWS) | set(sources)
    ctx.need({'instances', 'jobs', 'batches'} <= protected, f'schema replay: the foreign keys from attempts to instances / jobs / batches are not found (cascade sources {sorted(sources)})')
    ctx.unit('foreign_keys', len(schema.fks))
    ctx.extra_cov['cascade_sources_of_billed_rows'] = {t: _chain_text(t, p) for t, p in sources.items()}
    for tb in BILLED_ROWS:
        for tr in prog.triggers_on(tb, 'DELETE'):
            ctx.info(f'{tr.name}: DELETE trigger on {tb} (cascaded deletes do not fire it)')
    n_stmts = 0
    undecided: List[str] = []

    def judge(st: N, where_key: str, file: str, line: int) -> None:
        nonlocal n_stmts
        n_stmts += 1
        stext = common_short(text(st))
        if st.kind == 'delete' or (st.kind == 'insert' and getattr(st, 'replace', False)):
            targets = [t for t, _ in sf.written_tables(st)] if st.kind == 'delete' else [st.table]
            for t in targets:
                v = _removal_verdict(schema, prog, t)
                if v is None:
                    continue
                status, why, path = v
                cons = f'{where_key}::removes {t.lower()} rows'
                if status == 'undecided':
                    undecided.append(f'{cons}: {why}')
                    continue
                if st.kind == 'delete' and st.where is not None and any(n.kind in ('select', 'subq', 'exists', 'derived') for n in st.where.walk() if isinstance(n, N)):
                    undecided.append(f'{cons}: the DELETE is restricted by a sub-query; whether it spares every row that still has attempts is not analysed')
                    continue
                ctx.bad('R8', cons, _removal_message(t, path, stext), file, line, extra={'table': t, 'cascade': [repr(fk) for fk in path]})
        for tb, col, v in _assigned_columns(st):
            if tb in TRIGGER_INPUTS and col in TRIGGER_INPUTS[tb] and not _is_self_assign(col, v):
                ctx.bad('R8', f'{where_key}::rewrites {tb}.{col}',
                        f'`{stext}` assigns {tb}.{col}, which the billing triggers {"multiply the billed time by" if col == "quantity" else "key the aggregates on"}: usage already added for the row '
                        f'under the old value stays where it is while a recomputation over the attempts uses the new value (nothing re-posts the difference)', file, line)

    for name, r in sorted(prog.routines.items()):
        for st in sf.all_statements(r.ast.body):
            if st.kind in ('delete', 'update', 'insert'):
                judge(st, f'sql::{name}::{common_short(text(st), 70)}', r.file, r.line_of(st))
    # top-level statements of the migrations that run after the aggregates exist (the schema replay only records those)
    for file, line, body in schema.top_dml:
        if not _REMOVE_WORD.match(body):
            continue
        m = re.match(r'(?:DELETE\s+FROM|TRUNCATE(?:\s+TABLE)?|REPLACE(?:\s+INTO)?)\s+`?([A-Za-z_0-9]+)`?', body, re.I)
        ctx.need(m is not None, f'{file}:{line}: top-level `{common_short(body, 60)}` not recognised')
        v = _removal_verdict(schema, prog, m.group(1))
        if v is not None and v[0] == 'bad':
            ctx.bad('R8', f'{file}::migration removes {m.group(1).lower()} rows', _removal_message(m.group(1), v[2], common_short(body)), file, line)
        elif v is not None:
            undecided.append(f'{file}:{line}: {v[1]}')
    # only the batch service holds credentials for the batch database; auth / ci / monitoring have databases of their own (with tables of the same names)
    dirs = ['batch/batch'] if ctx.tier == 'quick' else ['batch']
    names_re = re.compile(r'\b(' + '|'.join(sorted(protected | set(TRIGGER_INPUTS))) + r')\b')
    n_mod = 0
    for rel in pf.walk_py(dirs):
        if rel.startswith('batch/sql/') or '/test/' in rel or rel.startswith('batch/test'):
            continue
        m = pf.load(rel)
        n_mod += 1
        if not _REMOVE_WORD.search(m.src) and 'UPDATE' not in m.src.upper():
            continue
        covered: set = set()
        for e in sf.embedded_in(m):
            a0 = e.call.args[0]
            for n in ast.walk(a0):
                covered.add(id(n))
            if isinstance(a0, ast.Name) and e.fn is not None:
                d = pf.single_def(e.fn, a0.id)
                if d is not None:
                    for n in ast.walk(d):
                        covered.add(id(n))
            sql_text = e.sql_text
            if sql_text is None:
                # SQL kept in a module-level constant
                g = None
                if isinstance(a0, ast.Name):
                    try:
                        g = pf.const_str(m.global_assign(a0.id))
                    except AnalysisError:
                        g = None
                if g is None:
                    continue
                for st0 in m.tree.body:
                    if isinstance(st0, (ast.Assign, ast.AnnAssign)):
                        for n in ast.walk(st0):
                            covered.add(id(n))
                sql_text = g
            up = sql_text.upper()
            removing = _REMOVE_WORD.search(up) is not None
            if not (removing or 'UPDATE' in up):
                continue
            if not names_re.search(sql_text) and '\u27e6' not in sql_text:
                continue            # names every table it touches, none of them protected
            if sql_text is e.sql_text:
                sts = e.stmts()
                perr = e.parse_error
            else:
                from engines.sqlast import SqlParseError, parse_statements as _ps
                try:
                    sts, perr = _ps(sql_text), None
                except SqlParseError as ex:
                    sts, perr = [], str(ex)
            if perr:
                # only a statement that can remove / rewrite the protected rows matters
                hole_target = re.search(r'\b(DELETE\s+FROM|DELETE|TRUNCATE(\s+TABLE)?|REPLACE(\s+INTO)?|UPDATE)\s+`?\u27e6', sql_text, re.I) is not None
                if hole_target or re.search(r'\b(DELETE|TRUNCATE|REPLACE)\b[^;]*\b(' + '|'.join(sorted(protected)) + r')\b', sql_text, re.I) or \
                        re.search(r'\bUPDATE\s+`?(' + '|'.join(sorted(TRIGGER_INPUTS)) + r')\b', sql_text, re.I):
                    raise AnalysisError(f'{rel}:{e.lineno}: SQL that may remove or rewrite billed rows does not parse ({perr})')
                continue
            for st in sts:
                if st.kind in ('delete', 'update', 'insert'):
                    judge(st, f'{rel}::{e.qual}::{common_short(text(st), 70)}', m.path, e.lineno)
        for n in ast.walk(m.tree):
            if isinstance(n, ast.Constant) and isinstance(n.value, str) and id(n) not in covered:
                if re.search(r'\b(DELETE\s+FROM|DELETE\s+\w+\s+FROM|TRUNCATE(\s+TABLE)?|REPLACE(\s+INTO)?)\s+`?(' + '|'.join(sorted(protected)) + r')`?\b', n.value, re.I):
                    raise AnalysisError(f'{rel}:{n.lineno}: a string that deletes from a table the billed rows hang off is not an analysed execute() argument (opaque SQL)')
    ctx.unit('statements_checked_for_row_removal', n_stmts)
    ctx.unit('python_modules_scanned_r8', n_mod)
    if undecided:
        raise AnalysisError('R8: ' + undecided[0])
    # one instance per protected table: nothing removes its rows
    for t in sorted(protected):
        ctx.ok('R8', f'schema::{t}::rows never removed', {'cascade': _chain_text(t, sources.get(t, []))})
    for tb, cols in sorted(TRIGGER_INPUTS.items()):
        ctx.ok('R8', f'schema::{tb}::trigger inputs write-once', {'columns': list(cols)})
    # positive control: the same machinery must see a synthetic purge of a cascade source
    from engines.sqlast import parse_statements
    st0 = parse_statements('DELETE FROM instances WHERE name = %s AND removed')[0]
    v0 = _removal_verdict(schema, prog, sf.written_tables(st0)[0][0])
    if v0 is None or v0[0] != 'bad' or not v0[2]:
        raise AnalysisError('positive control failed: a synthetic DELETE FROM instances is not connected to attempts by the replayed foreign keys')
    ctx.ok('R8', 'positive-control::synthetic DELETE FROM instances', nontrivial=False)


def r7(ctx: Ctx, prog: sf.SqlProgram) -> None:
    """Closure rows (engines/c02closure.py): the triggers fan a job's usage out over the rows of job_group_self_and_ancestors of the job's group, so
    `usage per job group counting all descendant jobs` / `per batch` (the row of the root group) holds only if every new group g with parent p gets
    exactly (g, g, 0) plus every row of p with level + 1 - also when p was created a moment earlier by the same request."""
    from engines import c02closure as cc
    try:
        results = cc.check_closure(prog, ctx.tier)
    except (RecursionError, KeyError, AttributeError, TypeError, ValueError, IndexError, AssertionError) as e:     # a shape the abstract executor was not written for
        raise AnalysisError(f'R7: abstract execution of the job-group creation code failed on an unexpected shape ({type(e).__name__}: {e})')
    for status, key, msg, file, line in results:
        if status == 'ok':
            ctx.ok('R7', key, msg)
        else:
            ctx.bad('R7', key, msg, file, line)


def run(ctx: Ctx) -> None:
    ctx.explanation ='Obligations of the billing-aggregate invariant decided on both billing triggers (effective SQL), the resource registration insert, the compactors and the audit.'
    ctx.rule('R1', 'same billed-duration function f in the update trigger (f(NEW)-f(OLD)), the insert trigger (f(current attempt)) and the audit queries', 6)
    ctx.rule('R2', 'each trigger inserts once into each of the four aggregates: amount = diff x quantity, on-duplicate adds the same, keys from the attempt\'s batch/job/owner, ancestors fan-out', 34)
    ctx.rule('R3', 'rows billed: update trigger = attempt_resources of the full attempt key; insert trigger = the inserted row only', 8)
    ctx.rule('R4', 'add_attempt_resources is idempotent on re-send and binds the attempt key and both ids of one resource record', 4)
    ctx.rule('R5', 'compaction preserves sums (SUM FOR UPDATE, DELETE, INSERT token 0 with one key in one transaction); closed world of aggregate writers', 20)
    ctx.rule('R6', 'the aggregate upserts run whenever the billed duration changes (either direction): enclosing conditions are TRUE on every reachable (OLD, stored) row pair with f(NEW) != f(OLD)', 8)
    ctx.assume('R6: the rows an UPDATE of attempts can store are those the writer statements and attempts_before_update produce from an OLD row with rollup <= end (order domain shared with C03)')
    ctx.assume('MySQL: AFTER INSERT trigger does not fire when INSERT .. ON DUPLICATE KEY UPDATE takes the update path; AFTER UPDATE fires once per changed row')
    ctx.rule('R7', 'closure rows behind the job-group fan-out: every creation of a job group (each call site of the function inserting the job_groups row, generic loop iteration, per-request '
             'caches included) writes exactly the self row and every row of the parent with level + 1 into job_group_self_and_ancestors', 2)
    ctx.assume('R7: a group named as parent exists (created before the request or by an earlier element of the same request); rows of an existing group never change (R8)')
    ctx.rule('R8', 'billed rows and trigger inputs outlive the aggregates: no statement removes attempts / attempt_resources rows, directly or through an ON DELETE CASCADE chain '
             '(instances, jobs, batches, ..), and none rewrites the quantity / key columns the triggers used', 13)
    ctx.assume('MySQL: rows removed by a foreign-key cascade fire no triggers; there is no statement that subtracts usage from an aggregate')
    prog = sf.load_program()
    # every group of rules runs even if an earlier one has to decline: a violation established by one group must not be hidden by an
    # unrecognised shape in another (the first decline is re-raised at the end; finish() reports violations first)
    deferred: List[AnalysisError] = []

    def group(fn, *a) -> None:
        try:
            fn(*a)
        except AnchorRemoved:
            raise
        except AnalysisError as e:
            deferred.append(e)
    group(check_trigger, ctx, prog, prog.routine('attempts_after_update'), 'update')
    group(check_trigger, ctx, prog, prog.routine('attempt_resources_after_insert'), 'insert')
    group(r1_audit, ctx)
    group(r4, ctx)
    group(r5, ctx, prog)
    group(r8, ctx, prog)
    group(r7, ctx, prog)
    ctx.unit('effective_routines', len(prog.routines))
    if deferred:
        raise deferred[0]
