"""C03 Billed attempt time is monotone and bounded by the attempt.

The BEFORE UPDATE trigger on `attempts` touches its timestamps only through order comparisons, IS NULL tests, copies and
order-exact selections - GREATEST / LEAST (NULL if an argument is NULL), COALESCE / IFNULL, IF(), CASE, typed DECLAREd locals: each
returns one of its inputs or NULL, chosen by comparisons of those inputs (checked syntactically with a small type system time / text /
bool, R0; arithmetic, numeric literals, other functions, truthiness of a timestamp are declined).  Its effect is therefore determined
by the weak ordering + NULL pattern of the three OLD
timestamps and the fresh timestamp parameters a writer supplies, together with the reason values.  R1 executes the *parsed*
trigger body over that finite order domain (engines/attemptfacts.py; MySQL three-valued logic) for every writer statement of the
four columns found in the effective SQL program / embedded SQL, starting from every OLD row that satisfies the invariant Inv,
and checks the clauses of the statement on the stored row:
   (a) Inv is inductive:  rollup, end non-NULL  =>  rollup <= end
   (b) start only moves earlier; it becomes NULL only for an activation timeout
   (c) once OLD.reason is set: end' = OLD.end  or  end' < OLD.end   (the statement constrains the end time, not the reason text)
   (d) billed = max(rollup - start, 0) does not decrease for any numeric realisation of the ordering, unless the report is an
       activation timeout or establishes an end earlier than what was already billed
   (e) end' non-NULL  =>  billed' <= max(end' - start', 0)
   (f) start_time is never stored as the literal 0 (a default for a missing start would bill from 1970)
   (g) a report that marks an activation timeout and is accepted as the end reason stores a row on which nothing is billed
Clauses (b) and (d) exempt a report whose reason is 'activation_timeout' (the property's own vocabulary) or a literal for which the
trigger erases a timestamp - wherever the erasure is written (IF statement or IF()/CASE expression in the trigger, or a conditional
expression in the writer's SET list: the reason parameter inside a timestamp expression is typed as text and ranges over the reason
domain).  WHERE conjuncts of a single-table writer that are decided by the OLD values of the four columns and the statement's own
symbols are honoured (a rejected row makes no transition); other conjuncts are ignored (over-approximation).
The value a writer assigns may be an expression over its parameters: it is evaluated symbolically per ordering class
(NULL propagation of + - GREATEST LEAST, first non-NULL of COALESCE/IFNULL, IF/CASE on order predicates, max/min-of-linear-forms
normal form that must collapse to one of the symbols: x + GREATEST(y - x, 0) = max(x, y) and is NULL when x is NULL);
expressions that are not order-domain values (constant offsets, products) are declined.  The NULL class of each parameter and
the reason literals come from the Python call chains (followed through forwarding parameters).
R2  the billed expression in both billing triggers is GREATEST(COALESCE(rollup - start, 0), 0)   (non-negativity)
R3  every write of the four columns is an UPDATE of attempts (so the trigger runs); INSERT INTO attempts sets none of them
R4  clauses (b) and (d) exempt reports whose reason makes the UPDATE (writer expression + trigger) erase a timestamp ('activation_timeout':
    bills nothing; the set is the trigger's syntactic erasures plus every literal the trigger or a writer singles out for which an
    erasure is observed on some abstract transition).  That is
    only right for an instance that never activated: every Python call that names such a literal must be dominated, on some hop of the
    chain down to the CALL, by tests that confine <instance>.state to the states that precede activation (guard dominance: enclosing
    if-branches, earlier exiting ifs, asserts; single-definition locals expanded; and/or/not/in/== over string literals).
Not decided: clock skew between worker and driver timestamps (values are arbitrary here anyway).
"""
from __future__ import annotations

import ast
from typing import Any, Dict, List, Optional, Set, Tuple

from engines import attemptfacts as af
from engines import pyfacts as pf
from engines import sqlfront as sf
from engines import sqlrules as sr
from engines.common import AnalysisError, AnchorRemoved, Ctx
from engines.sqlast import N, parse_expr, text

META = dict(
    category='proof',
    text='Exhaustive abstract execution of the parsed attempts_before_update trigger over the complete order domain (all weak orderings with NULLs of the '
         'OLD timestamps and each writer\'s fresh parameters, x reason patterns) for every writer statement found in the code; each (writer, clause) is an '
         'obligation. Sound because the trigger uses timestamps only through comparisons, copies and selections among its inputs (GREATEST/LEAST/COALESCE/IF/CASE), so its behaviour is a function of the ordering.',
    note='Trusted: SQL parser and evaluator; MySQL BEFORE UPDATE semantics (NEW row = SET list applied to OLD, then the trigger); one arithmetic fact: '
         'max(r - s, 0) is monotone in r and antitone in s.  Parameter NULL-ness and reason values are taken from the Python call sites where resolvable, otherwise unconstrained. '
         'mark_job_errored is assumed to report an attempt that has not been billed yet (recorded assumption); R4 trusts that the in-memory instance state does not change between its test and the CALL.',
    technique='static analysis: exhaustive abstract interpretation of the trigger AST over a finite order domain, symbolic max/min-linear normal form of writer expressions, '
              'call-chain tracing with guard dominance for the reason precondition (no solver, code not run)',
    design_ref='DESIGN.md §3 C03',
)

TIME_COLS = af.TIME_COLS
COLS = af.COLS
AT = 'activation_timeout'
ZERO = af.ZERO

# re-exported (the order domain, trigger interpreter and writer model live in engines/attemptfacts.py, shared with C02)
weak_orderings = af.weak_orderings
exec_trigger = af.exec_trigger
realise = af.realise
inv = af.inv
Writer = af.Writer
find_writers = af.find_writers
classify_time = af.classify_time
WORKER_FIELDS = af.WORKER_FIELDS


def refine_from_callers(ctx: Ctx, ws: List[Writer], prog: Optional[sf.SqlProgram] = None) -> None:
    af.refine_from_callers(ctx, prog or sf.load_program(), ws)


def billed_never_decreases(old: Dict[str, Any], new: Dict[str, Any]) -> bool:
    """For every numeric realisation of the ordering: max(r'-s',0) >= max(r-s,0)."""
    s, r = old['start_time'], old['rollup_time']
    if s is None or r is None or r <= s:
        return True  # billed was 0
    s2, r2 = new['start_time'], new['rollup_time']
    if s2 is None or r2 is None:
        return False
    return s2 <= s and r2 >= r


# ----------------------------------------------------------------------------------------------------
def billed_nothing(row: Dict[str, Any]) -> bool:
    s, r = row['start_time'], row['rollup_time']
    return s is None or r is None or r <= s


def check_writer(ctx: Ctx, body: List[N], w: Writer, special: List[str], trig_file: str, zeroing: Dict[str, List[str]],
                 erased: Optional[Dict[str, Set[str]]] = None, declines: Optional[List[str]] = None) -> int:
    """`zeroing`: reason literals for which the trigger itself erases a timestamp (syntactic).  `erased` collects, per reported reason
    text, the timestamp columns some transition of this writer turns from a value into NULL (writer expression + trigger together).
    `declines` collects the clauses that cannot be decided because a call chain hands over a value whose NULL class / reason text the
    analysis could not establish: a failure that shows only under SOME assumption about such a value is not evidence."""
    fails: Dict[str, Tuple] = {}
    at_seen = False
    settled: Set[str] = set()      # clauses whose witness starts from a state real histories produce (reason set iff end set)
    count = 0
    tags_seen: Dict[int, Set[Tuple]] = {}                              # variant -> every assumption pattern enumerated
    ufails: Dict[str, Dict[int, Dict[Tuple, Tuple]]] = {}              # clause -> variant -> pattern -> witness
    cur: List[Any] = [None, None]                                      # (variant, tag) of the transition being judged

    def record(clause: str, label: str, old: Dict[str, Any], new: Dict[str, Any], out: Dict[str, Any]) -> None:
        if cur[1] is not None:
            ufails.setdefault(clause, {}).setdefault(cur[0], {}).setdefault(cur[1], (label, old, new, out))
            return
        # keep the first witness, but prefer one whose OLD row has (reason IS NULL) == (end_time IS NULL)
        good = (old['reason'] is None) == (old['end_time'] is None)
        if clause not in fails or good:
            fails[clause] = (label, old, new, out)
        if good:
            settled.add(clause)

    for vi, label, old, new, out, tag in af.transitions_tagged(body, w, special):
        count += 1
        cur[0], cur[1] = vi, tag
        if tag is not None:
            tags_seen.setdefault(vi, set()).add(tag)
        oreason = old['reason']
        rep_reason = new['reason']
        # the report marks an activation timeout (which bills nothing): the property's own reason text, or one the trigger singles out by erasing a timestamp (R4 then applies to it)
        exempt = rep_reason == AT or rep_reason in zeroing
        if erased is not None and isinstance(rep_reason, str) and tag is None:
            for c in TIME_COLS:
                if old[c] is not None and out[c] is None:
                    erased.setdefault(rep_reason, set()).add(c)
        if rep_reason == AT and oreason is None and out['reason'] == AT:
            at_seen = True
            if 'g' not in settled and not billed_nothing(out):
                record('g', label, old, new, out)
        if 'a' not in settled and not inv(out):
            record('a', label, old, new, out)
        if 'b' not in settled and old['start_time'] is not None:
            if out['start_time'] is None:
                if not exempt:
                    record('b', label, old, new, out)
            elif out['start_time'] > old['start_time']:
                record('b', label, old, new, out)
        if 'c' not in settled and oreason is not None:
            same = out['end_time'] == old['end_time']
            earlier = out['end_time'] is not None and old['end_time'] is not None and out['end_time'] < old['end_time']
            if not (same or earlier):
                record('c', label, old, new, out)
        if 'd' not in settled and not billed_never_decreases(old, out):
            allowed = exempt or (out['end_time'] is not None and old['rollup_time'] is not None and out['end_time'] < old['rollup_time'])
            if not allowed:
                record('d', label, old, new, out)
        if 'e' not in settled and out['end_time'] is not None and out['rollup_time'] is not None and out['start_time'] is not None:
            if out['rollup_time'] > out['end_time'] and out['rollup_time'] > out['start_time']:
                record('e', label, old, new, out)
        if 'f' not in settled and out['start_time'] == ZERO and old['start_time'] != ZERO:
            record('f', label, old, new, out)
    texts = {
        'a': 'stored row has rollup_time > end_time (billing beyond the end of the attempt becomes reachable)',
        'b': 'start_time moves later, or is dropped without an activation timeout',
        'c': 'an attempt that already has an end reason gets a later (or a first) end time',
        'd': 'billed duration max(rollup - start, 0) can decrease although the report neither is an activation timeout nor ends the attempt earlier than what was billed',
        'e': 'an ended attempt is billed beyond its end time',
        'f': 'start_time is stored as the constant 0 (1970-01-01) instead of a reported time: the attempt is billed rollup_time - 0, far beyond end - start of the real attempt',
        'g': f'a report that marks an activation timeout (reason \'{AT}\', accepted as the end reason of an attempt that had none) leaves billed time max(rollup - start, 0) > 0 on the stored row: '
             'an activation timeout bills nothing',
    }
    # failures seen only on chains with unestablished values: evidence iff they show under every assumption about those values
    undecided: Dict[str, str] = {}
    for clause, per in ufails.items():
        if clause in fails:
            continue
        for vi, pats in per.items():
            if set(pats) == tags_seen.get(vi, set()):
                fails[clause] = next(iter(pats.values()))
                break
        else:
            vi, pats = next(iter(per.items()))
            pat = next(iter(pats))
            what = ', '.join(f'{s_} {"= " + repr(v) if s_ == "<reason>" else ("IS NULL" if v else "IS NOT NULL")}' for s_, v in pat)
            undecided[clause] = (f'{w.wid}: clause ({clause}) fails only if {what} on call chain {w.variants[vi][0]}, and the analysis could not establish '
                                 f'what that chain passes there (parameter classes {w.variants[vi][1]})')
    if declines is not None:
        declines += [undecided[c] for c in sorted(undecided)]
    elif undecided:
        raise AnalysisError(undecided[sorted(undecided)[0]])
    for clause, msg in texts.items():
        if clause in undecided:
            continue
        if clause == 'f' and clause not in fails:
            continue        # only meaningful for writers that can produce the constant; no instance otherwise
        if clause == 'g' and not at_seen:
            continue        # only writers that can report an activation timeout
        cons = f'{w.wid}::UPDATE attempts SET {", ".join(w.cols) or "<nothing>"}::clause ({clause})'
        if clause in fails:
            label, o, nw, out = fails[clause]
            ctx.bad('R1', cons, f'{msg}. Call chain {label}. Statement sets {w.sets}. Witness (times in ms): OLD={realise(o)}, row written by the statement={realise(nw)}, row stored after the trigger={realise(out)}',
                    w.file, w.line, extra={'chain': label, 'old': realise(o), 'new': realise(nw), 'stored': realise(out)})
        else:
            ctx.ok('R1', cons, {'cases': count, 'variants': [(l, c, f, sorted(map(str, r)) if r is not None else 'any') for l, c, f, r in w.variants]})
    return count


# ----------------------------------------------------------------------------------------------------
# R4: a reason literal for which the trigger erases a timestamp may only be reported for an instance that never activated
# ----------------------------------------------------------------------------------------------------
StateSet = Tuple[bool, frozenset]       # (True, S): state in S;  (False, S): state not in S
TOP: StateSet = (False, frozenset())


def _inter(a: StateSet, b: StateSet) -> StateSet:
    if a[0] and b[0]:
        return (True, a[1] & b[1])
    if a[0]:
        return (True, a[1] - b[1])
    if b[0]:
        return (True, b[1] - a[1])
    return (False, a[1] | b[1])


def _union(a: StateSet, b: StateSet) -> StateSet:
    if a[0] and b[0]:
        return (True, a[1] | b[1])
    if a[0]:
        return (False, b[1] - a[1])
    if b[0]:
        return (False, a[1] - b[1])
    return (False, a[1] & b[1])


def _compl(a: StateSet) -> StateSet:
    return (not a[0], a[1])


_STATELESS_BUILTINS = {'isinstance', 'len', 'str', 'repr', 'id', 'hash', 'print', 'type'}
_reads_state_cache: Dict[Tuple[Optional[str], bool], Optional[bool]] = {}


def _reads_state(name: Optional[str], plain_attribute_ok: bool = False) -> Optional[bool]:
    """Does the method / property / function `name` (looked up by name in the driver's instance modules) read an instance's state?
    False: every definition found does not (or, for an attribute read, there is no such method: a plain data attribute);
    True: some definition reads `.state` / `._state`; None: not found / not decided."""
    key = (name, plain_attribute_ok)
    if key in _reads_state_cache:
        return _reads_state_cache[key]
    res: Optional[bool] = None
    if name is not None:
        defs: List[pf.FuncDef] = []
        for rel in ('batch/batch/driver/instance.py', 'batch/batch/driver/instance_collection/base.py'):
            try:
                m = pf.load(rel)
            except AnalysisError:
                continue
            defs += [n for n in ast.walk(m.tree) if isinstance(n, (ast.FunctionDef, ast.AsyncFunctionDef)) and n.name == name]
        if defs:
            res = any(isinstance(x, ast.Attribute) and x.attr in ('state', '_state') for d in defs for x in ast.walk(d)) or \
                any(isinstance(x, ast.Call) and isinstance(x.func, ast.Attribute) and isinstance(x.func.value, ast.Name) and x.func.value.id == 'self' for d in defs for x in ast.walk(d))
        elif plain_attribute_ok:
            res = False
    _reads_state_cache[key] = res
    return res


class StateFacts:
    """What a boolean expression says about `<subject>.state` / `<subject>._state` (string-literal comparisons only)."""

    def __init__(self, subject: str):
        self.subject = subject
        self.opaque: List[str] = []

    def _is_state(self, e: ast.AST) -> bool:
        return isinstance(e, ast.Attribute) and e.attr in ('state', '_state') and pf.nsrc(e.value) == self.subject

    def _lits(self, e: ast.AST) -> Optional[frozenset]:
        if isinstance(e, (ast.Tuple, ast.List, ast.Set)) and all(pf.const_str(x) is not None for x in e.elts):
            return frozenset(pf.const_str(x) for x in e.elts)
        return None

    def atom(self, e: ast.expr) -> StateSet:
        if isinstance(e, ast.Compare) and len(e.ops) == 1:
            l, op, r = e.left, e.ops[0], e.comparators[0]
            if self._is_state(r) and isinstance(op, (ast.Eq, ast.NotEq)):
                l, r = r, l
            if self._is_state(l):
                s = pf.const_str(r)
                if s is not None and isinstance(op, ast.Eq):
                    return (True, frozenset([s]))
                if s is not None and isinstance(op, ast.NotEq):
                    return (False, frozenset([s]))
                ls = self._lits(r)
                if ls is not None and isinstance(op, ast.In):
                    return (True, ls)
                if ls is not None and isinstance(op, ast.NotIn):
                    return (False, ls)
        if any(self._is_state(n) for n in ast.walk(e)):
            self.opaque.append(pf.nsrc(e))
        elif self._may_speak_about_subject(e):
            self.opaque.append(pf.nsrc(e))      # e.g. `_is_pending(instance)`, `instance.never_activated`: may well be a test of the state, in a form not followed
        return TOP

    def _may_speak_about_subject(self, e: ast.AST) -> bool:
        for n in ast.walk(e):
            if isinstance(n, ast.Call):
                if isinstance(n.func, ast.Attribute) and pf.nsrc(n.func.value) == self.subject:
                    if _reads_state(n.func.attr) is not False:
                        return True
                elif any(pf.nsrc(a) == self.subject for a in list(n.args) + [k.value for k in n.keywords]):
                    name = n.func.id if isinstance(n.func, ast.Name) else (n.func.attr if isinstance(n.func, ast.Attribute) else None)
                    if name not in _STATELESS_BUILTINS and _reads_state(name) is not False:
                        return True
            elif isinstance(n, ast.Attribute) and pf.nsrc(n.value) == self.subject and n.attr not in ('state', '_state'):
                if _reads_state(n.attr, plain_attribute_ok=True) is not False:
                    return True
        return False

    def when_true(self, e: ast.expr) -> StateSet:
        if isinstance(e, ast.BoolOp):
            parts = [self.when_true(v) for v in e.values]
            acc = parts[0]
            for p in parts[1:]:
                acc = _inter(acc, p) if isinstance(e.op, ast.And) else _union(acc, p)
            return acc
        if isinstance(e, ast.UnaryOp) and isinstance(e.op, ast.Not):
            return self.when_false(e.operand)
        return self.atom(e)

    def when_false(self, e: ast.expr) -> StateSet:
        if isinstance(e, ast.BoolOp):
            parts = [self.when_false(v) for v in e.values]
            acc = parts[0]
            for p in parts[1:]:
                acc = _union(acc, p) if isinstance(e.op, ast.And) else _inter(acc, p)
            return acc
        if isinstance(e, ast.UnaryOp) and isinstance(e.op, ast.Not):
            return self.when_true(e.operand)
        a = self.atom(e)
        return TOP if a == TOP else _compl(a)


def _always_exits(stmts: List[ast.stmt]) -> bool:
    if not stmts:
        return False
    last = stmts[-1]
    if isinstance(last, (ast.Return, ast.Raise, ast.Continue, ast.Break)):
        return True
    if isinstance(last, ast.If):
        return _always_exits(last.body) and _always_exits(last.orelse)
    return False


def path_conditions(m: pf.Module, fn: pf.FuncDef, node: ast.AST) -> List[Tuple[ast.expr, bool]]:
    """(test, polarity) facts that hold whenever `node` is reached inside fn: enclosing if-branches, earlier sibling ifs that leave
    (return / raise / continue / break) and earlier sibling asserts.  Single-definition locals in the tests are expanded."""
    par = m.parents()
    out: List[Tuple[ast.expr, bool]] = []
    cur: ast.AST = node
    p = par.get(cur)
    while p is not None and cur is not fn:
        if isinstance(p, ast.If) and cur is not p.test:
            in_body = any(cur is s for s in p.body)
            in_else = any(cur is s for s in p.orelse)
            if in_body or in_else:
                out.append((p.test, in_body))
        for field in ('body', 'orelse', 'finalbody'):
            lst = getattr(p, field, None)
            if isinstance(lst, list) and any(cur is s for s in lst):
                idx = [i for i, s in enumerate(lst) if s is cur][0]
                for s in lst[:idx]:
                    if isinstance(s, ast.If):
                        be, ee = _always_exits(s.body), _always_exits(s.orelse)
                        if be and not ee:
                            out.append((s.test, False))
                        elif ee and not be:
                            out.append((s.test, True))
                    elif isinstance(s, ast.Assert):
                        out.append((s.test, True))
        cur = p
        p = par.get(cur)
    return [(pf.expand_locals(fn, t), pol) for t, pol in out]


def never_activated_states(ctx: Ctx) -> Set[str]:
    """States of an instance that has not activated: what Instance.activate requires before it sets the state to 'active'."""
    m = pf.load('batch/batch/driver/instance.py')
    ctx.need(m.has_func('Instance.activate'), 'Instance.activate not found (needed to know which instance states precede activation)')
    fn = m.func('Instance.activate')
    sets_active = any(isinstance(n, ast.Assign) and any(pf.nsrc(t) == 'self._state' for t in n.targets) and pf.const_str(n.value) == 'active' for n in pf.walk_shallow(fn))
    ctx.need(sets_active, 'Instance.activate does not assign self._state = \'active\'')
    sf_ = StateFacts('self')
    acc = TOP
    for st in fn.body:
        if isinstance(st, ast.Assert):
            acc = _inter(acc, sf_.when_true(st.test))
        elif isinstance(st, ast.If) and _always_exits(st.body) and not st.orelse:
            acc = _inter(acc, sf_.when_false(st.test))
    ctx.need(acc[0] and acc[1], 'Instance.activate does not state which instance state precedes activation (assert self._state == ...)')
    return set(acc[1])


def _subjects(call: ast.Call) -> List[str]:
    out = []
    f = call.func
    if isinstance(f, ast.Attribute):
        root = f.value
        out.append(pf.nsrc(root))
        while isinstance(root, (ast.Attribute, ast.Subscript, ast.Call)):
            root = root.value if not isinstance(root, ast.Call) else root.func
        if isinstance(root, ast.Name) and root.id not in out:
            out.append(root.id)
    for a in list(call.args) + [k.value for k in call.keywords]:
        if isinstance(a, (ast.Name, ast.Attribute)) and pf.nsrc(a) not in out:
            out.append(pf.nsrc(a))
    if 'self' not in out:
        out.append('self')
    return out


def _tracked_subjects(frames: Tuple[af.Frame, ...]) -> List[List[Optional[str]]]:
    """For each object named at the innermost hop: the expression that denotes the same object at every outer hop (None where the
    binding cannot be followed).  `self` of a method maps to the receiver of the call, a parameter to the argument bound to it."""
    out: List[List[Optional[str]]] = []
    for cand in _subjects(frames[-1].call):
        per: List[Optional[str]] = [None] * len(frames)
        per[-1] = cand
        cur = cand
        for k in range(len(frames) - 2, -1, -1):
            callee, call = frames[k + 1].fn, frames[k].call
            if callee is None:
                break
            root, _, rest = cur.partition('.')
            rest = ('.' + rest) if rest else ''
            if '(' in root or '[' in root:
                break
            if root in ('self', 'cls') and af._is_method(callee):
                if not isinstance(call.func, ast.Attribute):
                    break
                outer = pf.nsrc(call.func.value) + rest
            else:
                how, a = af.bound_arg(call, callee, root)
                if how != 'arg' or a is None:
                    break
                outer = pf.nsrc(a) + rest
            per[k] = outer
            cur = outer
        out.append(per)
    return out


def r4_zeroing_reason_precondition(ctx: Ctx, prog: sf.SqlProgram, trig: sf.Routine, ws: List[Writer], zeroing: Dict[str, List[str]], special: List[str]) -> None:
    if not zeroing:
        ctx.ok('R4', f'{trig.file}::attempts_before_update::no reason literal erases a timestamp', nontrivial=False)
        return
    pending = never_activated_states(ctx)
    calls = af.proc_calls(ctx, prog)
    sites: Dict[Tuple[str, int, str], List[Tuple[Writer, Tuple[af.Frame, ...]]]] = {}
    for w in ws:
        if not w.assigns or not any(c == 'reason' for c, _ in w.assigns):
            continue
        if w.rsym is None:
            lit = [v.value for c, v in w.assigns if c == 'reason' and v.kind == 'lit']
            ctx.need(not (lit and lit[0] in zeroing), f'{w.wid}: sets reason = \'{lit[0] if lit else ""}\' inside SQL; the never-activated precondition cannot be established there')
            continue
        if w.wid.startswith('py:'):
            e = w.embedded          # type: ignore[attr-defined]
            params = sr.params_in_order(w.stmt)     # type: ignore[attr-defined]
            elts = sr.args_tuple(e.fn, e.call.args[1] if len(e.call.args) > 1 else None)
            ctx.need(elts is not None and len(elts) == len(params), f'{w.wid}: reason parameter of the embedded UPDATE cannot be bound to a Python expression')
            idx = [f'%s@{p.pos}' for p in params].index(w.rsym)
            m, fn, expr, call = e.module, e.fn, elts[idx], e.call
        else:
            name = w.wid[4:].split('::')[0]
            if name not in calls or w.rsym not in calls[name].bind:
                continue
            pc = calls[name]
            m, fn, expr, call = pc.m, pc.e.fn, pc.bind[w.rsym], pc.e.call
        for value, frames, note in af.trace_strings(m, fn, expr, (af.Frame(m, fn, call),)):
            if value is None and note != 'None':
                raise AnalysisError(f'{w.wid}: a reason value reaching this statement is not a resolvable string literal ({note}); cannot tell whether {sorted(zeroing)} is reported')
            if value is None or value not in zeroing:
                continue
            sites.setdefault((frames[0].m.rel, frames[0].call.lineno, value), []).append((w, frames))
    # one instance per site that names the literal; it holds iff every chain from that site down to a CALL establishes the precondition
    for (rel, lineno, value), chains in sorted(sites.items(), key=lambda kv: kv[0]):
        src = chains[0][1][0]
        cons = f'{src.label}::{pf.nsrc(src.call)[:80]}::reason \'{value}\''
        bad = None
        good = []
        for w, frames in chains:
            chain = ' -> '.join(f.label.split('::', 1)[1] for f in frames) + f' -> {w.wid}'
            ok, verdicts, opaque = _chain_precondition(frames, pending)
            if ok:
                good.append(chain)
                continue
            # tests the analysis cannot read may be the guard: without them the chain is evidence only if a test that IS read confines
            # the instance to states that all lie after activation
            if opaque and not any(acc[0] and not (acc[1] & pending) for _, _, acc in verdicts):
                raise AnalysisError(f'{cons}: the instance (state) is tested in a form the analysis does not follow ({opaque[0]})')
            if bad is None:
                bad = (w, chain, verdicts)
        if bad is None:
            ctx.ok('R4', cons, {'chains': good, 'never_activated_states': sorted(pending)})
            continue
        w, chain, verdicts = bad
        # witness from the order domain: what the reason does to an attempt that was billed
        wit = ''
        for label, old, new, out in af.transitions(trig.ast.body, w, special):
            if new['reason'] == value and old['reason'] is not None and old['end_time'] is not None and old['reason'] not in zeroing and out['reason'] == old['reason'] \
                    and not billed_never_decreases(old, out):
                wit = (f' E.g. an attempt that already ended: OLD={realise(old)}, row written={realise(new)}, row stored after the trigger={realise(out)}: '
                       f'billed time drops to 0 and the stored reason stays \'{out["reason"]}\'.')
                break
        if verdicts:
            fr, subj, acc = verdicts[0]
            may = (f'may be in {sorted(acc[1])}' if acc[0] else f'is only known not to be in {sorted(acc[1])}')
            where = f'the state of `{subj}` {may} (tests seen from {fr.label.split("::", 1)[1]} down to the CALL)'
        else:
            where = 'no enclosing or preceding test constrains the instance state on any hop of the chain'
        ctx.bad('R4', cons, f'the reason \'{value}\' makes the UPDATE (statement + attempts_before_update) store {", ".join(zeroing[value])} = NULL for the attempts the statement touches (billed time 0, not an error only for '
                f'an instance that never activated, state in {sorted(pending)}); {where}. Chain: {chain}.{wit}', src.m.path, src.call.lineno,
                extra={'chain': chain, 'reason': value})


def _chain_precondition(frames: Tuple[af.Frame, ...], pending: Set[str]) -> Tuple[bool, List[Tuple[af.Frame, str, StateSet]], List[str]]:
    verdicts: List[Tuple[af.Frame, str, StateSet]] = []
    opaque: List[str] = []
    conds_of = [path_conditions(fr.m, fr.fn, fr.call) if fr.fn is not None else [] for fr in frames]
    # (1) one hop alone confines the state of an object it passes on
    for fr, conds in zip(frames, conds_of):
        for subj in _subjects(fr.call):
            facts = StateFacts(subj)
            acc = TOP
            for t, pol in conds:
                acc = _inter(acc, facts.when_true(t) if pol else facts.when_false(t))
            opaque += facts.opaque
            if acc[0] and acc[1] <= pending:
                return True, [], []
            if acc != TOP:
                verdicts.append((fr, subj, acc))
    # (2) the same object followed through the hops (argument / receiver binding): its constraints add up
    for per in _tracked_subjects(frames):
        acc = TOP
        for subj, conds in zip(per, conds_of):
            if subj is None:
                continue
            facts = StateFacts(subj)
            for t, pol in conds:
                acc = _inter(acc, facts.when_true(t) if pol else facts.when_false(t))
        if acc[0] and acc[1] <= pending:       # includes the empty set: the hops exclude each other, the CALL is never reached
            return True, [], []
        if acc != TOP:
            first = next(i for i, x in enumerate(per) if x is not None)
            verdicts.insert(0, (frames[first], per[first], acc))
    return False, verdicts, opaque


def r0_syntactic(ctx: Ctx, r: sf.Routine) -> None:
    a = r.ast
    ctx.need(a.rkind == 'trigger' and a.timing == 'BEFORE' and a.event == 'UPDATE' and a.table.lower() == 'attempts', 'attempts_before_update is not BEFORE UPDATE ON attempts')
    where = 'attempts_before_update'

    locals_: Dict[str, str] = {}        # DECLAREd locals: name -> 'time' | 'text' | 'bool'

    def col_ok(n: N) -> Optional[str]:
        if len(n.parts) == 2 and n.parts[0].upper() in ('OLD', 'NEW') and n.parts[1].lower() in COLS:
            return 'text' if n.parts[1].lower() == 'reason' else 'time'
        if len(n.parts) == 1:
            return locals_.get(n.parts[0].lower())
        return None

    def assign(tt: str, t_text: str, v: N) -> None:
        if tt == 'bool':
            af.order_exact_cond(v, where, col_ok)
            return
        vt = af.order_exact_value(v, where, col_ok)
        if vt not in (tt, 'null'):
            raise AnalysisError(f'{where}: `{t_text}` is assigned the {vt} value `{text(v)}` (order abstraction not applicable)')
    selections = 0
    for st in sf.all_statements(a.body):
        if st.kind == 'if':
            for c, _ in st.branches:
                af.order_exact_cond(c, where, col_ok)
        elif st.kind == 'declare':
            lt = af.local_type(st.type)
            if lt is None:
                raise AnalysisError(f'{where}: local variable of type {st.type} is not modelled')
            if st.default is not None:
                assign(lt, ', '.join(st.names), st.default)
            for nm in st.names:
                locals_[nm.lower()] = lt
        elif st.kind == 'set':
            for t, v in st.assigns:
                if t.kind == 'col' and len(t.parts) == 1 and t.parts[0].lower() in locals_:
                    assign(locals_[t.parts[0].lower()], text(t), v)
                    selections += v.kind not in ('col', 'lit')
                    continue
                if not (t.kind == 'col' and len(t.parts) == 2 and t.parts[0].upper() == 'NEW' and t.parts[1].lower() in COLS):
                    raise AnalysisError(f'{where}: assigns `{text(t)}`; only NEW. start_time, end_time, rollup_time, reason are modelled')
                vt = af.order_exact_value(v, where, col_ok)
                tt = 'text' if t.parts[1].lower() == 'reason' else 'time'
                if vt not in (tt, 'null'):
                    raise AnalysisError(f'{where}: `{text(t)}` is assigned the {vt} value `{text(v)}` (order abstraction not applicable)')
                selections += v.kind not in ('col', 'lit')
        else:
            raise AnalysisError(f'{where}: statement kind {st.kind} outside the analysed fragment')
    ctx.extra_cov['trigger_selection_expressions'] = selections
    ctx.ok('R0', f'{r.file}::attempts_before_update::comparisons and copies only', {'selection_expressions': selections, 'typed_locals': dict(locals_)})


def r2_billed_expr(ctx: Ctx, prog: sf.SqlProgram) -> None:
    """The factor each billing trigger multiplies the quantity with (found by its role in the usage value, whatever the local is called)
    denotes f(NEW) - f(OLD) / f(current attempt row) with f = max(rollup - start, 0), 0 for a NULL: compared as a value per ordering class
    (rules/c02.py duration_verdict, engines/attemptfacts.compare_value_expr), so a negative or NULL duration is never billed."""
    from rules import c02 as billing
    for name, kind in (('attempts_after_update', 'update'), ('attempt_resources_after_insert', 'insert')):
        r = prog.routine(name)
        tr = billing.TriggerReader(ctx, prog, r, kind)
        v = billing.duration_verdict(tr, billing.collect_durations(tr))
        if v[0] == 'undecided':
            raise AnalysisError(v[1])
        cons = f'{r.file}::{name}::billed duration'
        if v[0] == 'bad':
            ctx.bad('R2', cons, v[1] + ': a negative, NULL or foreign duration would be billed', r.file, r.line_of(v[2]))
        else:
            ctx.ok('R2', cons, v[1])


def reason_literals(body: List[N]) -> List[str]:
    """String literals the trigger compares a reason column with (they partition the reason domain)."""
    out: List[str] = []
    for st in sf.all_statements(body):
        if st.kind != 'if':
            continue
        for c, _ in st.branches:
            for n in c.walk():
                if n.kind == 'bin' and n.op in ('=', '!=', '<>', '<=>'):
                    for x, y in ((n.left, n.right), (n.right, n.left)):
                        if x.kind == 'col' and x.parts[-1].lower() == 'reason' and y.kind == 'lit' and isinstance(y.value, str) and y.value not in out:
                            out.append(y.value)
                if n.kind == 'in' and n.arg.kind == 'col' and n.arg.parts[-1].lower() == 'reason' and isinstance(n.items, list):
                    for y in n.items:
                        if y.kind == 'lit' and isinstance(y.value, str) and y.value not in out:
                            out.append(y.value)
    return out


def run(ctx: Ctx) -> None:
    ctx.level = 'proof'
    ctx.exhaustive = True
    ctx.explanation = ('Abstract execution of the parsed BEFORE UPDATE trigger over all weak orderings (with NULLs) of OLD timestamps and writer parameters x reason patterns, '
                       'for each writer statement of attempts.{start,end,rollup}_time/reason found in the effective SQL program and embedded SQL; value expressions of the writers '
                       'are evaluated symbolically per ordering class (NULL propagation, max/min normal form).')
    ctx.rule('R0', 'the trigger uses timestamps only via comparisons, IS NULL, copies and order-exact selections (GREATEST/LEAST/COALESCE/IF/CASE, typed locals), so the order domain is exact', 1)
    ctx.rule('R1', 'for every writer and every order/NULL/reason pattern from an Inv-state: clauses (a)-(e) hold on the stored row ((f) no epoch start, (g) an accepted activation timeout bills nothing)', 36)
    ctx.rule('R2', 'billed duration expression is GREATEST(COALESCE(rollup - start, 0), 0) in both billing triggers', 2)
    ctx.rule('R3', 'the four columns are only written through UPDATE attempts; INSERT INTO attempts sets none of them', 1)
    ctx.rule('R4', 'a reason for which the trigger or a writer expression erases a timestamp (activation timeout: bills nothing) is reported only on call chains that establish that the instance never activated', 1)
    ctx.assume('MySQL BEFORE UPDATE: NEW = OLD overlaid with the SET list (single-table UPDATE: assignments apply left to right); the trigger may rewrite NEW; the stored row is NEW after the trigger')
    ctx.assume('max(r - s, 0) is monotone in r and antitone in s (the only arithmetic fact used)')
    ctx.assume('MySQL: + - GREATEST LEAST return NULL if any argument is NULL; COALESCE/IFNULL return the first non-NULL argument; IF()/CASE take the first branch whose condition is TRUE (NULL counts as not true); reported timestamps are positive (a literal 0 is below all of them)')
    ctx.assume('R4: the in-memory instance state tested by the driver is not changed between the test and the CALL (no activation in between)')
    prog = sf.load_program()
    trig = prog.routine('attempts_before_update')
    r0_syntactic(ctx, trig)
    body = trig.ast.body
    zeroing = af.zeroing_reasons(body)
    special = reason_literals(body)
    ws = find_writers(ctx, prog)
    af.refine_from_callers(ctx, prog, ws)
    ctx.need(len(ws) >= 7, f'only {len(ws)} writers of attempts found')
    for w in ws:
        special += [l for l in w.reason_lits if l not in special]      # literals a writer's own SET expressions test the reason against
    total = 0
    erased: Dict[str, Set[str]] = {}
    declines: List[str] = []
    for w in ws:
        total += check_writer(ctx, body, w, special, trig.file, zeroing, erased, declines)
    # reasons the code singles out (a literal in the trigger or in a writer expression) AND for which a timestamp is actually erased on some transition:
    # whatever form the erasure takes (IF statement, IF()/CASE expression, in the trigger or in the writer), R4 applies to them
    erasing = {lit: list(cols) for lit, cols in zeroing.items()}
    for lit in special:
        for c in sorted(erased.get(lit, ())):
            if c not in erasing.setdefault(lit, []):
                erasing[lit].append(c)
    ctx.unit('writer_statements', len(ws))
    ctx.unit('abstract_executions', total)
    ctx.extra_cov['writers'] = [{'writer': w.wid, 'sets': w.sets, 'call_chains': [{'chain': l, 'param_classes': c, 'fresh_attempt': f, 'reasons': sorted(map(str, r)) if r is not None else 'any'}
                                                                                   for l, c, f, r in w.variants]} for w in ws]
    ctx.extra_cov['reason_literals_in_trigger'] = special
    ctx.extra_cov['timestamp_erasing_reasons'] = erasing
    # a violation established by one group of rules must not be hidden by an unrecognised shape in another: declines are raised last
    for grp in (lambda: r2_billed_expr(ctx, prog), lambda: r4_zeroing_reason_precondition(ctx, prog, trig, ws, erasing, special)):
        try:
            grp()
        except AnchorRemoved:
            raise
        except AnalysisError as e:
            declines.append(str(e))
    if declines:
        raise AnalysisError(declines[0])
