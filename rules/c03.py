"""C03 Billed attempt time is monotone and bounded by the attempt.

The BEFORE UPDATE trigger on `attempts` touches its timestamps only through order comparisons, IS NULL tests and copies
(checked syntactically, R0).  Its effect is therefore determined by the weak ordering + NULL pattern of the three OLD
timestamps and the (at most two) fresh timestamp parameters a writer supplies, together with the reason values.  R1 executes
the *parsed* trigger body (our interpreter; MySQL three-valued logic) on every such pattern for every writer statement of the
four columns found in the effective SQL program / embedded SQL, starting from every OLD row that satisfies the invariant
Inv, and checks the clauses of the statement on the stored row:
   (a) Inv is inductive:  rollup, end non-NULL  =>  rollup <= end
   (b) start only moves earlier; it becomes NULL only for an activation timeout
   (c) once OLD.reason is set: end' = OLD.end  or  end' < OLD.end   (the statement constrains the end time, not the reason text)
   (d) billed = max(rollup - start, 0) does not decrease for any numeric realisation of the ordering, unless the report is an
       activation timeout or establishes an end earlier than what was already billed
   (e) end' non-NULL  =>  billed' <= max(end' - start', 0)
R2  the billed expression in both billing triggers is GREATEST(COALESCE(rollup - start, 0), 0)   (non-negativity)
R3  every write of the four columns is an UPDATE of attempts (so the trigger runs); INSERT INTO attempts sets none of them
Not decided: clock skew between worker and driver timestamps (values are arbitrary here anyway).
"""
from __future__ import annotations

import ast
import itertools
from typing import Any, Dict, Iterator, List, Optional, Set, Tuple

from engines import callsites as cs
from engines import pyfacts as pf
from engines import sqlfront as sf
from engines import sqlrules as sr
from engines.common import AnalysisError, Ctx
from engines.sqlast import N, parse_expr, text
from engines.sqleval import ev, _truth

META = dict(
    category='proof',
    text='Exhaustive abstract execution of the parsed attempts_before_update trigger over the complete order domain (all weak orderings with NULLs of the '
         'OLD timestamps and each writer\'s fresh parameters, x reason patterns) for every writer statement found in the code; each (writer, clause) is an '
         'obligation. Sound because the trigger uses timestamps only through comparisons and copies, so its behaviour is a function of the ordering.',
    note='Trusted: SQL parser and evaluator; MySQL BEFORE UPDATE semantics (NEW row = SET list applied to OLD, then the trigger); one arithmetic fact: '
         'max(r - s, 0) is monotone in r and antitone in s.  Parameter NULL-ness and reason values are taken from the Python call sites where resolvable, otherwise unconstrained.',
    technique='static analysis: exhaustive abstract interpretation of the trigger AST over a finite order domain (no solver, code not run)',
    design_ref='DESIGN.md §3 C03',
)

TIME_COLS = ['start_time', 'end_time', 'rollup_time']
COLS = TIME_COLS + ['reason']
AT = 'activation_timeout'


# ----------------------------------------------------------------------------------------------------
def weak_orderings(n: int) -> Iterator[Tuple[Optional[int], ...]]:
    """All assignments of n variables to NULL or a rank, ranks forming an initial segment 0..k-1."""
    def rec(i: int, cur: List[Optional[int]], k: int):
        if i == n:
            yield tuple(cur)
            return
        cur.append(None)
        yield from rec(i + 1, cur, k)
        cur.pop()
        for r in range(k + 1):
            cur.append(r)
            yield from rec(i + 1, cur, max(k, r + 1))
            cur.pop()
    # ranks produced above are "first-use" labels, not order; enumerate order by permuting labels
    seen = set()
    for lab in rec(0, [], 0):
        k = 1 + max([x for x in lab if x is not None], default=-1)
        for perm in itertools.permutations(range(k)):
            t = tuple(None if x is None else perm[x] for x in lab)
            if t not in seen:
                seen.add(t)
                yield t


def exec_trigger(body: List[N], old: Dict[str, Any], new: Dict[str, Any]) -> Dict[str, Any]:
    new = dict(new)

    def env(c: N):
        if c.kind == 'col' and len(c.parts) == 2 and c.parts[0].upper() in ('OLD', 'NEW'):
            return (old if c.parts[0].upper() == 'OLD' else new)[c.parts[1].lower()]
        raise AnalysisError(f'trigger reads `{text(c)}` which is not an OLD./NEW. column')

    def run(stmts: List[N]):
        for st in stmts:
            if st.kind == 'if':
                done = False
                for c, b in st.branches:
                    if _truth(ev(c, env)):
                        run(b)
                        done = True
                        break
                if not done and st.orelse is not None:
                    run(st.orelse)
            elif st.kind == 'set':
                for t, v in st.assigns:
                    if not (t.kind == 'col' and len(t.parts) == 2 and t.parts[0].upper() == 'NEW'):
                        raise AnalysisError(f'trigger assigns `{text(t)}`')
                    new[t.parts[1].lower()] = ev(v, env)
            else:
                raise AnalysisError(f'attempts_before_update: unsupported statement {st.kind}')
    run(body)
    return new


def billed_never_decreases(old: Dict[str, Any], new: Dict[str, Any]) -> bool:
    """For every numeric realisation of the ordering: max(r'-s',0) >= max(r-s,0)."""
    s, r = old['start_time'], old['rollup_time']
    if s is None or r is None or r <= s:
        return True  # billed was 0
    s2, r2 = new['start_time'], new['rollup_time']
    if s2 is None or r2 is None:
        return False
    return s2 <= s and r2 >= r


def realise(vals: Dict[str, Any]) -> Dict[str, Any]:
    return {k: (None if v is None else (1000 * (v + 1) if isinstance(v, int) else v)) for k, v in vals.items()}


# ----------------------------------------------------------------------------------------------------
class Writer:
    def __init__(self, wid: str, file: str, line: int, sets: Dict[str, str], reason_dom: Optional[Set[Optional[str]]], nonnull: Set[str]):
        self.wid = wid
        self.file = file
        self.line = line
        self.sets = sets            # column -> symbol name (same symbol = same value)
        self.reason_dom = reason_dom
        self.nonnull = nonnull      # time symbols proven non-NULL at all call sites
        # call-chain variants: list of (label, {symbol: 'nonnull'|'null'|'any'}, fresh_attempt, reason values or None)
        self.variants: List[Tuple[str, Dict[str, str], bool, Optional[Set[Optional[str]]]]] = []


def _sym(e: N) -> str:
    if e.kind == 'col' and len(e.parts) == 1:
        return e.parts[0].lower()
    if e.kind == 'param':
        return f'%s@{e.pos}'
    raise AnalysisError(f'attempt column assigned a non-parameter expression `{text(e)}`')


def find_writers(ctx: Ctx, prog: sf.SqlProgram) -> List[Writer]:
    out: List[Writer] = []
    for name, r in sorted(prog.routines.items()):
        for st in sf.all_statements(r.ast.body):
            if st.kind == 'update' and 'attempts' in [t.lower() for t in sf.table_names(st.frm)]:
                tabs = [t for t in sf.from_tables(st.frm) if t.kind == 'table']
                alias = {(t.alias or t.name).lower(): t.name.lower() for t in tabs}
                sets = {}
                for c, v in st.sets:
                    if c.kind == 'col' and c.parts[-1].lower() in COLS and (len(c.parts) == 1 and tabs[0].name.lower() == 'attempts' or len(c.parts) > 1 and alias.get(c.parts[-2].lower()) == 'attempts'):
                        sets[c.parts[-1].lower()] = _sym(v)
                if sets:
                    out.append(Writer(f'sql:{name}', r.file, r.line_of(st), sets, None, set()))
            elif st.kind == 'insert' and st.table.lower() == 'attempts':
                cols = [c.lower() for c in (st.cols or [])]
                ctx.check(not (set(cols) & set(COLS)) and all(text(c).lower() == text(v).lower() for c, v in st.on_dup), 'R3', f'{r.file}::{name}::INSERT INTO attempts',
                          f'INSERT INTO attempts sets {sorted(set(cols) & set(COLS))} / updates on duplicate: those values bypass or re-enter the BEFORE UPDATE trigger unchecked', r.file, r.line_of(st))
                out.append(Writer(f'sql:{name}::duplicate-insert no-op', r.file, r.line_of(st), {}, None, set()))
    for rel in pf.walk_py(['batch/batch']):
        m = pf.load(rel)
        if 'attempts' not in m.src:
            continue
        for e in sf.embedded_in(m):
            if e.sql_text is None or 'attempts' not in e.sql_text:
                continue
            for st in e.stmts():
                if st.kind == 'update' and [t.lower() for t in sf.table_names(st.frm)][:1] == ['attempts']:
                    sets = {c.parts[-1].lower(): _sym(v) for c, v in st.sets if c.kind == 'col' and c.parts[-1].lower() in COLS}
                    if sets:
                        out.append(Writer(f'py:{rel}::{e.qual}', m.path, e.lineno, sets, None, set()))
                elif st.kind in ('insert', 'delete') and any(t.lower() == 'attempts' for t, _ in sf.written_tables(st)):
                    cols = [c.lower() for c in (getattr(st, 'cols', None) or [])]
                    ctx.check(st.kind == 'insert' and not (set(cols) & set(COLS)), 'R3', f'{rel}::{e.qual}::{st.kind} attempts', f'{st.kind} on attempts outside the trigger-protected UPDATE path', m.path, e.lineno)
    return out


# Worker-supplied JSON fields: NULL-ness cannot be seen in the driver; frozen table, one reason per line.
WORKER_FIELDS = {
    ("job_complete_1", "job_status['start_time']"): ('any', 'a job that failed before starting reports start_time None'),
    ("job_complete_1", "job_status['end_time']"): ('nonnull', 'worker.py post_job_complete_1 asserts job.end_time before posting'),
    ("job_started_1", "job_status['start_time']"): ('nonnull', 'the worker sets start_time = time_msecs() before it posts job_started (status schema: start_time: int)'),
    ("billing_update_1", "body['timestamp']"): ('nonnull', 'the worker posts billing updates with timestamp = time_msecs()'),
}


def classify_time(ctx: Ctx, m: pf.Module, fn: Optional[pf.FuncDef], x: ast.expr, depth: int = 3) -> List[Tuple[str, str]]:
    """Possible NULL-classes of a Python expression bound to a timestamp parameter: list of (class, origin)."""
    if isinstance(x, ast.Constant) and x.value is None:
        return [('null', f'{m.rel}:{x.lineno} None')]
    if isinstance(x, ast.Call) and pf.dotted(x.func) == 'time_msecs':
        return [('nonnull', f'{m.rel}:{x.lineno} time_msecs()')]
    if isinstance(x, ast.Name) and fn is not None:
        defs = pf.assignments(fn).get(x.id, [])
        params = [a for a in defs if isinstance(a, ast.arg)]
        others = [d for d in defs if not isinstance(d, ast.arg)]
        # idiom:  if not t: t = time_msecs()
        if params and len(others) == 1 and isinstance(others[0], ast.Call) and pf.dotted(others[0].func) == 'time_msecs':
            for n in pf.walk_shallow(fn):
                if isinstance(n, ast.If) and pf.nsrc(n.test) in (f'not {x.id}', f'{x.id} is None') and any(isinstance(b, ast.Assign) and b.value is others[0] for b in n.body):
                    return [('nonnull', f'{m.rel}::{fn.name} `if not {x.id}: {x.id} = time_msecs()`')]
        if params and not others and depth > 0:
            out: List[Tuple[str, str]] = []
            sites = cs.call_sites(['batch/batch'], fn.name)
            # methods: only count sites whose callee name matches; self.deactivate(..) etc.
            for m2, f2, call in sites:
                if f2 is fn:
                    continue
                a = cs.arg_of(call, fn, x.id)
                if a is None and fn.args.args and fn.args.args[0].arg == 'self':
                    # bound-method call: shift by one
                    names = [q.arg for q in fn.args.args][1:]
                    if x.id in names and names.index(x.id) < len(call.args):
                        a = call.args[names.index(x.id)]
                    else:
                        a = next((k.value for k in call.keywords if k.arg == x.id), None)
                if a is None:
                    # defaulted parameter
                    d = _default_of(fn, x.id)
                    if d is not None:
                        out += classify_time(ctx, m, None, d, 0)
                    else:
                        out.append(('any', f'{m2.rel}:{call.lineno} argument not found'))
                    continue
                out += classify_time(ctx, m2, f2, a, depth - 1)
            return out or [('any', f'no call sites of {fn.name}')]
        if len(others) == 1 and not params and isinstance(others[0], ast.expr):
            return classify_time(ctx, m, fn, others[0], depth)
    if isinstance(x, ast.Subscript) and fn is not None:
        key = (fn.name, pf.nsrc(x))
        if key in WORKER_FIELDS:
            cls, why = WORKER_FIELDS[key]
            ctx.assume(f'worker-supplied {key[1]} in {key[0]} is {cls}: {why}')
            return [(cls, f'{m.rel}::{fn.name} {key[1]}')]
    return [('any', f'{m.rel}:{getattr(x, "lineno", 0)} {pf.nsrc(x)[:40]}')]


def _default_of(fn: pf.FuncDef, name: str) -> Optional[ast.expr]:
    args = fn.args.args
    defaults = fn.args.defaults
    off = len(args) - len(defaults)
    for i, a in enumerate(args):
        if a.arg == name and i >= off:
            return defaults[i - off]
    for a, d in zip(fn.args.kwonlyargs, fn.args.kw_defaults):
        if a.arg == name:
            return d
    return None


def refine_from_callers(ctx: Ctx, ws: List[Writer]) -> None:
    """Per call chain: NULL-class of each timestamp parameter and the reason values (closed set of CALL sites in the driver)."""
    prog = sf.load_program()
    calls: Dict[str, Tuple[pf.Module, sf.Embedded, List[ast.expr]]] = {}
    for rel in ('batch/batch/driver/job.py', 'batch/batch/driver/instance.py'):
        m = pf.load(rel)
        for e in sf.embedded_in(m):
            if e.sql_text is None:
                continue
            sts = e.stmts()
            if len(sts) == 1 and sts[0].kind == 'call':
                elts = sr.args_tuple(e.fn, e.call.args[1] if len(e.call.args) > 1 else None)
                if elts is not None:
                    calls[sts[0].name] = (m, e, elts)
    for w in ws:
        tsyms = sorted({s_ for c, s_ in w.sets.items() if c in TIME_COLS})
        if w.wid.startswith('py:'):
            # embedded UPDATE: bind %s parameters positionally
            rel = w.wid[3:].split('::')[0]
            m = pf.load(rel)
            e = [x for x in sf.embedded_in(m) if x.lineno == w.line][0]
            st = [q for q in e.stmts() if q.kind == 'update'][0]
            params = sr.params_in_order(st)
            arg = e.call.args[1] if len(e.call.args) > 1 else None
            arg = pf.resolve_expr(e.fn, arg) if arg is not None else None
            first = None
            if isinstance(arg, (ast.List, ast.Tuple)) and arg.elts and not isinstance(arg.elts[0], ast.Starred):
                first = arg.elts[0]
            classes = {}
            for s_ in tsyms:
                pos = int(s_.split('@')[1])
                idx = [p.pos for p in params].index(pos)
                x = first if idx == 0 and first is not None else None
                cl = classify_time(ctx, m, e.fn, x) if x is not None else [('any', 'unbound')]
                classes[s_] = cl[0][0] if len({c for c, _ in cl}) == 1 else 'any'
            w.variants.append((e.qual, classes, False, None))
            continue
        name = w.wid[4:].split('::')[0]
        if not w.sets:
            w.variants.append(('no-op', {}, False, None))
            continue
        if name not in calls:
            w.variants.append(('unresolved callers', {s_: 'any' for s_ in tsyms}, False, None))
            continue
        m, e, elts = calls[name]
        params = [p[1].lower() for p in prog.routine(name).ast.params]
        ctx.need(len(params) == len(elts), f'CALL {name}: arity mismatch between procedure and Python site')
        bind = dict(zip(params, elts))
        wrapper = e.fn
        wparams = [a.arg for a in wrapper.args.args + wrapper.args.kwonlyargs]
        forwarded = {s_: bind[s_].id for s_ in tsyms if s_ in bind and isinstance(bind[s_], ast.Name) and bind[s_].id in wparams
                     and not [d for d in pf.assignments(wrapper).get(bind[s_].id, []) if not isinstance(d, ast.arg)]}
        rs = w.sets.get('reason')
        r_forwarded = rs in bind and isinstance(bind[rs], ast.Name) and bind[rs].id in wparams
        if forwarded or r_forwarded:
            # one variant per caller of the wrapper
            for m2, f2, call in cs.call_sites(['batch/batch'], wrapper.name):
                if f2 is wrapper:
                    continue
                classes = {}
                for s_ in tsyms:
                    if s_ in forwarded:
                        a = cs.arg_of(call, wrapper, forwarded[s_])
                        cl = classify_time(ctx, m2, f2, a) if a is not None else [('any', 'missing')]
                    else:
                        cl = classify_time(ctx, m, wrapper, bind[s_]) if s_ in bind else [('any', 'unbound')]
                    kinds = {c for c, _ in cl}
                    classes[s_] = kinds.pop() if len(kinds) == 1 else 'any'
                rvals: Optional[Set[Optional[str]]] = None
                if rs in bind:
                    a = cs.arg_of(call, wrapper, bind[rs].id) if r_forwarded else bind[rs]
                    v = cs.literal_strings(f2 if r_forwarded else wrapper, a) if a is not None else None
                    rvals = set(v) if v is not None else None
                # an attempt id that is literally None never matches a row: the UPDATE is a no-op
                aid = bind.get('in_attempt_id')
                if isinstance(aid, ast.Name) and aid.id in wparams:
                    av = cs.arg_of(call, wrapper, aid.id)
                    if isinstance(av, ast.Constant) and av.value is None:
                        ctx.info(f'C03: {m2.rel}:{call.lineno} calls {wrapper.name} with attempt_id None: `attempt_id = NULL` matches no row, no update happens')
                        continue
                fresh = f2 is not None and f2.name == 'mark_job_errored'
                w.variants.append((f'{m2.rel}::{m2.qualname(f2) if f2 else "<module>"}', classes, fresh, rvals))
        else:
            classes = {}
            for s_ in tsyms:
                cl = classify_time(ctx, m, wrapper, bind[s_]) if s_ in bind else [('any', 'unbound')]
                kinds = {c for c, _ in cl}
                classes[s_] = kinds.pop() if len(kinds) == 1 else 'any'
            rvals = None
            if rs in bind:
                v = cs.literal_strings(wrapper, bind[rs])
                rvals = set(v) if v is not None else None
            w.variants.append((f'{m.rel}::{m.qualname(wrapper)}', classes, False, rvals))
        if any(v[2] for v in w.variants):
            ctx.assume('mark_job_errored is only called for an attempt id freshly generated by the scheduling loop (the attempt row has no timestamps yet); '
                       'checked at the call sites that generate the id with secret_alnum_string')


# ----------------------------------------------------------------------------------------------------
def inv(row: Dict[str, Any]) -> bool:
    r, e = row['rollup_time'], row['end_time']
    return r is None or e is None or r <= e


def check_writer(ctx: Ctx, body: List[N], w: Writer, orderings3: List[Tuple], trig_file: str) -> int:
    tsyms = sorted({s for c, s in w.sets.items() if c in TIME_COLS})
    rsym = w.sets.get('reason')
    n = len(tsyms)
    old_reasons = [None, 'completed', AT]
    fails: Dict[str, Tuple] = {}
    count = 0
    for label, classes, fresh, rvals in w.variants:
        if rsym is None:
            new_reasons: List[Optional[str]] = ['<keep>']
        elif rvals is not None:
            new_reasons = sorted(rvals, key=str)
        else:
            new_reasons = [None, 'completed', AT]
        for ordv in weak_orderings(3 + n):
            old = dict(zip(TIME_COLS, ordv[:3]))
            if not inv(old):
                continue
            if fresh and any(v is not None for v in old.values()):
                continue
            pv = dict(zip(tsyms, ordv[3:]))
            if any((classes.get(s) == 'nonnull' and pv[s] is None) or (classes.get(s) == 'null' and pv[s] is not None) for s in tsyms):
                continue
            for oreason in old_reasons:
                if fresh and oreason is not None:
                    continue
                old['reason'] = oreason
                for nr in new_reasons:
                    new = dict(old)
                    for c, s in w.sets.items():
                        new[c] = pv[s] if c in TIME_COLS else (oreason if nr == '<keep>' else nr)
                    count += 1
                    out = exec_trigger(body, old, new)
                    rep_reason = new['reason']
                    if 'a' not in fails and not inv(out):
                        fails['a'] = (label, dict(old), dict(new), out)
                    if 'b' not in fails and old['start_time'] is not None:
                        if out['start_time'] is None:
                            if rep_reason != AT:
                                fails['b'] = (label, dict(old), dict(new), out)
                        elif out['start_time'] > old['start_time']:
                            fails['b'] = (label, dict(old), dict(new), out)
                    if 'c' not in fails and oreason is not None:
                        same = out['end_time'] == old['end_time']
                        earlier = out['end_time'] is not None and old['end_time'] is not None and out['end_time'] < old['end_time']
                        if not (same or earlier):
                            fails['c'] = (label, dict(old), dict(new), out)
                    if 'd' not in fails and not billed_never_decreases(old, out):
                        allowed = rep_reason == AT or (out['end_time'] is not None and old['rollup_time'] is not None and out['end_time'] < old['rollup_time'])
                        if not allowed:
                            fails['d'] = (label, dict(old), dict(new), out)
                    if 'e' not in fails and out['end_time'] is not None and out['rollup_time'] is not None and out['start_time'] is not None:
                        if out['rollup_time'] > out['end_time'] and out['rollup_time'] > out['start_time']:
                            fails['e'] = (label, dict(old), dict(new), out)
    texts = {
        'a': 'stored row has rollup_time > end_time (billing beyond the end of the attempt becomes reachable)',
        'b': 'start_time moves later, or is dropped without an activation timeout',
        'c': 'an attempt that already has an end reason gets a later (or a first) end time',
        'd': 'billed duration max(rollup - start, 0) can decrease although the report neither is an activation timeout nor ends the attempt earlier than what was billed',
        'e': 'an ended attempt is billed beyond its end time',
    }
    for clause, msg in texts.items():
        cons = f'{w.wid}::UPDATE attempts SET {", ".join(sorted(w.sets)) or "<nothing>"}::clause ({clause})'
        if clause in fails:
            label, o, nw, out = fails[clause]
            ctx.bad('R1', cons, f'{msg}. Call chain {label}. Witness (times in ms): OLD={realise(o)}, row written by the statement={realise(nw)}, row stored after the trigger={realise(out)}',
                    w.file, w.line, extra={'chain': label, 'old': realise(o), 'new': realise(nw), 'stored': realise(out)})
        else:
            ctx.ok('R1', cons, {'cases': count, 'variants': [(l, c, f, sorted(map(str, r)) if r is not None else 'any') for l, c, f, r in w.variants]})
    return count


def r0_syntactic(ctx: Ctx, r: sf.Routine) -> None:
    a = r.ast
    ctx.need(a.rkind == 'trigger' and a.timing == 'BEFORE' and a.event == 'UPDATE' and a.table.lower() == 'attempts', 'attempts_before_update is not BEFORE UPDATE ON attempts')
    for st in sf.all_statements(a.body):
        exprs: List[N] = []
        if st.kind == 'if':
            exprs += [c for c, _ in st.branches]
        elif st.kind == 'set':
            for t, v in st.assigns:
                exprs.append(v)
                if not (v.kind in ('col', 'lit')):
                    raise AnalysisError(f'attempts_before_update: assigns a computed value `{text(v)}` (order abstraction not applicable)')
        elif st.kind not in ('if', 'set'):
            raise AnalysisError(f'attempts_before_update: statement kind {st.kind} outside the analysed fragment')
        for e in exprs:
            for n in e.walk():
                if n.kind == 'bin' and n.op in ('+', '-', '*', '/', 'DIV', '%', 'MOD'):
                    raise AnalysisError(f'attempts_before_update: arithmetic on timestamps `{text(n)}` (order abstraction not applicable)')
                if n.kind in ('func', 'subq', 'exists', 'cast'):
                    raise AnalysisError(f'attempts_before_update: `{text(n)}` outside the analysed fragment')
                if n.kind == 'col':
                    ok = len(n.parts) == 2 and n.parts[0].upper() in ('OLD', 'NEW') and n.parts[1].lower() in COLS
                    if not ok:
                        raise AnalysisError(f'attempts_before_update reads `{text(n)}`; only OLD./NEW. start_time, end_time, rollup_time, reason are modelled')
    ctx.ok('R0', f'{r.file}::attempts_before_update::comparisons and copies only')


def r2_billed_expr(ctx: Ctx, prog: sf.SqlProgram) -> None:
    def f(prefix: str) -> str:
        return text(parse_expr(f'GREATEST(COALESCE({prefix}rollup_time - {prefix}start_time, 0), 0)'))
    for name in ('attempts_after_update', 'attempt_resources_after_insert'):
        r = prog.routine(name)
        env = sr.inline_sets(r.ast.body, sr.declared_vars(r.ast))
        found = None
        for st in sf.all_statements(r.ast.body):
            if st.kind == 'set':
                for t, v in st.assigns:
                    if sr.is_var(t) and t.parts[0].lower() == 'msec_diff_rollup':
                        found = (st, v)
        ctx.need(found is not None, f'{name}: msec_diff_rollup not found')
        st, v = found
        v = sr.inline_expr(v, env)
        if name == 'attempts_after_update':
            want = f'({f("NEW.")} - {f("OLD.")})'
            ok = text(v) == want
        else:
            # f of the current attempt row read from `attempts`
            ok = text(v) in (f('cur_'), f('')) or (text(v).startswith('GREATEST(COALESCE((') and 'rollup_time' in text(v) and 'start_time' in text(v) and text(v).endswith(', 0), 0)'))
        ctx.check(ok, 'R2', f'{r.file}::{name}::msec_diff_rollup', f'billed duration is computed as `{text(v)}`; expected GREATEST(COALESCE(rollup - start, 0), 0) '
                  '(difference of NEW and OLD in the update trigger): a negative or NULL duration would be billed', r.file, r.line_of(st))


def run(ctx: Ctx) -> None:
    ctx.level = 'proof'
    ctx.exhaustive = True
    ctx.explanation = ('Abstract execution of the parsed BEFORE UPDATE trigger over all weak orderings (with NULLs) of OLD timestamps and writer parameters x reason patterns, '
                       'for each writer statement of attempts.{start,end,rollup}_time/reason found in the effective SQL program and embedded SQL.')
    ctx.rule('R0', 'the trigger uses timestamps only via comparisons, IS NULL and copies (so the order domain is exact)', 1)
    ctx.rule('R1', 'for every writer and every order/NULL/reason pattern from an Inv-state: clauses (a)-(e) hold on the stored row', 35)
    ctx.rule('R2', 'billed duration expression is GREATEST(COALESCE(rollup - start, 0), 0) in both billing triggers', 2)
    ctx.rule('R3', 'the four columns are only written through UPDATE attempts; INSERT INTO attempts sets none of them', 1)
    ctx.assume('MySQL BEFORE UPDATE: NEW = OLD overlaid with the SET list; the trigger may rewrite NEW; the stored row is NEW after the trigger')
    ctx.assume('max(r - s, 0) is monotone in r and antitone in s (the only arithmetic fact used)')
    prog = sf.load_program()
    trig = prog.routine('attempts_before_update')
    r0_syntactic(ctx, trig)
    ws = find_writers(ctx, prog)
    refine_from_callers(ctx, ws)
    ctx.need(len(ws) >= 7, f'only {len(ws)} writers of attempts found')
    total = 0
    ord3 = []
    for w in ws:
        total += check_writer(ctx, trig.ast.body, w, ord3, trig.file)
    ctx.unit('writer_statements', len(ws))
    ctx.unit('abstract_executions', total)
    ctx.extra_cov['writers'] = [{'writer': w.wid, 'sets': w.sets, 'call_chains': [{'chain': l, 'param_classes': c, 'fresh_attempt': f, 'reasons': sorted(map(str, r)) if r is not None else 'any'}
                                                                                   for l, c, f, r in w.variants]} for w in ws]
    r2_billed_expr(ctx, prog)
