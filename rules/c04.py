"""C04 Jobs follow the lifecycle and complete at most once.

  R1  transition relation: every statement that writes jobs.state (effective SQL routines + SQL embedded in Python) is taken with its
      from-set (states admitted by its path condition / WHERE on the state read FOR UPDATE for the same key) and its to-set (literal,
      IF arms, or the `new_state` parameter whose values are enumerated from the Python call sites); from x to must lie in the
      relation of the statement.  Terminal states have no outgoing edge; Pending only goes to Ready.
  R2  once-only tallies: the completed/cancelled/failed/succeeded increments sit in the branch that writes the terminal state, that
      branch requires the job to be Ready/Creating/Running as read FOR UPDATE in the same transaction, the stale-attempt branch comes
      first and writes nothing, the already-terminal branch writes nothing; nobody else increments the tallies.
  R3  Python mirror: driver mark_job_complete returns before notifying when rc != 0 or the old state is already complete;
      complete_states equals the terminal set.
Not decided: duplicate/reordered message histories as such; these are the obligations that make each message idempotent.
"""
from __future__ import annotations

import ast
from typing import Dict, List, Optional, Set, Tuple

from engines import callsites as cs
from engines import pyfacts as pf
from engines import sqlfront as sf
from engines import sqlrules as sr
from engines.common import AnalysisError, Ctx
from engines.sqlast import N, text
from engines.sqleval import UNKNOWN, may

META = dict(
    category='other',
    text='Closed enumeration of every writer of jobs.state with the from/to sets induced by its guards, checked against the lifecycle relation, '
         'plus structural once-only obligations on the completion tallies. Static because the relation is determined by the guards in the SQL text.',
    note='Two writers have no syntactic from-constraint and rely on a data invariant (children of a non-terminal job are Pending; jobs of an '
         'uncommitted later update are Pending); they are frozen exceptions whose structural preconditions are checked. Trusted: SQL parser, migration replay.',
    technique='static analysis: writer enumeration over the SQL program + guard may-analysis + call-site value enumeration',
    design_ref='DESIGN.md §3 C04',
)

STATES = ['Pending', 'Ready', 'Creating', 'Running', 'Success', 'Failed', 'Error', 'Cancelled']
TERMINAL = {'Success', 'Failed', 'Error', 'Cancelled'}
ALLOWED: Dict[str, Set[str]] = {
    'Pending': {'Ready'},
    'Ready': {'Creating', 'Running'} | TERMINAL,
    'Creating': {'Running', 'Ready'} | TERMINAL,
    'Running': {'Ready'} | TERMINAL,
    'Success': set(), 'Failed': set(), 'Error': set(), 'Cancelled': set(),
}
TALLY_TBL = 'job_groups_n_jobs_in_complete_states'
TALLIES = ['n_completed', 'n_cancelled', 'n_failed', 'n_succeeded']
PY_DIRS = ['batch/batch']


def state_sets(st: N) -> Optional[N]:
    """The expression assigned to jobs.state by an UPDATE, or None."""
    if st.kind != 'update':
        return None
    tabs = [t for t in sf.from_tables(st.frm) if t.kind == 'table']
    if not tabs:
        return None
    alias = {(t.alias or t.name).lower(): t.name.lower() for t in tabs}
    for c, v in st.sets:
        if c.kind != 'col' or c.parts[-1].lower() != 'state':
            continue
        if len(c.parts) > 1:
            if alias.get(c.parts[-2].lower()) == 'jobs':
                return v
        elif tabs[0].name.lower() == 'jobs':
            return v
    return None


def to_values(e: N, param_domain: Dict[str, Set[str]]) -> Set[str]:
    if e.kind == 'lit' and isinstance(e.value, str):
        return {e.value}
    if e.kind == 'func' and e.name == 'IF' and len(e.args) == 3:
        return to_values(e.args[1], param_domain) | to_values(e.args[2], param_domain)
    if e.kind == 'col' and len(e.parts) == 1 and e.parts[0].lower() in param_domain:
        return set(param_domain[e.parts[0].lower()])
    if e.kind == 'col' and e.parts[-1].lower() == 'state':
        return {'<unchanged>'}
    raise AnalysisError(f'jobs.state is assigned an expression whose values cannot be enumerated: {text(e)}')


def state_vars(routine: N, key: Tuple[str, str]) -> Dict[str, str]:
    """variables bound to jobs.state by `SELECT state.. INTO v.. FROM jobs WHERE batch_id = <key0> AND job_id = <key1> FOR UPDATE`."""
    out: Dict[str, str] = {}
    for st in sf.all_statements(routine.body):
        if st.kind == 'select' and st.into and st.frm is not None and [t.lower() for t in sf.table_names(st.frm)] == ['jobs']:
            if sr.has_eq(st.where, 'batch_id', key[0]) and sr.has_eq(st.where, 'job_id', key[1]):
                for (c, _), v in zip(st.cols, st.into):
                    if c.kind == 'col' and c.parts[-1].lower() == 'state' and sr.is_var(v):
                        out[v.parts[0].lower()] = st.lock
    return out


def from_states(st: N, guard, svars: Dict[str, str]) -> Tuple[Set[str], bool]:
    """States s for which the path condition and the WHERE may hold; second result: was any state constraint present."""
    out = set()
    constrained = False
    for s in STATES:
        def known_guard(n: N):
            if n.kind == 'col' and len(n.parts) == 1 and n.parts[0].lower() in svars:
                return s
            return UNKNOWN

        def known_where(n: N):
            if n.kind == 'col' and n.parts[-1].lower() == 'state' and (len(n.parts) == 1 or n.parts[-2].lower() == 'jobs'):
                return s
            return UNKNOWN
        ok = True
        for c, pol in guard:
            if pol not in may(c, known_guard):
                ok = False
        if st.where is not None and True not in may(st.where, known_where):
            ok = False
        if ok:
            out.add(s)
    constrained = len(out) < len(STATES)
    return out, constrained


def new_state_domain(ctx: Ctx) -> Tuple[Set[str], List[str]]:
    """Values reaching the `new_state` argument of CALL mark_job_complete."""
    m = pf.load('batch/batch/driver/job.py')
    embs = [e for e in sf.embedded_in(m) if e.sql_text and 'CALL mark_job_complete' in e.sql_text]
    ctx.need(len(embs) == 1, 'driver/job.py: CALL mark_job_complete site not found exactly once')
    e = embs[0]
    st = e.stmts()[0]
    ctx.need(st.kind == 'call' and len(st.args) == 10, 'CALL mark_job_complete arity changed')
    elts = sr.args_tuple(e.fn, e.call.args[1])
    ctx.need(elts is not None and len(elts) == 10, 'CALL mark_job_complete: argument tuple not recognised')
    prog = sf.load_program()
    params = [p[1].lower() for p in prog.routine('mark_job_complete').ast.params]
    idx = params.index('new_state')
    arg = elts[idx]
    ctx.need(isinstance(arg, ast.Name) and e.fn is not None and arg.id in [a.arg for a in e.fn.args.args], 'new_state is not forwarded from a parameter of the Python wrapper')
    return cs.param_values(PY_DIRS, m, e.fn, arg.id)


def r1(ctx: Ctx, prog: sf.SqlProgram) -> None:
    dom, sites = new_state_domain(ctx)
    ctx.extra_cov['new_state_call_sites'] = sites
    cons0 = 'batch/batch/driver::callers of mark_job_complete'
    ctx.check(dom <= TERMINAL, 'R1', cons0 + '::new_state domain', f'a caller passes new_state in {sorted(dom - TERMINAL)}: completion may only record a terminal state', '', 0, detail=sorted(dom))
    param_domain = {'new_state': dom}
    writers = []
    for name, r in sorted(prog.routines.items()):
        a = r.ast
        for st, guard in sf.guarded_statements(a.body):
            v = state_sets(st)
            if v is None:
                if st.kind == 'insert' and st.table.lower() == 'jobs':
                    raise AnalysisError(f'{name}: INSERT INTO jobs inside a stored routine is not handled')
                continue
            writers.append((name, r, st, guard, v))
    n_sites = 0
    for name, r, st, guard, v in writers:
        n_sites += 1
        tos = to_values(v, param_domain)
        key = ('in_batch_id', 'in_job_id')
        svars = state_vars(r.ast, key)
        single_row = sr.has_eq(st.where, 'batch_id', key[0]) and sr.has_eq(st.where, 'job_id', key[1])
        cons = f'{r.file}::{name}::UPDATE jobs SET state = {text(v)}'
        children = any('job_parents' == t.lower() for t in sf.table_names(st.frm))
        if name == 'mark_job_complete' and children:
            # frozen exception 1: the children of the completing job
            ok = sr.has_eq(st.where, 'parent_id', 'in_job_id') and any(pol and 'cur_job_state' in text(c) for c, pol in guard)
            fs, _ = from_states(N('update', frm=st.frm, sets=[], where=None), guard, svars)
            ctx.check(ok and fs == {'Ready', 'Creating', 'Running'}, 'R1', cons + '::children precondition',
                      'children are not selected through job_parents.parent_id = in_job_id inside the branch where the parent was Ready/Creating/Running: '
                      'the "children of a non-terminal job are Pending" argument no longer applies', r.file, r.line_of(st))
            froms = {'Pending'}
            ctx.assume('a job with at least one non-terminal parent is Pending (n_pending_parents > 0); maintained by C05 rules')
        elif name == 'commit_batch_update':
            # frozen exception 2: jobs of the update being committed
            rng = [text(c).lower() for c in sf.conjuncts(st.where)]
            ok = any('jobs.job_id >= cur_update_start_job_id' in c for c in rng) and any('jobs.job_id < (cur_update_start_job_id + staging_n_jobs)' in c for c in rng) \
                and ('cur_update_committed', False) in [(text(c), p) for c, p in guard] and any(p and text(c) == '(in_update_id != 1)' for c, p in guard)
            ctx.check(ok, 'R1', cons + '::update range precondition', 'the recount is not confined to the reserved job-id range of a not-yet-committed update > 1', r.file, r.line_of(st))
            froms = {'Pending'}
            ctx.assume('jobs of an update > 1 that is not committed are Pending (inserted Pending, C05-R1; see C41 finding for the exception)')
        else:
            if single_row:
                froms, constrained = from_states(st, guard, svars)
                locked = all(l == 'FOR UPDATE' for l in svars.values()) and bool(svars)
                if constrained and any(any(n.kind == 'col' and len(n.parts) == 1 and n.parts[0].lower() in svars for n in c.walk()) for c, _ in guard):
                    ctx.check(locked, 'R1', cons + '::locked read', 'the state the guard tests was not read FOR UPDATE in the same transaction (it may be stale when the write happens)',
                              r.file, r.line_of(st))
            else:
                froms, constrained = from_states(st, guard, {})
            if not constrained:
                ctx.bad('R1', cons, f'nothing on the path or in the WHERE restricts the old state of the rows written; e.g. a Success job would become {sorted(tos)[0]}', r.file, r.line_of(st))
                continue
        badp = sorted((f, t) for f in froms for t in tos if t != '<unchanged>' and t != f and t not in ALLOWED[f])
        ctx.check(not badp, 'R1', cons, f'can move a job {badp[0][0]} -> {badp[0][1]}, which the lifecycle forbids (all illegal pairs: {badp})' if badp else '',
                  r.file, r.line_of(st), detail={'from': sorted(froms), 'to': sorted(tos)})
    # triggers that rewrite the state of the row being written (SET NEW.state = ..)
    for name, r in sorted(prog.routines.items()):
        a = r.ast
        if r.kind != 'trigger' or a.table.lower() != 'jobs':
            continue
        for st, guard in sf.guarded_statements(a.body):
            if st.kind != 'set':
                continue
            for t, v in st.assigns:
                if t.kind == 'col' and len(t.parts) == 2 and t.parts[0].upper() == 'NEW' and t.parts[1].lower() == 'state':
                    n_sites += 1
                    tos = to_values(v, param_domain) if not (v.kind == 'col' and text(v).lower() == 'old.state') else {'<unchanged>'}
                    froms = set()
                    for s_ in STATES:
                        if all(pol in may(c, lambda n, s_=s_: s_ if (n.kind == 'col' and text(n).lower() == 'old.state') else UNKNOWN) for c, pol in guard):
                            froms.add(s_)
                    badp = sorted((f, t_) for f in froms for t_ in tos if t_ != '<unchanged>' and t_ != f and t_ not in ALLOWED[f])
                    ctx.check(not badp, 'R1', f'{r.file}::{name}::SET NEW.state = {text(v)}', f'trigger {name} can turn a job {badp[0][0]} -> {badp[0][1]} whatever the statement wrote '
                              f'(illegal pairs: {badp})' if badp else '', r.file, r.line_of(st), detail={'from': sorted(froms), 'to': sorted(tos)})
    # embedded Python writers
    for rel in pf.walk_py(PY_DIRS):
        m = pf.load(rel)
        if 'jobs' not in m.src:
            continue
        for e in sf.embedded_in(m):
            if e.sql_text is None or not any(w in e.sql_text for w in ('jobs', '`jobs`')):
                continue
            for st in e.stmts():
                if st.kind == 'insert' and st.table.lower() == 'jobs':
                    n_sites += 1
                    ctx.need(st.cols is not None and 'state' in [c.lower() for c in st.cols], f'{rel}: INSERT INTO jobs without a state column')
                    elts = sr.args_tuple(e.fn, e.call.args[1] if len(e.call.args) > 1 else None)
                    # find the enclosing function that builds the tuple (may be the outer function)
                    fn = e.fn
                    outer = m.enclosing_func(fn) if fn is not None else None
                    if elts is None and outer is not None:
                        elts = sr.args_tuple(outer, e.call.args[1])
                        fn = outer
                    ctx.need(elts is not None and len(elts) == len(st.cols), f'{rel}:{e.lineno}: cannot bind INSERT INTO jobs arguments')
                    sexpr = elts[[c.lower() for c in st.cols].index('state')]
                    vals = cs.literal_strings(fn, sexpr)
                    ctx.need(vals is not None, f'{rel}:{e.lineno}: initial job state is not a resolvable literal')
                    ctx.check(vals <= {'Pending', 'Ready'}, 'R1', f'{rel}::{e.qual}::INSERT INTO jobs', f'jobs can be created in state {sorted(vals - {"Pending", "Ready"})}',
                              m.path, e.lineno, detail=sorted(vals))
                elif state_sets(st) is not None or (e.parse_error and 'jobs' in (e.sql_text or '') and 'UPDATE' in (e.sql_text or '').upper()):
                    n_sites += 1
                    ctx.bad('R1', f'{rel}::{e.qual}::{text(st)[:80]}', 'jobs.state is written outside the stored procedures that guard the lifecycle', m.path, e.lineno)
    ctx.unit('jobs_state_writers', n_sites)


def r2(ctx: Ctx, prog: sf.SqlProgram) -> None:
    r = prog.routine('mark_job_complete')
    a = r.ast
    # the top-level IF chain that decides what a report does
    chains = [st for st in a.body if st.kind == 'if' and any('cur_job_state' in text(c) for c, _ in st.branches)]
    ctx.need(len(chains) == 1, 'mark_job_complete: decision chain not recognised')
    ch = chains[0]
    cons = f'{r.file}::mark_job_complete'
    svars = state_vars(a, ('in_batch_id', 'in_job_id'))
    ctx.check('cur_job_state' in svars and svars['cur_job_state'] == 'FOR UPDATE', 'R2', cons + '::state read FOR UPDATE',
              'cur_job_state is not read from the job row FOR UPDATE: two completion reports could both see a live state and both count the job', r.file, r.line)
    writes_per_branch = []
    for i, (c, body) in enumerate(ch.branches):
        ws = [(t.lower(), st) for st in sf.all_statements(body) for t, _ in sf.written_tables(st)]
        calls = [st.name for st in sf.all_statements(body) if st.kind == 'call']
        writes_per_branch.append((c, ws, calls))
    # branch 0: stale attempt
    c0, w0, calls0 = writes_per_branch[0]
    stale = 'expected_attempt_id' in text(c0) and 'in_attempt_id' in text(c0)
    ctx.check(stale and not w0 and not calls0, 'R2', cons + '::stale attempt first',
              f'the first branch is `{text(c0)}` and writes {[t for t, _ in w0]}: a report for a superseded attempt must be recognised before anything is counted', r.file, r.line_of(ch))
    # exactly one branch writes the tallies, and it is the live-state branch that also writes the job state
    tally_branches = [i for i, (_, ws, _) in enumerate(writes_per_branch) if any(t == TALLY_TBL for t, _ in ws)]
    ctx.check(len(tally_branches) == 1, 'R2', cons + '::single tally branch', f'tallies are incremented in {len(tally_branches)} branches', r.file, r.line_of(ch))
    if len(tally_branches) == 1:
        i = tally_branches[0]
        c, ws, _ = writes_per_branch[i]
        live = set()
        for s in STATES:
            prior = [(cc, False) for cc, _, _ in writes_per_branch[:i] if 'cur_job_state' in text(cc)]
            if True in may(c, lambda n: s if (n.kind == 'col' and n.parts[-1].lower() == 'cur_job_state') else UNKNOWN) and \
                    all(False in may(cc, lambda n: s if (n.kind == 'col' and n.parts[-1].lower() == 'cur_job_state') else UNKNOWN) for cc, _ in prior):
                live.add(s)
        ctx.check(live == {'Ready', 'Creating', 'Running'}, 'R2', cons + '::tally guard', f'tallies are incremented when the job was in {sorted(live)}; a job already in a terminal state '
                  '(or still Pending) must not be counted' if live != {'Ready', 'Creating', 'Running'} else '', r.file, r.line_of(ch))
        sets_state = any(t == 'jobs' and state_sets(st) is not None and text(state_sets(st)).lower() == 'new_state' for t, st in ws)
        ctx.check(sets_state, 'R2', cons + '::tally with state write', 'the branch that counts the job does not also write its terminal state (a repeat report would count again)', r.file, r.line_of(ch))
        # each tally +constant-or-predicate exactly once, keyed over self and ancestors
        for t, st in ws:
            if t == TALLY_TBL:
                cols = {c_.parts[-1].lower(): v for c_, v in st.sets}
                ctx.check(sorted(cols) == sorted(TALLIES), 'R2', cons + '::tally columns', f'tally update touches {sorted(cols)}', r.file, r.line_of(st))
                inc = cols.get('n_completed')
                ctx.check(inc is not None and text(inc).lower() == '(n_completed + 1)', 'R2', cons + '::n_completed', f'n_completed is set to `{text(inc)}`, expected n_completed + 1',
                          r.file, r.line_of(st))
    # other branches write nothing
    for i, (c, ws, calls) in enumerate(writes_per_branch):
        if i not in tally_branches and i != 0:
            ctx.check(not ws and not calls, 'R2', cons + f'::branch `{text(c)[:60]}` is read-only', f'the already-complete / unexpected-state branch writes {[t for t, _ in ws]}',
                      r.file, r.line_of(ch))
    if ch.orelse is not None:
        ws = [t for st in sf.all_statements(ch.orelse) for t, _ in sf.written_tables(st)]
        ctx.check(not ws, 'R2', cons + '::else branch is read-only', f'the fallback branch writes {ws}', r.file, r.line_of(ch))
    # closed world: nobody else increments the tallies
    for name, rr in sorted(prog.routines.items()):
        for st in sf.all_statements(rr.ast.body):
            for t, verb in sf.written_tables(st):
                if t.lower() == TALLY_TBL:
                    ctx.check(name == 'mark_job_complete', 'R2', f'{rr.file}::{name}::writes {TALLY_TBL}', f'{name} also writes the completion tallies', rr.file, rr.line_of(st))
    for rel in pf.walk_py(PY_DIRS):
        m = pf.load(rel)
        if TALLY_TBL not in m.src:
            continue
        for e in sf.embedded_in(m):
            if e.sql_text is None or TALLY_TBL not in e.sql_text:
                continue
            for st in e.stmts():
                for t, verb in sf.written_tables(st):
                    if t.lower() == TALLY_TBL:
                        # creation of the zero row is fine; increments are not
                        zero_insert = st.kind == 'insert' and not st.on_dup and all(c.lower() in ('id', 'job_group_id') for c in (st.cols or ['?']))
                        ctx.check(zero_insert, 'R2', f'{rel}::{e.qual}::writes {TALLY_TBL}', f'{verb} of the completion tallies outside mark_job_complete: {text(st)[:100]}', m.path, e.lineno)


def r3(ctx: Ctx) -> None:
    g = pf.load('batch/batch/globals.py')
    v = g.global_assign('complete_states')
    ctx.need(isinstance(v, (ast.Tuple, ast.List, ast.Set)), 'globals.complete_states is not a literal collection')
    vals = {pf.const_str(x) for x in v.elts}
    ctx.check(vals == TERMINAL, 'R3', 'batch/batch/globals.py::complete_states', f'complete_states is {sorted(vals)}; the terminal states are {sorted(TERMINAL)}', g.path, v.lineno)
    m = pf.load('batch/batch/driver/job.py')
    fn = m.func('mark_job_complete')
    g_ = pf.cfg(fn)
    notif = g_.find(lambda n: any(pf.dotted(c.func) in ('notify_batch_job_complete', 'notify_job_group_on_job_complete') for c in pf.node_calls(n)))
    ctx.need(len(notif) >= 2, 'driver mark_job_complete: completion notifications not found')

    def is_test(txt: str):
        return lambda n: n.kind == 'test' and pf.nsrc(n.ast) == txt
    for n in notif:
        cons = f'{m.rel}::mark_job_complete::{pf.nsrc(n.ast)[:60]}'
        # every path to the notification takes the False edge of `rv['rc'] != 0` and of `old_state in complete_states`
        for txt, why in (("rv['rc'] != 0", 'the procedure refused the report'), ('old_state in complete_states', 'the job was already complete')):
            tests = g_.find(is_test(txt))
            ok = bool(tests) and g_.path_avoiding(g_.entry, lambda x: x is n, lambda x: False,
                                                  edge_ok=lambda a, b, lab: not (a in tests and lab == 'F')) is None
            ok = ok and all(any(isinstance(s.ast, ast.Return) for s, lab in t.succ if lab == 'T') or _branch_returns(t) for t in tests)
            ctx.check(ok, 'R3', cons + f'::after `{txt}`', f'completion is notified even when {why}', m.path, n.lineno)


def _branch_returns(t: pf.Node) -> bool:
    # the True branch of the test ends in a return without reaching the fall-through
    seen = set()
    stack = [s for s, lab in t.succ if lab == 'T']
    while stack:
        n = stack.pop()
        if n.id in seen:
            continue
        seen.add(n.id)
        if n.kind == 'return':
            continue
        if n.kind in ('exit',):
            return False
        for s, lab in n.succ:
            if lab != 'exc':
                stack.append(s)
        if not n.succ:
            return False
    return True


def run(ctx: Ctx) -> None:
    ctx.explanation = 'Every writer of jobs.state in the effective SQL program and in Python-embedded SQL is enumerated; the from/to sets induced by guards are checked against the lifecycle relation.'
    ctx.rule('R1', 'writers of jobs.state: from-set (guards on the state read FOR UPDATE / WHERE) x to-set within the lifecycle relation; initial states within {Pending, Ready}', 16)
    ctx.rule('R2', 'completion tallies incremented once: single branch, live-state guard on a FOR UPDATE read, with the state write; stale-attempt branch first; closed world', 10)
    ctx.rule('R3', 'driver mirror: no completion notification when rc != 0 or old state already complete; complete_states == terminal set', 5)
    prog = sf.load_program()
    ctx.unit('effective_routines', len(prog.routines))
    r1(ctx, prog)
    r2(ctx, prog)
    r3(ctx)
