"""C04 Jobs follow the lifecycle and complete at most once.

  R1  transition relation: every statement that writes jobs.state (effective SQL routines + SQL embedded in Python) is taken with its
      from-set (states admitted by its path condition / WHERE on the state read FOR UPDATE for the same key) and its to-set (literal,
      IF arms, or the `new_state` parameter whose values are enumerated from the Python call sites); from x to must lie in the
      relation of the statement.  Terminal states have no outgoing edge; Pending only goes to Ready.
      The two set-oriented writers without a syntactic from-constraint (children of the completing job; jobs of the update being
      committed) rest on the data invariant "a job that is not Pending has no unfinished parent".  Its inductive obligations are
      decided here: (a) release threshold - the non-Pending arm of the state expression can only be chosen in the order classes of
      the pending-parent counter that mean "this was the last unfinished parent" (children: old n_pending_parents <= 1; commit: the
      recount is NULL or <= 0), enumerated over the order classes induced by the integer literals the condition compares the counter
      with, every other atom unknown; (b) the commit-time recount counts every non-terminal parent state; (c) the commit-time
      statement is confined to the id range [start_job_id, start_job_id + n_jobs) of the update being committed, decided by
      comparing linear normal forms of the bounds with the variables' provenance (batch_updates row of (in_batch_id, in_update_id)).
      A writer whose WHERE itself restricts jobs.state to Pending needs none of this.
  R2  once-only tallies (decided on path conditions, so ELSEIF chains, nested IFs, LEAVE guard clauses and boolean locals holding a test
      are the same thing; variables are resolved through the reads that bind them): exactly one statement increments the
      completed/cancelled/failed/succeeded tallies; its path condition admits only Ready/Creating/Running for the state read FOR UPDATE
      from the job row, excludes a report whose attempt id differs from the job's current attempt, and implies the write of the job's
      state; nothing is written on paths taken only by stale reports or for a job that was not live; nobody else increments the tallies.
  R3  Python mirror: every path of driver mark_job_complete (helpers that reach a notification inlined) to a completion notification
      passes a test edge that establishes rc == 0 and one that establishes "old state not complete", whatever the spelling (renamed
      result local, ==/!=/truthiness, in/not in, and/or/not, guard clause or nesting, boolean local, one-line predicate helper);
      tests on the procedure result that are not recognised make the rule decline; complete_states equals the terminal set.
  R4  lock continuity: in every routine that writes jobs.state or the completion tallies, a value read from the job / attempt /
      batch rows with a locking read is used for a decision or a write only while the transaction that took the lock is still
      open - no COMMIT / ROLLBACK / START TRANSACTION on any path between the locking read and the use (abstract walk of the
      structured body, engines/sqltxn.py).  Otherwise two reports for one job can both pass the live-state test.
Not decided: duplicate/reordered message histories as such; these are the obligations that make each message idempotent.
"""
from __future__ import annotations

import ast
from typing import Dict, List, Optional, Sequence, Set, Tuple

from engines import c04facts as cf4
from engines import inline
from engines import pyfacts as pf
from engines import sqlfront as sf
from engines import sqlrules as sr
from engines import sqltxn
from engines.common import AnalysisError, Ctx
from engines.sqlast import N, text
from engines.sqleval import UNKNOWN, may

META = dict(
    category='other',
    text='Closed enumeration of every writer of jobs.state with the from/to sets induced by its guards, checked against the lifecycle relation, '
         'plus structural once-only obligations on the completion tallies. Static because the relation is determined by the guards in the SQL text.',
    note='Two writers have no syntactic from-constraint and rely on a data invariant (children of a non-terminal job are Pending; jobs of an '
         'uncommitted later update are Pending); they are frozen exceptions whose structural preconditions are checked. Trusted: SQL parser, migration replay.',
    technique='static analysis: writer enumeration over the SQL program + guard may-analysis + call-site value enumeration',
    design_ref='DESIGN.md §3 C04',
)

STATES = ['Pending', 'Ready', 'Creating', 'Running', 'Success', 'Failed', 'Error', 'Cancelled']
TERMINAL = {'Success', 'Failed', 'Error', 'Cancelled'}
ALLOWED: Dict[str, Set[str]] = {
    'Pending': {'Ready'},
    'Ready': {'Creating', 'Running'} | TERMINAL,
    'Creating': {'Running', 'Ready'} | TERMINAL,
    'Running': {'Ready'} | TERMINAL,
    'Success': set(), 'Failed': set(), 'Error': set(), 'Cancelled': set(),
}
TALLY_TBL = 'job_groups_n_jobs_in_complete_states'
TALLIES = ['n_completed', 'n_cancelled', 'n_failed', 'n_succeeded']
PY_DIRS = ['batch/batch']


def state_sets(st: N) -> Optional[N]:
    """The expression assigned to jobs.state by an UPDATE, or None."""
    if st.kind != 'update':
        return None
    tabs = [t for t in sf.from_tables(st.frm) if t.kind == 'table']
    if not tabs:
        return None
    alias = {(t.alias or t.name).lower(): t.name.lower() for t in tabs}
    for c, v in st.sets:
        if c.kind != 'col' or c.parts[-1].lower() != 'state':
            continue
        if len(c.parts) > 1:
            if alias.get(c.parts[-2].lower()) == 'jobs':
                return v
        elif tabs[0].name.lower() == 'jobs':
            return v
    return None


def to_values(e: N, param_domain: Dict[str, Set[str]]) -> Set[str]:
    if e.kind == 'lit' and isinstance(e.value, str):
        return {e.value}
    if e.kind == 'func' and e.name == 'IF' and len(e.args) == 3:
        return to_values(e.args[1], param_domain) | to_values(e.args[2], param_domain)
    if e.kind == 'col' and len(e.parts) == 1 and e.parts[0].lower() in param_domain:
        return set(param_domain[e.parts[0].lower()])
    if e.kind == 'col' and e.parts[-1].lower() == 'state':
        return {'<unchanged>'}
    raise AnalysisError(f'jobs.state is assigned an expression whose values cannot be enumerated: {text(e)}')


def state_reads(routine: N) -> List[Tuple[str, str, Tuple[str, str], N]]:
    """(variable, lock clause, key (X, Y), select) for every `SELECT .. state .. INTO .. v .. FROM jobs WHERE batch_id = X AND job_id = Y`:
    v holds jobs.state of the row (X, Y).  Names of variables and parameters are not interpreted."""
    out = []
    for st in sf.all_statements(routine.body):
        if st.kind == 'select' and st.into and st.frm is not None and [t.lower() for t in sf.table_names(st.frm)] == ['jobs'] and len(sf.from_tables(st.frm)) == 1:
            key = cf4.job_key(st.where)
            if key is None:
                continue
            for (c, _), v in zip(st.cols, st.into):
                if c.kind == 'col' and c.parts[-1].lower() == 'state' and sr.is_var(v):
                    out.append((v.parts[0].lower(), st.lock, key, st))
    return out


def state_vars(routine: N, key: Optional[Tuple[str, str]]) -> Dict[str, str]:
    """variables bound to jobs.state of the row `key` -> lock clause of the read."""
    return {v: lock for v, lock, k, _ in state_reads(routine) if key is not None and k == key}


def _jobs_quals(frm: Optional[N]) -> Set[str]:
    """the qualifiers (alias or table name) under which the jobs table is visible in a FROM clause."""
    return {(t.alias or t.name).lower() for t in sf.from_tables(frm) if t.kind == 'table' and t.name.lower() == 'jobs'}


def from_states(st: N, guard, svars: Dict[str, str]) -> Tuple[Set[str], bool]:
    """States s for which the path condition and the WHERE may hold; second result: was any state constraint present."""
    out = set()
    constrained = False
    quals = _jobs_quals(st.frm)
    n_tabs = len(sf.from_tables(st.frm))
    for s in STATES:
        def known_guard(n: N):
            if n.kind == 'col' and len(n.parts) == 1 and n.parts[0].lower() in svars:
                return s
            return UNKNOWN

        def known_where(n: N):
            if n.kind == 'col' and n.parts[-1].lower() == 'state' and ((len(n.parts) == 1 and (n_tabs == 1 or bool(quals))) or (len(n.parts) > 1 and n.parts[-2].lower() in quals)):
                return s
            return UNKNOWN
        ok = True
        for c, pol in guard:
            if pol not in may(c, known_guard):
                ok = False
        if st.where is not None and True not in may(st.where, known_where):
            ok = False
        if ok:
            out.add(s)
    constrained = len(out) < len(STATES)
    return out, constrained


# ------------------------------------------------------------------------------------------------
# release threshold: order-class enumeration of a counter inside a boolean condition
# ------------------------------------------------------------------------------------------------
_CMP = ('=', '!=', '<', '<=', '>', '>=', '<=>')


def _int_lit(e: N) -> Optional[int]:
    if e.kind == 'lit' and isinstance(e.value, int) and not isinstance(e.value, bool):
        return e.value
    return None


def counter_classes(conds: Sequence[N], is_counter, boundary: int, nullable: bool) -> List[Tuple[str, object]]:
    """Order classes of the counter induced by the integer literals the conditions compare it with (plus `boundary`), as (label, representative).
    Every leaf predicate that mentions the counter must be a comparison / IN of the counter (optionally COALESCE(counter, <int>)) with
    integer literals: only then are the classes exact.  Anything else -> AnalysisError (decline)."""
    ks = {boundary}
    consumed = 0

    def term(e: N) -> bool:
        nonlocal consumed
        if is_counter(e):
            consumed += 1
            return True
        if e.kind == 'func' and e.name in ('COALESCE', 'IFNULL') and len(e.args) == 2 and is_counter(e.args[0]) and _int_lit(e.args[1]) is not None:
            consumed += 1
            ks.add(_int_lit(e.args[1]))
            return True
        return False

    nodes = [n for c in conds for n in c.walk()]
    for n in nodes:
        if n.kind == 'bin' and n.op in _CMP:
            for a, b in ((n.left, n.right), (n.right, n.left)):
                if _int_lit(b) is not None and term(a):
                    ks.add(_int_lit(b))
        elif n.kind == 'in' and isinstance(n.items, list) and all(_int_lit(i) is not None for i in n.items) and term(n.arg):
            ks.update(_int_lit(i) for i in n.items)
    total = sum(1 for n in nodes if is_counter(n))
    if total != consumed:
        raise AnalysisError(f'the pending-parent counter occurs in `{"; ".join(text(c) for c in conds)}` outside a comparison with an integer literal: order classes not exact')
    out: List[Tuple[str, object]] = []
    srt = sorted(ks)
    out.append((f'< {srt[0]}', srt[0] - 1))
    for i, k in enumerate(srt):
        out.append((f'= {k}', k))
        if i + 1 < len(srt) and srt[i + 1] > k + 1:
            out.append((f'in ({k}, {srt[i + 1]})', k + 1))
    out.append((f'> {srt[-1]}', srt[-1] + 1))
    if nullable:
        out.append(('IS NULL', None))
    return out


def release_classes(v: N, is_counter, boundary: int, nullable: bool) -> List[Tuple[str, object, Set[str]]]:
    """For `IF(cond, a, b)` state expressions (nested allowed): per order class of the counter, the set of state values that MAY be written
    (all other atoms unknown)."""
    def arms(e: N, known) -> Set[str]:
        if e.kind == 'func' and e.name == 'IF' and len(e.args) == 3:
            t = may(e.args[0], known)
            out: Set[str] = set()
            if True in t:
                out |= arms(e.args[1], known)
            if False in t:
                out |= arms(e.args[2], known)
            return out
        if e.kind == 'lit' and isinstance(e.value, str):
            return {e.value}
        if e.kind == 'col' and e.parts[-1].lower() == 'state':
            return {'<unchanged>'}
        raise AnalysisError(f'state expression arm not enumerable: {text(e)}')
    res = []
    conds = [n.args[0] for n in v.walk() if n.kind == 'func' and n.name == 'IF' and len(n.args) == 3]
    classes = counter_classes(conds, is_counter, boundary, nullable)
    for lab, rep in classes:
        known = (lambda n, rep=rep: rep if is_counter(n) else UNKNOWN)
        res.append((lab, rep, arms(v, known)))
    return res


# ------------------------------------------------------------------------------------------------
# linear normal forms over routine variables (for range bounds)
# ------------------------------------------------------------------------------------------------
Lin = Dict[str, int]  # variable -> coefficient; '' -> constant


def lin_of(e: N) -> Optional[Lin]:
    if _int_lit(e) is not None:
        return {'': _int_lit(e)}
    if e.kind == 'col' and len(e.parts) == 1:
        return {e.parts[0].lower(): 1}
    if e.kind == 'cast':
        return lin_of(e.arg)
    if e.kind == 'un' and e.op == '-':
        a = lin_of(e.arg)
        return None if a is None else {k: -c for k, c in a.items()}
    if e.kind == 'bin' and e.op in ('+', '-'):
        a, b = lin_of(e.left), lin_of(e.right)
        if a is None or b is None:
            return None
        out = dict(a)
        for k, c in b.items():
            out[k] = out.get(k, 0) + (c if e.op == '+' else -c)
        return {k: c for k, c in out.items() if c != 0 or k == ''}
    return None


def lin_sub(a: Lin, b: Lin) -> Lin:
    out = dict(a)
    for k, c in b.items():
        out[k] = out.get(k, 0) - c
    return {k: c for k, c in out.items() if c != 0}


def _lin_txt(a: Lin) -> str:
    parts = [(f'{c}*' if c != 1 else '') + k for k, c in sorted(a.items()) if k]
    if a.get('', 0) or not parts:
        parts.append(str(a.get('', 0)))
    return ' + '.join(parts)


def var_provenance(routine: N) -> Dict[str, Tuple[str, str, N]]:
    """variable -> (table, column-or-aggregate text, select) for single-table `SELECT .. INTO ..`; variables assigned more than once are dropped."""
    out: Dict[str, Tuple[str, str, N]] = {}
    counts: Dict[str, int] = {}
    for st in sf.all_statements(routine.body):
        if st.kind == 'set':
            for t, _ in st.assigns:
                if sr.is_var(t):
                    counts[t.parts[0].lower()] = counts.get(t.parts[0].lower(), 0) + 1
        if st.kind == 'select' and st.into:
            for (c, _), v in zip(st.cols, st.into):
                if not sr.is_var(v):
                    continue
                name = v.parts[0].lower()
                counts[name] = counts.get(name, 0) + 1
                if st.frm is not None and len(sf.from_tables(st.frm)) == 1 and sf.from_tables(st.frm)[0].kind == 'table':
                    inner = c
                    while inner.kind == 'cast' or (inner.kind == 'func' and inner.name in ('COALESCE', 'IFNULL') and len(inner.args) == 2 and _int_lit(inner.args[1]) == 0):
                        inner = inner.arg if inner.kind == 'cast' else inner.args[0]
                    out[name] = (sf.table_names(st.frm)[0].lower(), text(inner).lower().replace('`', ''), st)
    return {k: v for k, v in out.items() if counts.get(k) == 1}


def update_range_confinement(routine: N, st: N, guard, rl: Optional[cf4.RoutineLocals] = None) -> Tuple[str, str]:
    """Is the multi-row UPDATE of jobs confined to the jobs of the update (in_batch_id, in_update_id)?
    Returns ('ok' | 'bad' | 'unknown', explanation).  Decided from the conjuncts of the WHERE: `jobs.update_id = in_update_id`, or an id
    interval whose bounds, as linear forms over routine variables, lie within [start_job_id, start_job_id + n_jobs) of that update's
    batch_updates row (n_jobs may be the staged count when the path requires staged = expected)."""
    tabs = [t for t in sf.from_tables(st.frm) if t.kind == 'table']
    if not tabs or tabs[0].name.lower() != 'jobs':
        return 'unknown', 'first table is not jobs'
    jq = (tabs[0].alias or tabs[0].name).lower()
    n_jobs_tabs = sum(1 for t in tabs if t.name.lower() == 'jobs')

    def is_jobs_col(e: N, name: str) -> bool:
        if e.kind != 'col' or e.parts[-1].lower() != name:
            return False
        if len(e.parts) > 1:
            return e.parts[-2].lower() == jq
        return len(sf.from_tables(st.frm)) == 1
    for j in (st.frm.joins if st.frm.kind == 'from' else []):
        if j.jtype not in ('LEFT',):
            return 'unknown', f'{j.jtype} JOIN may restrict the rows in a way that is not modelled'
    if n_jobs_tabs != 1:
        return 'unknown', 'jobs joined with itself'
    if not sr.has_eq(st.where, f'{jq}.batch_id', 'in_batch_id', strip_qual=False) and not (len(sf.from_tables(st.frm)) == 1 and sr.has_eq(st.where, 'batch_id', 'in_batch_id')):
        return 'bad', 'the statement is not restricted to the batch (no `jobs.batch_id = in_batch_id`)'
    prov = var_provenance(routine)

    def lin(e: N) -> Optional[Lin]:
        # a bound held in a local (`SET end_id = start_id + n`) is compared through its definition; variables the path condition equates share a name
        out = lin_of(rl.expand(e, st) if rl is not None else e)
        if out is None:
            return None
        res: Lin = {}
        for k, c_ in out.items():
            k2 = same.get(k, k)
            res[k2] = res.get(k2, 0) + c_
        return {k: c_ for k, c_ in res.items() if c_ != 0 or k == ''}

    def this_update_row(sel: N, table: str, extra: Sequence[Tuple[str, str]] = ()) -> bool:
        return sr.has_eq(sel.where, 'batch_id', 'in_batch_id') and sr.has_eq(sel.where, 'update_id', 'in_update_id') and all(sr.has_eq(sel.where, a, b) for a, b in extra)
    start_vars = {v for v, (t, c, sel) in prov.items() if t == 'batch_updates' and c == 'start_job_id' and this_update_row(sel, t)}
    n_vars = {v for v, (t, c, sel) in prov.items() if t == 'batch_updates' and c == 'n_jobs' and this_update_row(sel, t)}
    staged = {v for v, (t, c, sel) in prov.items() if t == 'job_groups_inst_coll_staging' and c == 'sum(n_jobs)' and this_update_row(sel, t, (('job_group_id', '0'),))}
    same: Dict[str, str] = {}
    for c, pol in guard:
        if pol and c.kind == 'bin' and c.op == '=' and sr.is_var(c.left) and sr.is_var(c.right):
            a, b = c.left.parts[0].lower(), c.right.parts[0].lower()
            if (a in staged and b in n_vars) or (b in staged and a in n_vars):
                same[a if a in staged else b] = b if a in staged else a   # equal on this path: one canonical name in the linear forms
    lows: List[Lin] = []   # job_id >= L
    ups: List[Lin] = []    # job_id <  U
    for c in sf.conjuncts(st.where):
        mentions = [n for n in c.walk() if n.kind == 'col' and (is_jobs_col(n, 'job_id') or is_jobs_col(n, 'update_id'))]
        if not mentions:
            continue
        if c.kind == 'bin' and c.op == '=' and ((is_jobs_col(c.left, 'update_id') and sr.is_var(c.right, 'in_update_id')) or (is_jobs_col(c.right, 'update_id') and sr.is_var(c.left, 'in_update_id'))):
            return 'ok', 'jobs.update_id = in_update_id'
        if c.kind == 'between' and not c.negated and is_jobs_col(c.arg, 'job_id'):
            lo, hi = lin(c.lo), lin(c.hi)
            if lo is None or hi is None:
                return 'unknown', f'bound of `{text(c)}` is not linear in routine variables'
            lows.append(lo)
            hi = dict(hi)
            hi[''] = hi.get('', 0) + 1
            ups.append(hi)
            continue
        if c.kind == 'bin' and c.op in ('<', '<=', '>', '>=', '='):
            op = c.op
            if is_jobs_col(c.left, 'job_id'):
                other = c.right
            elif is_jobs_col(c.right, 'job_id'):
                other = c.left
                op = {'<': '>', '<=': '>=', '>': '<', '>=': '<=', '=': '='}[op]
            else:
                return 'unknown', f'conjunct `{text(c)}` mentions jobs.job_id / update_id in a form that is not modelled'
            e = lin(other)
            if e is None:
                return 'unknown', f'bound of `{text(c)}` is not linear in routine variables'
            plus1 = dict(e)
            plus1[''] = plus1.get('', 0) + 1
            if op in ('>=', '='):
                lows.append(e)
            if op == '>':
                lows.append(plus1)
            if op == '<':
                ups.append(e)
            if op in ('<=', '='):
                ups.append(plus1)
            continue
        return 'unknown', f'conjunct `{text(c)}` mentions jobs.job_id / update_id in a form that is not modelled'
    if not start_vars or not n_vars:
        if not lows and not ups:
            return 'bad', 'no conjunct restricts jobs.job_id or jobs.update_id: every job of the batch is rewritten'
        return 'unknown', 'start_job_id / n_jobs of the update being committed are not read into variables'
    # lower side: some L with L - start = const >= 0
    low_ok = low_unknown = False
    for L in lows:
        for sv in start_vars:
            d = lin_sub(L, {sv: 1})
            if set(d) <= {''}:
                if d.get('', 0) >= 0:
                    low_ok = True
            else:
                low_unknown = True
    up_ok = up_unknown = False
    for U in ups:
        for sv in start_vars:
            for nv in n_vars:
                d = lin_sub(U, {sv: 1, nv: 1}) if sv != nv else None
                if d is not None and set(d) <= {''}:
                    if d.get('', 0) <= 0:
                        up_ok = True
                else:
                    up_unknown = True
    sv0 = sorted(start_vars)[0]
    nv0 = sorted(n_vars)[0]
    if low_ok and up_ok:
        return 'ok', f'job ids within [{sv0}, {sv0} + {nv0})'
    if not low_ok and not low_unknown:
        what = 'no lower bound on jobs.job_id' if not lows else 'lower bound(s) ' + ', '.join(_lin_txt(L) for L in lows) + f' lie below {sv0}'
        return 'bad', f'{what}: jobs with ids below the update\'s first id (earlier updates, committed and running, or created earlier and still open) are rewritten too'
    if not up_ok and not up_unknown:
        what = 'no upper bound on jobs.job_id' if not ups else 'upper bound(s) ' + ', '.join(_lin_txt(U) for U in ups) + f' lie above {sv0} + {nv0}'
        return 'bad', (f'{what}: jobs with ids >= {sv0} + {nv0} are rewritten too. Id ranges are reserved when an update is CREATED, commits are not ordered: with update k+1 created '
                       '(bunches inserted, not committed) when update k commits, the jobs of k+1 are recounted and its parent-less jobs become Ready')
    return 'unknown', 'a bound on jobs.job_id is not comparable with start_job_id / n_jobs of the update (non-constant difference)'


def new_state_domain(ctx: Ctx) -> Tuple[Set[str], List[str]]:
    """Values reaching the `new_state` argument of CALL mark_job_complete."""
    m = pf.load('batch/batch/driver/job.py')
    embs = [e for e in sf.embedded_in(m) if e.sql_text and not e.parse_error and len(e.stmts()) == 1 and e.stmts()[0].kind == 'call' and e.stmts()[0].name.lower() == 'mark_job_complete']
    ctx.need(len(embs) == 1, 'driver/job.py: CALL mark_job_complete site not found exactly once')
    e = embs[0]
    st = e.stmts()[0]
    prog = sf.load_program()
    params = [p[1].lower() for p in prog.routine('mark_job_complete').ast.params]
    ctx.need('new_state' in params, 'mark_job_complete: the procedure has no parameter `new_state` (the state expression written to jobs.state is resolved through it)')
    ctx.need(len(st.args) == len(params), 'CALL mark_job_complete arity differs from the procedure definition')
    ctx.need(e.fn is not None and len(e.call.args) > 1, 'CALL mark_job_complete: argument tuple not found')
    elts = sr.args_tuple(e.fn, e.call.args[1])
    ctx.need(elts is not None and len(elts) == len(params) and all(a.kind == 'param' for a in st.args), 'CALL mark_job_complete: argument tuple not recognised')
    idx = params.index('new_state')
    arg = pf.resolve_expr(e.fn, elts[idx])
    own = [a.arg for a in e.fn.args.posonlyargs + e.fn.args.args + e.fn.args.kwonlyargs]
    ctx.need(isinstance(arg, ast.Name) and arg.id in own and len(pf.assignments(e.fn).get(arg.id, [])) == 1, 'new_state is not forwarded from a parameter of the Python wrapper')
    return cf4.param_values(PY_DIRS, m, e.fn, arg.id)


NON_TERMINAL = [x for x in STATES if x not in TERMINAL]


def _set_index(st: N, colname: str) -> Optional[int]:
    for i, (c, _) in enumerate(st.sets):
        if c.kind == 'col' and c.parts[-1].lower() == colname and (len(c.parts) == 1 or c.parts[-2].lower() in _jobs_quals(st.frm)):
            return i
    return None


def children_release_threshold(ctx: Ctx, r, st: N, v: N, cons: str) -> None:
    """The children statement runs once per completing parent and has no state constraint: a child may only leave Pending when the
    reporting parent was its LAST unfinished one (old n_pending_parents <= 1).  Otherwise the statement visits the child again when the
    next parent reports, whatever state the child reached meanwhile (Ready/Running/terminal), and rewrites it."""
    def is_counter(n: N) -> bool:
        return n.kind == 'col' and n.parts[-1].lower() == 'n_pending_parents' and (len(n.parts) == 1 or n.parts[-2].lower() in _jobs_quals(st.frm))
    i_state, i_cnt = _set_index(st, 'state'), _set_index(st, 'n_pending_parents')
    ctx.need(i_state is not None, 'children update: state assignment not found')
    ctx.need(i_cnt is None or i_state < i_cnt, 'children update: n_pending_parents is assigned before state (the threshold would see the new value; not modelled)')
    rows = release_classes(v, is_counter, 1, False)
    badc = [(lab, sorted(vals - {'Pending', '<unchanged>'})) for lab, rep, vals in rows if isinstance(rep, int) and rep >= 2 and vals - {'Pending', '<unchanged>'}]
    ctx.check(not badc, 'R1', cons + '::release threshold',
              (f'a child whose n_pending_parents is {badc[0][0]} before this report (another parent still unfinished) can be set to {"/".join(badc[0][1])}: it leaves Pending early, may reach a '
               f'terminal state (e.g. cancelled by the canceller), and when the other parent reports this same statement - which has no condition on jobs.state - rewrites it '
               f'(e.g. Cancelled -> Ready/Pending): terminal states stop being absorbing and the job is completed and tallied a second time') if badc else '',
              r.file, r.line_of(st), detail=[(lab, sorted(vals)) for lab, _, vals in rows])


def commit_release_threshold(ctx: Ctx, r, st: N, v: N, cons: str) -> None:
    """Commit-time recount: a job may be made non-Pending only when the recount of unfinished parents is NULL (no parents) or <= 0, and the
    recount must count every non-terminal parent state; otherwise a job with a live parent is released and the children statement of
    mark_job_complete later rewrites its state (e.g. Running -> Pending)."""
    derived = {(t.alias or '').lower(): t for t in sf.from_tables(st.frm) if t.kind != 'table' and getattr(t, 'alias', None)}
    quals = {n.parts[-2].lower() for n in v.walk() if n.kind == 'col' and n.parts[-1].lower() == 'n_pending_parents' and len(n.parts) > 1}
    ctx.need(len(quals) == 1 and next(iter(quals)) in derived, f'commit_batch_update: the state expression `{text(v)}` does not test a recount of pending parents from a derived table')
    q = next(iter(quals))

    def is_counter(n: N) -> bool:
        return n.kind == 'col' and n.parts[-1].lower() == 'n_pending_parents' and len(n.parts) > 1 and n.parts[-2].lower() == q
    ctx.need(not any(n.kind == 'col' and n.parts[-1].lower() == 'n_pending_parents' and not is_counter(n) for n in v.walk()), 'commit_batch_update: state expression mixes recount and stored counter')
    rows = release_classes(v, is_counter, 0, True)
    badc = [(lab, sorted(vals - {'Pending', '<unchanged>'})) for lab, rep, vals in rows if isinstance(rep, int) and rep >= 1 and vals - {'Pending', '<unchanged>'}]
    ctx.check(not badc, 'R1', cons + '::release threshold',
              (f'a job of the committed update whose recount of unfinished parents is {badc[0][0]} can be set to {"/".join(badc[0][1])}: it starts although a parent is still live, and when that '
               f'parent completes the children statement of mark_job_complete rewrites its state (e.g. Running -> Pending/Ready)') if badc else '',
              r.file, r.line_of(st), detail=[(lab, sorted(vals)) for lab, _, vals in rows])
    sel = getattr(derived[q], 'select', None)
    ctx.need(sel is not None and sel.kind == 'select', 'commit_batch_update: derived recount table is not a plain SELECT')
    inner = None
    for c, alias in sel.cols:
        if (alias or '').lower() == 'n_pending_parents':
            inner = sr.unwrap_sum(c)
    ctx.need(inner is not None, 'commit_batch_update: n_pending_parents of the recount is not COALESCE(SUM(<predicate>), 0)')
    others = [n for n in inner.walk() if n.kind == 'col' and n.parts[-1].lower() != 'state']
    ctx.need(not others, f'commit_batch_update: the recount predicate `{text(inner)}` tests more than the parent state')
    missed = [s_ for s_ in NON_TERMINAL if False in may(inner, lambda n, s_=s_: s_ if n.kind == 'col' else UNKNOWN)]
    ctx.check(not missed, 'R1', cons + '::recount counts every live parent state',
              f'a parent in state {missed[0] if missed else ""} is not counted as unfinished by `{text(inner)}`: its child is released at commit and, when the parent completes, the children statement '
              f'of mark_job_complete rewrites the child\'s state (n_pending_parents = 0 -> IF(.. = 1 ..) -> Pending) whatever it is then', r.file, r.line_of(st), detail=missed)


def r1(ctx: Ctx, prog: sf.SqlProgram) -> None:
    dom, sites = new_state_domain(ctx)
    ctx.extra_cov['new_state_call_sites'] = sites
    cons0 = 'batch/batch/driver::callers of mark_job_complete'
    ctx.check(dom <= TERMINAL, 'R1', cons0 + '::new_state domain', f'a caller passes new_state in {sorted(dom - TERMINAL)}: completion may only record a terminal state', '', 0, detail=sorted(dom))
    param_domain = {'new_state': dom}
    writers = []
    for name, r in sorted(prog.routines.items()):
        a = r.ast
        for st, guard in sf.guarded_statements(a.body):
            v = state_sets(st)
            if v is None:
                if st.kind == 'insert' and st.table.lower() == 'jobs':
                    raise AnalysisError(f'{name}: INSERT INTO jobs inside a stored routine is not handled')
                continue
            writers.append((name, r, st, guard, v))
    n_sites = 0
    locals_of: Dict[str, cf4.RoutineLocals] = {}
    for name, r, st, guard0, v in writers:
        n_sites += 1
        tos = to_values(v, param_domain)
        rl = locals_of.setdefault(name, cf4.RoutineLocals(r.ast))
        guard = rl.expand_guard(guard0)   # a boolean local holding a test is seen through
        reads = state_reads(r.ast)
        key = cf4.job_key(st.where, _jobs_quals(st.frm) if len(sf.from_tables(st.frm)) > 1 else None)
        single_row = key is not None
        svars = state_vars(r.ast, key)
        cons = f'{r.file}::{name}::UPDATE jobs SET state = {text(v)}'
        children = any('job_parents' == t.lower() for t in sf.table_names(st.frm))
        where_only, where_constrained = from_states(st, (), {})
        if (children or name == 'commit_batch_update') and where_constrained and where_only == {'Pending'}:
            froms = {'Pending'}   # the WHERE itself admits only Pending rows: no data invariant needed
            ctx.ok('R1', cons + '::from-set by WHERE', 'jobs.state = Pending required by the WHERE')
        elif name == 'mark_job_complete' and children:
            # frozen exception 1: the children of the completing job (the job whose state this routine read; its key is taken from that read)
            pkeys = sorted({k for _, _, k, _ in reads})
            ctx.need(len(pkeys) == 1, f'{name}: the state of the completing job is not read for exactly one key (batch_id, job_id): {pkeys}')
            pvars = state_vars(r.ast, pkeys[0])
            fs, _ = from_states(N('update', frm=st.frm, sets=[], where=None), guard, pvars)
            ok = sr.has_eq(st.where, 'parent_id', pkeys[0][1])
            ctx.check(ok and fs == {'Ready', 'Creating', 'Running'}, 'R1', cons + '::children precondition',
                      f'children are not selected through job_parents.parent_id = {pkeys[0][1]} inside the branch where the parent was Ready/Creating/Running (it is reached for {sorted(fs)}): '
                      'the "children of a non-terminal job are Pending" argument no longer applies', r.file, r.line_of(st))
            froms = {'Pending'}
            ctx.assume('a job with at least one non-terminal parent is Pending (n_pending_parents > 0); maintained by C05 rules')
            children_release_threshold(ctx, r, st, v, cons)
        elif name == 'commit_batch_update':
            # frozen exception 2: jobs of the update being committed
            verdict, why = update_range_confinement(r.ast, st, guard, rl)
            ctx.need(verdict != 'unknown', f'{name}: cannot decide whether the commit-time recount is confined to the update being committed: {why}')
            # the statement must be unreachable for an update that is already committed, and for update 1 (whose jobs are inserted with their final state)
            prov = var_provenance(r.ast)
            cvars = {x for x, (t, c, sel) in prov.items() if t == 'batch_updates' and c == 'committed' and sr.has_eq(sel.where, 'batch_id', 'in_batch_id') and sr.has_eq(sel.where, 'update_id', 'in_update_id')}
            reads_committed = any(q.kind == 'select' and q.frm is not None and 'batch_updates' in [t.lower() for t in sf.table_names(q.frm)] and
                                  any(n.kind == 'col' and n.parts[-1].lower() == 'committed' for c_, _ in q.cols for n in c_.walk()) for q in sf.all_statements(r.ast.body))
            ctx.need(bool(cvars) or not reads_committed, f'{name}: batch_updates.committed is read, but not into a variable for the row (in_batch_id, in_update_id): cannot decide whether a committed update is recounted')
            when_committed = all(pol in may(c, lambda n: 1 if (sr.is_var(n) and n.parts[0].lower() in cvars) else UNKNOWN) for c, pol in guard)
            when_first = all(pol in may(c, lambda n: 1 if sr.is_var(n, 'in_update_id') else UNKNOWN) for c, pol in guard)
            why2 = []
            if verdict == 'bad':
                why2.append(why)
            if when_committed:
                why2.append('the statement is also reached when the update is already committed' + ('' if cvars else ' (the routine never reads batch_updates.committed)')
                            + ': repeating the commit recounts jobs that may be running or complete by now')
            if when_first:
                why2.append('the statement is also reached for update 1, whose jobs are created Ready/Pending with their final counters')
            ctx.check(verdict == 'ok' and not when_committed and not when_first, 'R1', cons + '::update range precondition',
                      'the recount is not confined to the reserved job-id range of a not-yet-committed update > 1: ' + '; '.join(why2), r.file, r.line_of(st))
            froms = {'Pending'}
            ctx.assume('jobs of an update > 1 that is not committed are Pending (inserted Pending, C05-R1; see C41 finding for the exception)')
            commit_release_threshold(ctx, r, st, v, cons)
        else:
            if single_row:
                froms, constrained = from_states(st, guard, svars)
                locked = all(l == 'FOR UPDATE' for l in svars.values()) and bool(svars)
                if constrained and any(any(n.kind == 'col' and len(n.parts) == 1 and n.parts[0].lower() in svars for n in c.walk()) for c, _ in guard):
                    ctx.check(locked, 'R1', cons + '::locked read', 'the state the guard tests was not read FOR UPDATE in the same transaction (it may be stale when the write happens)',
                              r.file, r.line_of(st))
            else:
                froms, constrained = from_states(st, guard, {})
            if not constrained:
                # positive evidence only: every variable the path condition tests must be understood (a parameter, or a value read from a table other than the
                # state of a job row under another key, or a SET-local that was substituted); otherwise the guard may well restrict the state in a way not modelled
                other_state_vars = {x for x, _, k, _ in reads if x not in svars}
                odd = sorted({x for c, _ in guard for x in (rl.opaque_locals(c) | ({n.parts[0].lower() for n in c.walk() if sr.is_var(n)} & other_state_vars))})
                ctx.need(not odd, f'{name}: cannot decide which states the rows written by `{text(st)[:70]}` may be in: the path condition tests {odd}, whose relation to jobs.state is not modelled')
                ctx.bad('R1', cons, f'nothing on the path or in the WHERE restricts the old state of the rows written; e.g. a Success job would become {sorted(tos)[0]}', r.file, r.line_of(st))
                continue
        badp = sorted((f, t) for f in froms for t in tos if t != '<unchanged>' and t != f and t not in ALLOWED[f])
        ctx.check(not badp, 'R1', cons, f'can move a job {badp[0][0]} -> {badp[0][1]}, which the lifecycle forbids (all illegal pairs: {badp})' if badp else '',
                  r.file, r.line_of(st), detail={'from': sorted(froms), 'to': sorted(tos)})
    # triggers that rewrite the state of the row being written (SET NEW.state = ..)
    for name, r in sorted(prog.routines.items()):
        a = r.ast
        if r.kind != 'trigger' or a.table.lower() != 'jobs':
            continue
        for st, guard in sf.guarded_statements(a.body):
            if st.kind != 'set':
                continue
            for t, v in st.assigns:
                if t.kind == 'col' and len(t.parts) == 2 and t.parts[0].upper() == 'NEW' and t.parts[1].lower() == 'state':
                    n_sites += 1
                    tos = to_values(v, param_domain) if not (v.kind == 'col' and text(v).lower() == 'old.state') else {'<unchanged>'}
                    froms = set()
                    for s_ in STATES:
                        if all(pol in may(c, lambda n, s_=s_: s_ if (n.kind == 'col' and text(n).lower() == 'old.state') else UNKNOWN) for c, pol in guard):
                            froms.add(s_)
                    badp = sorted((f, t_) for f in froms for t_ in tos if t_ != '<unchanged>' and t_ != f and t_ not in ALLOWED[f])
                    ctx.check(not badp, 'R1', f'{r.file}::{name}::SET NEW.state = {text(v)}', f'trigger {name} can turn a job {badp[0][0]} -> {badp[0][1]} whatever the statement wrote '
                              f'(illegal pairs: {badp})' if badp else '', r.file, r.line_of(st), detail={'from': sorted(froms), 'to': sorted(tos)})
    # embedded Python writers
    for rel in pf.walk_py(PY_DIRS):
        m = pf.load(rel)
        if 'jobs' not in m.src:
            continue
        for e in sf.embedded_in(m):
            if e.sql_text is None or not any(w in e.sql_text for w in ('jobs', '`jobs`')):
                continue
            for st in e.stmts():
                if st.kind == 'insert' and st.table.lower() == 'jobs':
                    n_sites += 1
                    ctx.need(st.cols is not None and 'state' in [c.lower() for c in st.cols], f'{rel}: INSERT INTO jobs without a state column')
                    elts = sr.args_tuple(e.fn, e.call.args[1] if len(e.call.args) > 1 else None)
                    # find the enclosing function that builds the tuple (may be the outer function)
                    fn = e.fn
                    outer = m.enclosing_func(fn) if fn is not None else None
                    if elts is None and outer is not None:
                        elts = sr.args_tuple(outer, e.call.args[1])
                        fn = outer
                    ctx.need(elts is not None and len(elts) == len(st.cols), f'{rel}:{e.lineno}: cannot bind INSERT INTO jobs arguments')
                    sexpr = elts[[c.lower() for c in st.cols].index('state')]
                    vals = cf4.string_values(m, fn, sexpr)
                    ctx.need(vals is not None, f'{rel}:{e.lineno}: initial job state is not a resolvable literal')
                    ctx.check(vals <= {'Pending', 'Ready'}, 'R1', f'{rel}::{e.qual}::INSERT INTO jobs', f'jobs can be created in state {sorted(vals - {"Pending", "Ready"})}',
                              m.path, e.lineno, detail=sorted(vals))
                elif state_sets(st) is not None:
                    n_sites += 1
                    ctx.bad('R1', f'{rel}::{e.qual}::{text(st)[:80]}', 'jobs.state is written outside the stored procedures that guard the lifecycle', m.path, e.lineno)
    ctx.unit('jobs_state_writers', n_sites)


LIVE = {'Ready', 'Creating', 'Running'}


def _gids(g) -> Set[Tuple[int, bool]]:
    return {(id(c), p) for c, p in g}


def r2(ctx: Ctx, prog: sf.SqlProgram) -> None:
    """Decided on path conditions (sf.guarded_statements: IF / ELSEIF chains, nested IFs and LEAVE guard clauses give the same conditions), with the
    variables resolved through the reads that bind them - no variable name is interpreted."""
    r = prog.routine('mark_job_complete')
    a = r.ast
    rl = cf4.RoutineLocals(a)
    cons = f'{r.file}::mark_job_complete'
    stmts = [(st, g0, rl.expand_guard(g0)) for st, g0 in sf.guarded_statements(a.body)]
    tally = [(st, g0, g) for st, g0, g in stmts if any(t.lower() == TALLY_TBL for t, _ in sf.written_tables(st))]
    # the job this routine completes: the key of its state read(s)
    reads = state_reads(a)
    keys = sorted({k for _, _, k, _ in reads})
    ctx.need(len(keys) == 1, f'mark_job_complete: the job state is not read into a variable for exactly one key (batch_id, job_id): {keys}')
    key = keys[0]
    svars = state_vars(a, key)

    def mentions(g, names: Set[str]) -> Set[str]:
        return {n.parts[0].lower() for c, _ in g for n in c.walk() if sr.is_var(n)} & names

    def not_understood(g) -> List[str]:
        return sorted({x for c, _ in g for x in rl.opaque_locals(c)})

    callers = {name for name, rr in prog.routines.items() for q in sf.all_statements(rr.ast.body) if q.kind == 'call' and
               any(t.lower() == TALLY_TBL for x in sf.all_statements(prog.routines[q.name].ast.body if q.name in prog.routines else []) for t, _ in sf.written_tables(x))}
    ctx.need(bool(tally), 'mark_job_complete: no statement of the routine writes the completion tallies' + (f' (they are written by a procedure called from {sorted(callers)}; not seen through)' if callers else ''))

    # variables holding the attempt the job row currently belongs to, and the parameter(s) they are compared with
    avars: Set[str] = set()
    attempt_read_odd = False
    for q in sf.all_statements(a.body):
        if q.kind == 'select' and q.frm is not None and [t.lower() for t in sf.table_names(q.frm)] == ['jobs']:
            for i, (c, _) in enumerate(q.cols):
                if any(n.kind == 'col' and n.parts[-1].lower() == 'attempt_id' for n in c.walk()):
                    if q.into and c.kind == 'col' and i < len(q.into) and sr.is_var(q.into[i]) and cf4.job_key(q.where) == key:
                        avars.add(q.into[i].parts[0].lower())
                    else:
                        attempt_read_odd = True
    params = {p_[1].lower() for p_ in a.params}
    aparams: Set[str] = set()
    for _, _, g in stmts:
        for c, _ in g:
            for n in c.walk():
                if n.kind == 'bin' and n.op in ('=', '!=', '<>', '<=>') and sr.is_var(n.left) and sr.is_var(n.right):
                    l_, r_ = n.left.parts[0].lower(), n.right.parts[0].lower()
                    if l_ in avars and r_ in params:
                        aparams.add(r_)
                    if r_ in avars and l_ in params:
                        aparams.add(l_)

    def feasible(g, stale: bool) -> bool:
        """may the path condition hold for a report whose attempt id differs from / equals the job's current attempt (both not NULL)?"""
        def known(n: N):
            if sr.is_var(n):
                nm = n.parts[0].lower()
                if nm in avars:
                    return 'attempt-current'
                if nm in aparams:
                    return 'attempt-reported' if stale else 'attempt-current'
            return UNKNOWN
        return all(pol in may(c, known) for c, pol in g)

    # -- the live-state test is made on a value read FOR UPDATE
    tested = set()
    for st, g0, g in tally:
        tested |= mentions(g, set(svars))
    unlocked = sorted(v for v in tested if svars[v] != 'FOR UPDATE')
    if tested:
        ctx.check(not unlocked, 'R2', cons + '::state read FOR UPDATE',
                  f'the job state tested before the tallies are incremented ({unlocked}) is not read from the job row FOR UPDATE: two completion reports could both see a live state and both count the job', r.file, r.line)
    # -- exactly one statement increments the tallies
    ctx.check(len(tally) == 1, 'R2', cons + '::single tally branch', f'tallies are incremented by {len(tally)} statements (path conditions: {[[("" if p else "NOT ") + text(c)[:50] for c, p in g] for _, _, g in tally]})',
              r.file, r.line_of(tally[0][0]))
    for st, g0, g in tally:
        live, _c = from_states(N('update', frm=st.frm, sets=[], where=None), g, svars)
        if live != LIVE:
            odd = not_understood(g)
            ctx.need(not odd, f'mark_job_complete: cannot decide for which job states the tallies are incremented: the path condition tests {odd}, which are not resolved')
        ctx.check(live == LIVE, 'R2', cons + '::tally guard', f'tallies are incremented when the job was in {sorted(live)}; a job already in a terminal state (or still Pending) must not be counted', r.file, r.line_of(st))
        # -- a report for a superseded attempt is recognised before anything is counted
        if not avars:
            ctx.need(not attempt_read_odd, 'mark_job_complete: jobs.attempt_id is read, but not into a variable for the row of the completing job: the stale-attempt test is not recognised')
        stale_counts = feasible(g, True)
        if stale_counts and avars:
            odd = not_understood(g)
            ctx.need(not odd, f'mark_job_complete: cannot decide whether a stale attempt is counted: the path condition tests {odd}, which are not resolved')
        ctx.check(not stale_counts, 'R2', cons + '::stale attempt first',
                  ('the tallies are incremented on a path that is also taken when the reported attempt id differs from the attempt the job currently belongs to' if avars else
                   'the routine never reads jobs.attempt_id, so the tallies are incremented whatever attempt reports') +
                  f' (path condition {[("" if p else "NOT ") + text(c)[:60] for c, p in g]}): a report for a superseded attempt must be recognised before anything is counted', r.file, r.line_of(st))
        # -- the statement that counts the job runs together with the write of its terminal state
        writes = [(q, q0) for q, q0, _ in stmts if state_sets(q) is not None and cf4.job_key(q.where, _jobs_quals(q.frm) if len(sf.from_tables(q.frm)) > 1 else None) == key]
        together = [q for q, q0 in writes if _gids(q0) <= _gids(g0)]
        if not together:
            ctx.need(not writes, 'mark_job_complete: the state of the completing job is written under a path condition that is not implied by that of the tally increment; their relation is not decided')
        ctx.check(bool(together), 'R2', cons + '::tally with state write', 'the routine counts the job but never writes the state of the job row (batch_id, job_id): a repeat report would count again', r.file, r.line_of(st))
        # -- every tally moves, n_completed by exactly one
        cols = {c_.parts[-1].lower(): v for c_, v in st.sets if c_.kind == 'col'}
        missing = sorted(set(TALLIES) - set(cols))
        ctx.check(not missing, 'R2', cons + '::tally columns', f'the single statement that maintains the tallies does not touch {missing}', r.file, r.line_of(st))
        inc = cols.get('n_completed')
        if inc is not None:
            d = sr.dup_increment('n_completed', inc, {})
            ctx.need(d is not None, f'mark_job_complete: n_completed is set to `{text(inc)}`, not recognised as n_completed +/- <amount>')
            sign, amount = d
            ctx.need(amount.kind == 'lit', f'mark_job_complete: n_completed moves by `{text(amount)}`, which is not a literal')
            ctx.check(sign == 1 and amount.value == 1, 'R2', cons + '::n_completed', f'n_completed is set to `{text(inc)}`, expected n_completed + 1', r.file, r.line_of(st))
    # -- nothing is written (and no procedure called) on a path taken only by stale reports, or for a job that was not live
    for st, g0, g in stmts:
        if not (sf.written_tables(st) or st.kind == 'call'):
            continue
        what = f'{st.kind.upper()} {st.name}' if st.kind == 'call' else f'{st.kind.upper()} {sorted({t.lower() for t, _ in sf.written_tables(st)})}'
        if avars and feasible(g, True) and not feasible(g, False):
            ctx.bad('R2', cons + f'::stale report writes nothing::{what}', f'`{text(st)[:80]}` runs only for a report whose attempt id differs from the job\'s current attempt: such a report must change nothing',
                    r.file, r.line_of(st))
        if mentions(g, set(svars)):
            fs, _c = from_states(N('update', frm=getattr(st, 'frm', None), sets=[], where=None), g, svars)
            bad_states = sorted(fs - LIVE)
            if bad_states and not_understood(g):
                raise AnalysisError(f'mark_job_complete: cannot decide for which job states `{text(st)[:60]}` runs: the path condition tests {not_understood(g)}')
            ctx.check(not bad_states, 'R2', cons + f'::only a live job is changed::{what}',
                      f'`{text(st)[:80]}` also runs when the job was {bad_states}: the already-complete / unexpected-state paths must be read-only', r.file, r.line_of(st))
    # closed world: nobody else increments the tallies
    called_by: Dict[str, Set[str]] = {}
    for name, rr in prog.routines.items():
        for q in sf.all_statements(rr.ast.body):
            if q.kind == 'call':
                called_by.setdefault(q.name.lower(), set()).add(name)
    for name, rr in sorted(prog.routines.items()):
        for st in sf.all_statements(rr.ast.body):
            for t, verb in sf.written_tables(st):
                if t.lower() == TALLY_TBL and name != 'mark_job_complete':
                    only_helper = rr.kind == 'procedure' and called_by.get(name.lower(), set()) == {'mark_job_complete'}
                    ctx.need(not only_helper, f'{name} writes the completion tallies and is called only from mark_job_complete (an extracted helper procedure): not seen through')
                    ctx.bad('R2', f'{rr.file}::{name}::writes {TALLY_TBL}', f'{name} also writes the completion tallies', rr.file, rr.line_of(st))
    ctx.ok('R2', 'sql::closed world of tally writers', sorted(n_ for n_, rr in prog.routines.items() if any(t.lower() == TALLY_TBL for q in sf.all_statements(rr.ast.body) for t, _ in sf.written_tables(q))))
    for rel in pf.walk_py(PY_DIRS):
        m = pf.load(rel)
        if TALLY_TBL not in m.src:
            continue
        for e in sf.embedded_in(m):
            if e.sql_text is None or TALLY_TBL not in e.sql_text:
                continue
            for st in e.stmts():
                for t, verb in sf.written_tables(st):
                    if t.lower() == TALLY_TBL:
                        # creation of the zero row is fine; increments are not
                        zero_insert = st.kind == 'insert' and not st.on_dup and all(c.lower() in ('id', 'job_group_id') for c in (st.cols or ['?']))
                        ctx.check(zero_insert, 'R2', f'{rel}::{e.qual}::writes {TALLY_TBL}', f'{verb} of the completion tallies outside mark_job_complete: {text(st)[:100]}', m.path, e.lineno)


JOB_PY = 'batch/batch/driver/job.py'
NOTIFY = ('notify_batch_job_complete', 'notify_job_group_on_job_complete')


def r3(ctx: Ctx) -> None:
    g = pf.load('batch/batch/globals.py')
    v = g.global_assign('complete_states')
    ctx.need(isinstance(v, (ast.Tuple, ast.List, ast.Set)), 'globals.complete_states is not a literal collection')
    vals = {pf.const_str(x) for x in v.elts}
    ctx.need(None not in vals, 'globals.complete_states has a member that is not a string literal')
    ctx.check(vals == TERMINAL, 'R3', 'batch/batch/globals.py::complete_states', f'complete_states is {sorted(vals)}; the terminal states are {sorted(TERMINAL)}', g.path, v.lineno)
    m0 = pf.load(JOB_PY)
    toplevel = {f.name: f for f in m0.tree.body if isinstance(f, (ast.FunctionDef, ast.AsyncFunctionDef))}
    ctx.need('mark_job_complete' in toplevel, f'{JOB_PY}::mark_job_complete not found')
    # module-level helpers through which a notification is reached are analysed inlined (an extracted `_notify_completion(..)` is seen through)
    reaches: Set[str] = set()
    changed = True
    while changed:
        changed = False
        for nm, f in toplevel.items():
            if nm in reaches or nm in NOTIFY:
                continue
            if any(isinstance(c, ast.Call) and isinstance(c.func, ast.Name) and (c.func.id in NOTIFY or c.func.id in reaches) for c in ast.walk(f)):
                reaches.add(nm)
                changed = True
    helpers = reaches - {'mark_job_complete'}
    if helpers & {c.func.id for c in ast.walk(toplevel['mark_job_complete']) if isinstance(c, ast.Call) and isinstance(c.func, ast.Name)}:
        m, il = inline.inline_functions(m0, 'mark_job_complete', exclude=tuple(n_ for n_ in toplevel if n_ not in helpers))
        hidden = [c for c in ast.walk(m.func('mark_job_complete')) if isinstance(c, ast.Call) and isinstance(c.func, ast.Name) and c.func.id in helpers]
        ctx.need(not hidden, f'{JOB_PY}::mark_job_complete: helper `{hidden[0].func.id if hidden else ""}` reaches a completion notification but is called in a form that cannot be inlined')
    else:
        m = m0
    fn = m.func('mark_job_complete')
    _call, rv = cf4.result_local(m, fn, 'mark_job_complete')
    # local names under which globals.complete_states (checked against the terminal set above) is imported
    names = {k: set(vals) for k, origin in m.imports().items() if origin.endswith('globals.complete_states')}
    bf = cf4.BranchFacts(m, fn, rv, TERMINAL, names)
    g_ = pf.cfg(fn)
    notif = g_.find(lambda n: any(pf.dotted(c.func) in NOTIFY for c in pf.node_calls(n)))
    ctx.need(len(notif) >= 2, 'driver mark_job_complete: completion notifications not found')
    for n in notif:
        which = next(pf.dotted(c.func) for c in pf.node_calls(n) if pf.dotted(c.func) in NOTIFY)
        cons = f'{m.rel}::mark_job_complete::{which}'
        # every path to the notification establishes  rc == 0  and  old_state not complete
        for fact, key, why in (('accepted', "after `rc != 0`", 'the procedure refused the report'), ('live', 'after `old_state in complete_states`', 'the job was already complete')):
            p = cf4.unestablished_path(g_, bf, n, fact, strict=True)
            if p is None:
                p2 = cf4.unestablished_path(g_, bf, n, fact, strict=False)
                if p2 is not None:
                    odd = [x for x in p2 if x.kind == 'test']
                    raise AnalysisError(f'{cons}: cannot decide whether the notification is reached only when {"rc == 0" if fact == "accepted" else "the old state was not complete"}: '
                                        f'the path through {", ".join(f"line {x.lineno} `{pf.nsrc(x.ast)[:50]}`" for x in odd[-3:])} tests the procedure result `{rv}` in a form that is not recognised')
            tests = [x for x in (p or []) if x.kind == 'test']
            ctx.check(p is None, 'R3', cons + f'::{key}', f'completion is notified even when {why}: path ' +
                      (' -> '.join(f'line {x.lineno} `{pf.nsrc(x.ast)[:40]}`' for x in tests[-4:]) or 'without any test') + ' reaches the notification', m.path, n.lineno)


LOCK_SUBJECTS = {'jobs', 'attempts', 'batches', 'batch_updates', 'job_groups'}
# columns that are written once when the row is inserted (the counter triggers state this assumption in their comments; C01 relies on it too)
IMMUTABLE_COLUMNS = {'job_group_id', 'cores_mcpu', 'always_run', 'inst_coll', 'user', 'update_id', 'batch_id', 'job_id', 'format_version', 'start_job_id', 'start_job_group_id'}


def r4(ctx: Ctx, prog: sf.SqlProgram) -> None:
    n = 0
    for name, r in sorted(prog.routines.items()):
        a = r.ast
        writes = {t.lower() for st in sf.all_statements(a.body) for t, _ in sf.written_tables(st)}
        writes_state = any(st.kind == 'update' and 'jobs' in [t.lower() for t in sf.table_names(st.frm)] and state_sets(st) is not None for st in sf.all_statements(a.body))
        if not (writes_state or TALLY_TBL in writes):
            continue
        stale, locked = sqltxn.stale_decisions(a)
        subj = {}
        for v, rd in locked.items():
            if rd.frm is None or not (LOCK_SUBJECTS & {t.lower() for t in sf.table_names(rd.frm)}):
                continue
            i = [t.parts[0].lower() for t in rd.into if t.kind == 'col'].index(v)
            col = rd.cols[i][0] if i < len(rd.cols) else None
            if isinstance(col, N) and col.kind == 'col' and col.parts[-1].lower() in IMMUTABLE_COLUMNS:
                continue  # a copy of a column nobody updates cannot go stale
            subj[v] = rd
        bad = [x for x in stale if x.var in subj]
        for v, rd in sorted(subj.items()):
            cons = f'sql::{name}::{v} is used inside the transaction that locked it'
            mine = [x for x in bad if x.var == v]
            n += 1
            if not mine:
                ctx.ok('R4', cons, {'locking_read': text(rd)[:90]})
                continue
            x = mine[0]
            ctx.bad('R4', cons, f'{name} reads `{v}` with the locking read `{text(rd)[:80]}`, then ends that transaction (`{x.boundary.what}` at line {r.line_of(x.boundary)}) and afterwards '
                    f'{"decides `" + text(x.stmt.branches[0][0])[:60] + "`" if x.how == "decision" else "uses it in `" + text(x.stmt)[:70] + "`"} on the value: the row lock is released at the '
                    f'boundary, so a second call for the same job (a worker retry overlapping the first request, or the canceller racing the worker) that runs between the two transactions '
                    f'reads the same live `{v}` and both calls take the live branch - the job is completed / counted twice', r.file, r.line_of(x.stmt),
                    extra={'boundary': x.boundary.what, 'uses': len(mine)})
    ctx.need(n > 0, 'R4: no routine writing jobs.state reads a row with a locking read (anchor vanished)')


def run(ctx: Ctx) -> None:
    ctx.explanation = 'Every writer of jobs.state in the effective SQL program and in Python-embedded SQL is enumerated; the from/to sets induced by guards are checked against the lifecycle relation.'
    ctx.rule('R1', 'writers of jobs.state: from-set (guards on the state read FOR UPDATE / WHERE) x to-set within the lifecycle relation; initial states within {Pending, Ready}', 16)
    ctx.rule('R2', 'completion tallies incremented once: single statement, live-state path condition on a FOR UPDATE read, with the state write; stale attempts excluded first; non-live paths read-only; closed world', 12)
    ctx.rule('R3', 'driver mirror: no completion notification when rc != 0 or old state already complete; complete_states == terminal set', 5)
    ctx.rule('R4', 'lock continuity: values read under a row lock are only used for decisions / writes while that transaction is open', 12)
    prog = sf.load_program()
    ctx.unit('effective_routines', len(prog.routines))
    r1(ctx, prog)
    r2(ctx, prog)
    r3(ctx)
    r4(ctx, prog)
