"""C05 Dependencies gate readiness; failed parents cancel children.

  R1  submission (engines/c05submit.py; nothing matched by local name, module-level helpers inlined): the per-job effect of the submission loop as
      a TRUTH TABLE over the atoms it tests (first update? absolute parent list empty? in-update parent list empty? + opaque atoms): a job is inserted
      Ready only when `first update and no parents`, otherwise Pending; n_pending_parents (linear form over the lengths of the request's lists) equals the
      number of job_parents rows; every parent id yields a row (batch, job, parent) - no filter / slice / one-shot iterator between the list and the
      insert; the edge insert rejects a repeated parent id.  if/else, defaults + guarded override, conditional expressions, boolean locals, nested
      ifs, loop vs comprehension vs extend give the same table.  A verdict that hinges on an opaque atom is declined, never reported.
  R2  completion of a parent - COMPOSITE effect of the effective mark_job_complete (called procedures inlined) on the dependents, by
      ABSTRACT execution (engines/jobgraphfacts.py): ids are opaque symbols, n_pending_parents of the dependent is a symbolic count
      whose class ({1, >= 2, ..}) is split exactly where the code compares it, new_state / the job's prior state / attempt-id relation /
      cancelled / always_run are enumerated where the code reads them; the rows each statement touches are decided from the normal form
      (equality closure) of its join and WHERE conditions against the canonical `dependents of this job in this batch`.  Required: with
      the job's own terminal transition and only then n -> n - 1, Ready iff n = 1 (always_run or not, whatever the outcome), cancelled
      iff it was or the parent did not succeed (flag not consulted for always_run); no other jobs row selected.  Insensitive to how
      the effect is split over statements, guards, helper procedures or join shapes.
  R3  commit of a later update - COMPOSITE effect of the effective commit_batch_update on a generic job of the update, same technique:
      the job's parents are count classes m[c] per (state of the parent's job row | no job row) x (earlier | same update); aggregates
      become linear forms over them; required n_pending_parents' == sum of the non-terminal classes as a normal form (independent of the
      stored count, which concurrent completions move), Ready iff 0, cancelled raised iff a finished parent is not Success; only when
      this call commits; selection = this batch, the update's reserved id range, aggregates grouped and joined per child
  R4  consumers: the schedulers start non-always-run jobs only with cancelled = 0 (always-run jobs regardless).  Every job query reachable from a
      scheduler's `user_runnable_jobs` - directly or through helper closures / methods; a parameterised query text is instantiated per call site with
      the Python constants bound to its `%s` parameters / f-string holes (engines/c0506facts.py part 1) - is classified by a truth table over
      (always_run, cancelled, state) and a three-valued evaluation of the guards on its call path: none may select always_run = 0 AND cancelled = 1 or
      a job that is not Ready; Ready always-run jobs are selected whatever cancelled / the group flag; ordinary jobs only while the group's ancestor
      walk found no cancellation [that part shared with C07-R5]; keyed by the loop's group.  Guards = enclosing ifs AND guard clauses in front of the
      query (`if cancelled: continue`), with single-definition locals expanded.  A FAIL needs a query that DEFINITELY runs in the offending case;
      guards / keys the analysis cannot evaluate are declined.  Declined when the jobs could be filtered in Python.
  R5  lossless flow of the parent ids from the request body to the insert (engines/c0506facts.py part 2): `absolute_parent_ids` (legacy `parent_ids`)
      and `in_update_parent_ids` are numbered in different id spaces (in-update k = job start + k - 1).  Abstract domain of list expressions
      (source, shift, concatenation, duplicate removal with the scope of its memory, filter, slice, or-selection, removal): (a) who-may-touch: every
      access to those keys in front_end/validate.py and front_end.py is a read, a move of the legacy alias, a default for a missing key, or a
      duplicate removal within ONE id space whose memory lives no longer than the list; (b) the list `_create_jobs` iterates for the job_parents rows
      and counts for n_pending_parents is absolute_parent_ids ++ in_update_parent_ids shifted by the same linear offset as the job id.
Sibling agreement (which parent states count as done) follows from checking R2 and R3 against the same terminal set.
Not decided: DAG arithmetic over interleavings; see C41 for uncommitted updates.
"""
from __future__ import annotations

import ast
from typing import Dict, List, Tuple

from engines import c0506facts as cf
from engines import c05submit as cs
from engines import jobgraphfacts as jg
from engines import pyfacts as pf
from engines import sqlfront as sf
from engines import sqlrules as sr
from engines.common import AnalysisError, AnchorRemoved, Ctx
from engines.sqlast import text

META = dict(
    category='other',
    text='The three places where dependency state is written (submission, parent completion, commit recount) are checked against the statement: the submission site '
         'structurally and by a lossless-flow rule for the parent-id lists from the request to the insert, the scheduler selections by truth tables over (always_run, cancelled, state) per instantiated query, the two stored routines by abstract execution over symbolic rows (opaque ids, symbolic counts split into classes where compared, enums split where read, row selections by normal form): initial state, '
         'decrement-by-one exactly with the parent\'s terminal transition, Ready iff last parent, failure propagation, terminal-state complement, untouched bystanders.',
    note='MySQL evaluates UPDATE assignments left to right (relied upon by the repository for IF(n_pending_parents = 1, ..) before the decrement). Triggers are checked not to write the '
         'modelled tables. Trusted: SQL parser, the abstract executor (engines/jobgraphfacts.py).',
    technique='static analysis: abstract execution of extracted SQL routine bodies over symbolic values with explicit case splits + normal forms of row selections + truth table over the atoms of the submission loop (helpers inlined, def-use resolved) '
              '+ abstract domain of list expressions (lossless flow) + truth tables over flag valuations of SQL selections instantiated per call site',
    design_ref='DESIGN.md §3 C05',
)

STATES = ['Pending', 'Ready', 'Creating', 'Running', 'Success', 'Failed', 'Error', 'Cancelled']
TERMINAL = {'Success', 'Failed', 'Error', 'Cancelled'}


_submission = None


def submission() -> cs.Submission:
    global _submission
    if _submission is None:
        _submission = cs.Submission()
    return _submission


def r1(ctx: Ctx) -> None:
    """Submission site, decided on the function with its module-level helpers inlined (engines/c05submit.py).  Nothing is matched by name:
    the jobs / job_parents rows are found through the INSERT statements they are passed to, the parent list is the iterable of the
    job_parents rows, `first update` is a comparison of whatever feeds jobs.update_id with 1.  The per-job effect is a truth table over the
    atoms (first update?, absolute parent list empty?, in-update parent list empty?, + opaque atoms): a FAIL needs a valuation of the
    known atoms under which the violation occurs whatever the opaque ones are; otherwise the rule declines."""
    S = submission()
    m, fn = S.m, S.fn
    cons = f'{S.m0.rel}::_create_jobs'
    path = S.m0.path
    declines: List[str] = []
    pe, pst = S.need_insert('job_parents')
    je, jst = S.need_insert('jobs')
    prow = S.rows('job_parents')
    jl = S.job_loop()
    jrow = jl.row
    ctx.need({'state', 'n_pending_parents', 'update_id', 'job_id', 'batch_id'} <= set(jrow), f'_create_jobs: the jobs insert does not bind state / n_pending_parents / update_id / job_id / batch_id (columns {sorted(jrow)})')
    # ---- job_parents rows ------------------------------------------------------------------------------------------------
    rows_len = None
    pkeys: List[str] = []
    rows_bad = None
    if prow.problem:
        it = prow.chunk_iter
        desc = cs.one_shot_iterator(m, it[0], it[1]) if it is not None else None
        txn = cs.runs_in_retried_transaction(m, pe.fn)
        created_outside = it is not None and isinstance(it[1], ast.Name) and cs.binding_scope(m, pe.fn, it[1].id) is not pe.fn
        if desc is not None and txn is not None and created_outside:
            rows_bad = (f'the rows of the job_parents insert are drawn from {desc}, created once outside `{m.qualname(pe.fn)}`, which runs inside the transaction `{txn}`: '
                        'when the transaction body is re-run after a transient MySQL error (deadlock, lost connection) the iterator is already exhausted and the jobs are committed WITHOUT their '
                        'job_parents rows - at the commit of a later update they are recounted to 0 pending parents and become Ready while their parents are still running', pe.lineno)
        else:
            declines.append(f'_create_jobs: rows of the job_parents insert: {prow.problem}')
    else:
        pmap = S.colmap('job_parents')
        ctx.need(set(pmap) == {'batch_id', 'job_id', 'parent_id'} and pe.method == 'execute_many', f'_create_jobs: the job_parents insert does not bind exactly (batch_id, job_id, parent_id) through execute_many (columns {sorted(pmap)})')
        ctx.need(len(prow.binders) == 2 and prow.binders[0][2] is jl.loop and isinstance(prow.binders[1][0], ast.Name),
                 '_create_jobs: the job_parents rows are not produced by one loop / comprehension over a parent list inside the loop over the job specs')
        ptarget, piter, _ = prow.binders[1]
        same = {c: pf.nsrc(jl._root(pmap[c])) == pf.nsrc(jl._root(jrow[c])) for c in ('batch_id', 'job_id')}
        if isinstance(pmap['parent_id'], ast.Name) and pmap['parent_id'].id == ptarget.id and all(same.values()):
            pass
        elif isinstance(pmap['job_id'], ast.Name) and pmap['job_id'].id == ptarget.id and pf.nsrc(jl._root(pmap['parent_id'])) == pf.nsrc(jl._root(jrow['job_id'])) and same['batch_id']:
            rows_bad = (f'the job_parents rows are ({", ".join(pf.nsrc(x) for x in prow.elts)}) for columns ({", ".join(pst.cols)}): job and parent are swapped, the edge points the wrong way '
                        '(the parent waits for the child; the child is never decremented)', pe.lineno)
        else:
            declines.append(f'_create_jobs: the job_parents rows ({", ".join(pf.nsrc(x) for x in prow.elts)}) are not recognisably (batch, this job, the iterated parent id)')
        summ = jl.list_summary(piter)
        if summ is None:
            declines.append(f'_create_jobs: the list iterated for the job_parents rows, `{pf.nsrc(piter)[:60]}`, is not a recognised combination of the request\'s parent-id lists')
        else:
            hard = [l for l in summ.losses if not l[0].startswith('dedup')]
            if hard and rows_bad is None:
                rows_bad = (f'not every parent id produces a (batch_id, job_id, parent_id) row in job_parents: {hard[0][1]} (a missing edge lets a child start before that parent)', getattr(hard[0][2], 'lineno', pe.lineno))
            pkeys = sorted(summ.keys())
            rows_len = jl.list_length(piter)
        filt = [(t, pol, k) for t, pol, k in prow.conds if k != 'raise']
        for t, pol, k in filt:
            if ptarget.id in pf.names_in(t) and rows_bad is None:
                mem = cf.ListEval(m, fn)._dedup_test(t, ptarget.id, positive=pol)
                if mem is not None:
                    declines.append(f'_create_jobs: the job_parents rows are de-duplicated through `{mem}` while they are appended: count vs rows not decided')
                else:
                    rows_bad = (f'a job_parents row is only written when `{"" if pol else "not "}{pf.nsrc(t)[:80]}`: the other parents get no edge although they are counted in n_pending_parents '
                                '(the child is never decremented for them - or, uncounted, starts before they finish)', getattr(t, 'lineno', pe.lineno))
            elif rows_bad is None:
                declines.append(f'_create_jobs: the job_parents rows are appended under the condition `{pf.nsrc(t)[:60]}`')
    if rows_bad is not None:
        ctx.bad('R1', cons + '::job_parents rows', rows_bad[0], path, rows_bad[1])
    elif not declines:
        ctx.ok('R1', cons + '::job_parents rows', {'parents': pkeys, 'rows': repr(rows_len)})
    # ---- Ready condition / initial states ----------------------------------------------------------------------------------
    extra = [cs.A_FIRST] + [cs.a_empty(k) for k in pkeys]

    def no_parents(kv: Dict[str, bool]) -> bool:
        return all(kv.get(cs.a_empty(k), False) for k in pkeys)

    def v_ready(o: cs.Outcome, kv: Dict[str, bool]):
        if o.values.get('state') == 'Ready' and not (kv.get(cs.A_FIRST, False) and no_parents(kv)):
            why = []
            if not kv.get(cs.A_FIRST, False):
                why.append('in an update other than the first (its parents of earlier updates may still be running; the commit-time recount is what makes such a job Ready)')
            if not no_parents(kv):
                why.append('although it names parents in ' + ' / '.join(repr(k) for k in pkeys if not kv.get(cs.a_empty(k), False)))
            return f'a job is inserted Ready {" and ".join(why)} [case: {cs.describe(kv)}]; it must require both "no parents" and "first update"'
        return None

    def v_states(o: cs.Outcome, kv: Dict[str, bool]):
        st = o.values.get('state')
        if st is not cs.UNKNOWN and st not in ('Ready', 'Pending'):
            return f'a job is inserted in state {st!r} [case: {cs.describe(kv)}]; a new job is Ready or Pending'
        return None
    if pkeys or not declines:
        unknown_state = [o for o in jl.outcomes if not o.rejected and o.values.get('state') is cs.UNKNOWN]
        for key, viol in (('::Ready condition', v_ready), ('::initial states', v_states)):
            definite, possible = jl.judge(viol, extra)
            if definite is not None:
                ctx.bad('R1', cons + key, definite[1], path, getattr(jl.row_site, 'lineno', 0))
            elif possible is not None:
                declines.append(f'_create_jobs: {possible[1]} - but only for a particular outcome of {sorted(jl.opaque.values())[:3]}, which the analysis cannot relate to the parents / the update')
            elif unknown_state:
                declines.append(f'_create_jobs: the state inserted for a job is `{pf.nsrc(cs.strip_markers(unknown_state[0].exprs["state"]))[:60]}`, not a constant the analysis can follow')
            else:
                ctx.ok('R1', cons + key, {'cases': len(jl.outcomes)})
    # ---- n_pending_parents == number of rows -----------------------------------------------------------------------------------
    if rows_len is not None:
        def v_count(o: cs.Outcome, kv: Dict[str, bool]):
            if o.count is None:
                return None
            verdict, msg = cs.compare_lengths(o.count, rows_len)
            return f'n_pending_parents receives `{pf.nsrc(cs.strip_markers(o.exprs["n_pending_parents"]))[:80]}` [case: {cs.describe(kv)}]: {msg}; a surplus is never decremented (the job stays Pending for ever), a deficit makes the job Ready while a parent is still running' if verdict == 'differs' else None
        definite, possible = jl.judge(v_count, extra)
        undecided = [o for o in jl.outcomes if not o.rejected and (o.count is None or cs.compare_lengths(o.count, rows_len)[0] == 'unknown')]
        if definite is not None:
            ctx.bad('R1', cons + '::n_pending_parents', definite[1], path, getattr(jl.row_site, 'lineno', 0))
        elif possible is not None or undecided:
            o = (undecided or [possible[0]])[0]
            declines.append(f'_create_jobs: n_pending_parents receives `{pf.nsrc(cs.strip_markers(o.exprs["n_pending_parents"]))[:60]}`: not comparable with the number of job_parents rows ({rows_len!r})')
        else:
            ctx.ok('R1', cons + '::n_pending_parents', {'count': repr(rows_len)})
    # the stored count is the LENGTH of the list while the rows are keyed (batch_id, job_id, parent_id): the two agree only because a repeated parent id is
    # rejected by the primary key.  An insert that tolerates the duplicate (IGNORE / ON DUPLICATE KEY / REPLACE) stores fewer edges than the count:
    # the surplus is never decremented and the child never becomes Ready.
    strict = not getattr(pst, 'ignore', False) and not getattr(pst, 'replace', False) and not getattr(pst, 'on_dup', None)
    ctx.check(strict, 'R1', cons + '::count equals rows', 'the job_parents insert tolerates a repeated parent id (IGNORE / REPLACE / ON DUPLICATE KEY) while n_pending_parents counts the list with repeats: '
              'a job submitted with parent_ids [p, p] gets n_pending_parents = 2 but one edge, is decremented once when p finishes and stays Pending for ever', path, pe.lineno)
    ctx.unit('submission_sites', 1)
    ctx.unit('submission_truth_table_cases', len(jl.outcomes))
    if declines:
        raise AnalysisError(declines[0])


def _show(v: object) -> str:
    return 'NULL' if v is None else (repr(v) if isinstance(v, jg.Lin) else str(v))


def r2(ctx: Ctx, prog: sf.SqlProgram) -> None:
    """COMPOSITE effect of the effective mark_job_complete (called procedures inlined) on the dependents of the finishing job, by
    ABSTRACT execution (engines/jobgraphfacts.py): ids are opaque symbols, the dependent's n_pending_parents is the symbolic count n
    (class split {1, >= 2, ...} exactly where the code compares it), new_state / the job's prior state / the stored attempt id /
    the dependent's cancelled and always_run flags are enumerated where the code reads them; which rows a statement touches is decided
    from the normal form of its join and WHERE conditions (equality closure), not by running it.  In every case the table of the
    property must come out, however the effect is split over statements, guards, helper procedures or join shapes:
    with the job's own terminal transition - and only then - n becomes n - 1 (as a linear form), the dependent is Ready iff n = 1
    (whatever the parent's outcome, always_run or not), cancelled' = cancelled OR new_state != Success (not consulted for always_run
    dependents); every statement that writes `jobs` selects either the job itself or exactly its dependents in this batch."""
    r = prog.routine('mark_job_complete')
    params = jg.routine_params(prog, 'mark_job_complete')
    ctx.need({'in_batch_id', 'in_job_id', 'new_state'} <= set(params), f'mark_job_complete: parameters {params} (expected in_batch_id, in_job_id, new_state)')
    jg.need_no_trigger_feedback(prog, ['jobs', 'job_parents'])
    cons = f'{r.file}::mark_job_complete::children update'
    scn, syms = jg.mark_job_complete_scenario(prog, groups=False)
    n0 = jg.Lin({'n': 1}, 0)
    stmts_seen: List[str] = []
    lines: List[int] = []

    def run(case: jg.Case):
        fails: Dict[str, str] = {}
        try:
            ex = jg.run_mark_job_complete(prog, scn, syms, case)
        except jg.Mismatch as mm:
            if mm.table != 'jobs':
                raise AnalysisError(f'mark_job_complete: {mm.what}')
            return {'children only': (f'`{text(mm.st)[:110]}`: {mm.what}', r.line_of(mm.st))}, False
        E = ex.E
        for s_ in jg.statement_texts(ex, 'jobs'):
            if s_ not in stmts_seen:
                stmts_seen.append(s_)
        for _, st_, rk in ex.writes:
            if rk == ('jobs', 'child') and r.line_of(st_) not in lines and st_ in list(sf.all_statements(r.ast.body)):
                lines.append(r.line_of(st_))
        trans, pre, post = jg.own_transition(ex)
        child = ex.rows[('jobs', 'child')]
        for col in ('state', 'n_pending_parents', 'cancelled'):
            ctx.need(child[col] is not jg.UNK, f'mark_job_complete: jobs.{col} of the dependents receives a value the abstraction cannot determine')
        n1 = child['n_pending_parents']
        st1 = E.res(child['state'])
        c_same = isinstance(child['cancelled'], jg.EnumVal) and child['cancelled'].name == 'child_cancelled'
        if not trans:
            changed = (not E.eq(n1, n0)) or st1 != 'Pending' or (not c_same and E.res(child['cancelled']) != E.res(jg.EnumVal('child_cancelled')))
            if changed:
                fails['only with the transition'] = (f'the job itself makes no terminal transition in this call (its state stays {post}), yet its dependent becomes '
                                                     f'(state={st1}, n_pending_parents={_show(n1)}, cancelled={_show(child["cancelled"] if c_same else E.res(child["cancelled"]))}): a repeated or rejected '
                                                     'completion message must not count the parent again')
            return fails, False
        ns = E.res(jg.EnumVal('new_state'))
        if not E.eq(n1, n0 - jg.Lin({}, 1)):
            fails['decrement'] = f'the pending count n becomes {_show(n1)}, expected n - 1 (exactly one parent finished)'
        want_state = 'Ready' if E.eq(n0, 1) else 'Pending'
        if st1 != want_state:
            fails['Ready threshold'] = (f'the dependent ends in state {st1}, expected {want_state}: it must become Ready exactly when its last pending parent finishes, whatever the parent\'s outcome and '
                                        'for always_run jobs too (a dependent moved anywhere else is never run / never completed, and its own dependents wait for ever)')
        c0 = E.res(jg.EnumVal('child_cancelled'))
        c1 = c0 if c_same else E.res(child['cancelled'])
        want_c = bool(c0 or ns != 'Success')
        if bool(c1) != want_c:
            if not ('child_always_run' in case.choice and case.choice['child_always_run'] == 1):
                fails['failure propagation'] = (f'the dependent gets cancelled={_show(c1)}, expected {int(want_c)}: ' +
                                                (f'a parent that ends {ns} did not succeed, so the dependent must not run' if want_c else 'a successful parent must not cancel its dependent'))
        return fails, True

    results = jg.explore(scn.dom, run)
    n_trans = sum(1 for _, (f_, t_) in results if t_)
    mism = any('children only' in f_ for _, (f_, t_) in results)
    ctx.need(n_trans > 0 or mism, 'mark_job_complete: no abstract case makes the job\'s own terminal transition (own-state update not recognised)')
    ctx.need(stmts_seen or mism, 'mark_job_complete: no statement updates jobs')
    first: Dict[str, Tuple[str, str, int]] = {}
    for case, (fails, _) in results:
        for k, v in fails.items():
            msg, ln = v if isinstance(v, tuple) else (v, 0)
            first.setdefault(k, (case.describe(), msg, ln))
    line = lines[0] if lines else r.line
    detail = {'abstract_cases': len(results), 'with_transition': n_trans, 'statements': stmts_seen}
    for key in ('decrement', 'Ready threshold', 'failure propagation', 'children only', 'only with the transition'):
        if key in first:
            where, msg, ln = first[key]
            ctx.bad('R2', f'{cons}::{key}', f'case [{where}]: {msg} [statements writing jobs: {stmts_seen}]', r.file, ln or line)
        else:
            ctx.ok('R2', f'{cons}::{key}', detail)
    ctx.unit('completion_abstract_cases', len(results))


NONTERMINAL = {'Pending', 'Ready', 'Creating', 'Running'}


def r3(ctx: Ctx, prog: sf.SqlProgram) -> None:
    """Commit of a later update: COMPOSITE effect of the effective commit_batch_update on a generic job of the update, by ABSTRACT
    execution.  The job's parent edges are abstracted to count classes m[c] (0 / >= 1, split where the code tests them) per class c =
    (state of the parent's job row, or no job row) x (parent of an earlier update | of the same update); aggregates SUM(f(state)) of
    the recount become linear forms sum f(c) * m[c], f being tabulated over the enum; the stored n_pending_parents is the free symbol
    v0.  Required in every case in which this call commits an update (id >= 2) with jobs: n_pending_parents' = sum of m[c] over the
    non-terminal classes AS A NORMAL FORM (in particular independent of v0: parents that finished while the update was open have
    already been subtracted from it), Ready iff that sum is 0, cancelled' = cancelled OR some finished earlier parent is not Success;
    otherwise the job is left alone.  Which jobs the statement ranges over is decided from the normal form of its conditions: this
    batch, the id range reserved by the update, aggregates grouped and joined per child."""
    r = prog.routine('commit_batch_update')
    params = jg.routine_params(prog, 'commit_batch_update')
    ctx.need({'in_batch_id', 'in_update_id'} <= set(params), f'commit_batch_update: parameters {params}')
    jg.need_no_trigger_feedback(prog, ['jobs', 'job_parents', 'batch_updates', jg.STAGING, 'batches', 'job_groups'])
    cons = f'{r.file}::commit_batch_update::recount'
    writers = [st for st in sf.all_statements(r.ast.body) if st.kind == 'update' and 'jobs' in [t.lower() for t, _ in sf.written_tables(st)]]
    ctx.need(writers, 'commit_batch_update: no statement updates jobs (recount not found)')
    line = r.line_of(writers[0])
    scn, syms = jg.commit_scenario(prog)
    pend = jg.Lin({jg.pc_sym(pc): 1 for pc in jg.PARENT_CLASSES if pc[0] in NONTERMINAL}, 0)
    failed_l = jg.Lin({jg.pc_sym(pc): 1 for pc in jg.PARENT_CLASSES if pc[0] is not None and pc[0] not in NONTERMINAL and pc[0] != 'Success'}, 0)
    missing_l = jg.Lin({jg.pc_sym((None, True)): 1}, 0)
    v0 = jg.Lin({'v0': 1}, 0)
    stmts_seen: List[str] = []

    def run(case: jg.Case):
        fails: Dict[str, Tuple[str, int]] = {}
        try:
            ex = jg.AbsExec(prog, scn, case)
            ex.tolerate = {'job_groups', 'batches'}
            ex.call('commit_batch_update', {'in_batch_id': syms['B'], 'in_update_id': syms['U'], 'in_timestamp': jg.Sym('commit_timestamp')})
        except jg.Mismatch as mm:
            if mm.table != 'jobs':
                raise AnalysisError(f'commit_batch_update: {mm.what}')
            return {(mm.kind or 'range'): (f'`{text(mm.st)[:90]}`: {mm.what}', r.line_of(mm.st))}, False
        except jg.DependsOn as dp:
            return {'model': (f'the recount decides the new state / count of the job by testing `{dp.form}` against 0, i.e. from the STORED n_pending_parents (v0).  The stored count is not stable between '
                              'the insertion of the job and the commit: mark_job_complete decrements the children of a finishing job whether or not their update is committed, so a parent of an earlier update '
                              'that finishes in that window is taken off twice - the child becomes Ready while another parent is still running', line)}, True
        E = ex.E
        for s_ in jg.statement_texts(ex, 'jobs'):
            if s_ not in stmts_seen:
                stmts_seen.append(s_)
        child = ex.rows[('jobs', 'child')]
        for col in ('state', 'n_pending_parents', 'cancelled'):
            ctx.need(child[col] is not jg.UNK, f'commit_batch_update: jobs.{col} receives a value the abstraction cannot determine')
        upd = ex.rows[('batch_updates', 'u')]['committed']
        committed_now = not isinstance(upd, jg.EnumVal) and bool(E.res(upd)) and case.choice.get('committed') == 0
        c_same = isinstance(child['cancelled'], jg.EnumVal)
        n1 = child['n_pending_parents']
        st1 = E.res(child['state'])
        untouched = jg.lin_of(n1) is not None and case.norm(jg.lin_of(n1) - v0).is_const() and case.norm(jg.lin_of(n1) - v0).const == 0 and st1 == 'Pending' and c_same
        applicable = committed_now and case.sign(jg.Lin({'NU': 1}, 0)) > 0 and case.sign(jg.lin_of(syms['U']) - jg.Lin({}, 1)) > 0
        if not applicable:
            if not untouched and not committed_now:
                fails['model'] = ('this call does not commit the update (already committed, or the staged job count does not match), yet a job of the update is rewritten to '
                                  f'(state={st1}, n_pending_parents={_show(n1)}): jobs that are already running would be set back', line)
            return fails, False
        l1 = jg.lin_of(n1)
        ctx.need(l1 is not None, 'commit_batch_update: n_pending_parents receives a non-numeric value')
        d = case.norm(l1 - pend)
        if 'v0' in d.coef:
            fails['model'] = (f'the new n_pending_parents is {_show(n1)}: it depends on the STORED count (v0), which parents that finished while the update was open have already decremented '
                              '(mark_job_complete decrements the children of a finishing job whether or not their update is committed); the recount must be a function of the parents\' states only: '
                              f'expected {pend!r}', line)
        elif not E.eq(n1, pend):
            fails['model'] = (f'the new n_pending_parents is {_show(n1)}, expected the number of parents that are not in a terminal state, {pend!r} '
                              '(a parent id without a job row must not block the child for ever; a parentless job has 0)', line)
        want_state = 'Ready' if case.sign(pend) == 0 else 'Pending'
        if st1 != want_state and 'model' not in fails:
            fails['model'] = (f'the job ends in state {st1}, expected {want_state} (Ready exactly when no parent is left in a non-terminal state; a parentless job of the update must become Ready, '
                              'otherwise it never runs)', line)
        missing = case.sign(missing_l) > 0
        failed = case.sign(failed_l) > 0
        c0 = E.res(jg.EnumVal('child_cancelled'))
        c1 = c0 if c_same else E.res(child['cancelled'])
        if not missing and bool(c1) != bool(failed or c0) and 'model' not in fails:
            fails['model'] = (f'the job gets cancelled={_show(c1)}, expected {int(bool(failed or c0))} (raised exactly when some already finished parent did not succeed - also while other parents '
                              'are still running - and never lowered)', line)
        return fails, True

    results = jg.explore(scn.dom, run)
    n_app = sum(1 for _, (f_, a_) in results if a_)
    mism = any(k in ('range', 'per child', 'other batch') for _, (f_, a_) in results for k in f_)
    ctx.need(n_app > 0 or mism, 'commit_batch_update: no abstract case commits a later update with jobs (commit path not recognised)')
    first: Dict[str, Tuple[str, str, int]] = {}
    for case, (fails, _) in results:
        for k, (msg, ln) in fails.items():
            first.setdefault(k, (case.describe(), msg, ln))
    detail = {'abstract_cases': len(results), 'committing_cases': n_app, 'parent_classes': len(jg.PARENT_CLASSES), 'statements': stmts_seen}
    for key in ('model', 'per child', 'range', 'other batch'):
        if key in first:
            where, msg, ln = first[key]
            ctx.bad('R3', f'{cons}::{key}', f'case [{where}]: {msg} [statements writing jobs: {stmts_seen}]', r.file, ln or line, extra={'cases': len(results)})
        else:
            ctx.ok('R3', f'{cons}::{key}', detail)
    ctx.unit('recount_abstract_cases', len(results))


SCHEDULERS = (('batch/batch/driver/instance_collection/pool.py', 'PoolScheduler.schedule_loop_body.user_runnable_jobs'),
              ('batch/batch/driver/instance_collection/job_private.py', 'JobPrivateInstanceManager.create_instances_loop_body.user_runnable_jobs'))


def r4(ctx: Ctx, prog: sf.SqlProgram) -> None:
    """Consumers of the cancelled flag.  For each scheduler, every job query reachable from `user_runnable_jobs` - directly or through
    helper closures / methods, a parameterised query text being instantiated per call site with the Python constants bound to its
    `%s` parameters (and string constants spliced into f-string holes) - is classified by a truth table over the atoms
    (always_run, cancelled, state): which classes of jobs may it select; and by a three-valued evaluation of the guards on its call
    path: for which values of the group-cancelled flag does it run.  Required: no instantiation may select a job with always_run = 0
    and cancelled = 1, or a job that is not Ready; always-run Ready jobs are selected whatever cancelled and the flag are; jobs that are
    not always-run are selected only while the group's ancestor walk found no cancellation [shared with C07-R5]; every query is keyed by
    the (batch_id, job_group_id) of the group the enclosing loop is at."""
    schema = jg.full_schema(prog)
    for rel, q in SCHEDULERS:
        m = pf.load(rel)
        fn = m.func(q)
        what = f'{rel}::{q}'
        F = cf.scheduler_facts(m, fn, what, guard_clauses=True)
        lv = F.loop_var
        # the group-cancelled flag of the loop's record, however it is read (`rec['c']`, `rec.get('c')`); guards are looked at with single-definition
        # locals expanded (`cancelled = rec['c']; if not cancelled:`)
        flag_src = (f"{lv}['{F.flag_col}']", f"{lv}.get('{F.flag_col}')") if F.flag_col is not None and F.walk_ok else None
        covered_must = set()
        covered_may = set()
        declines: List[str] = []

        def expand(e: ast.expr) -> ast.expr:
            return pf.expand_locals(fn, e)
        for inst in F.jobs:
            jc = cf.job_classes(inst, schema)
            ctx.need(not jc['unbound'], f'{what}: a parameter compared with always_run / cancelled / state is not bound to a constant at its call site ({jc["unbound"][:2]})')
            gs = [(expand(t), pol) for t, pol in inst.guards]
            runs_may = {gc for gc in (0, 1) if all(cf.guard3(t, pol, fn, flag_src, bool(gc)) is not False for t, pol in gs)}
            runs_must = {gc for gc in (0, 1) if all(cf.guard3(t, pol, fn, flag_src, bool(gc)) is True for t, pol in gs)}
            may_, must_ = jc['may'], jc['must']
            ars = sorted({a for a, _, _ in may_})
            cs_ = sorted({c for _, c, _ in may_})
            via = ''.join(f' via {h}' for h in inst.chain)
            cons = f'{what}::jobs query{via} always_run={"|".join(map(str, ars)) or "-"} cancelled={"|".join(map(str, cs_)) or "-"}'
            guards = [("" if pol else "not ") + f'({pf.nsrc(t)})' for t, pol in inst.guards]
            # keyed by the group the enclosing loop is at: the bound expressions with locals expanded must be the loop record's own ids
            kx = {c: (pf.nsrc(expand(jc['key_expr'][c])) if jc['key_expr'].get(c) is not None else None) for c in ('batch_id', 'job_group_id')}
            keyed = all(kx[c] in (f"{lv}['{c}']", f"{lv}.get('{c}')") for c in kx)
            key_wrong = any(kx[c] is None or (kx[c] not in (f"{lv}['{c}']", f"{lv}.get('{c}')") and (kx[c].startswith(f'{lv}[') or kx[c].startswith(f'{lv}.get(') or kx[c].lstrip('-').isdigit())) for c in kx)
            problems = []
            undecided = []
            if runs_may and any((0, 1, s_) in may_ for s_ in STATES):
                ctx.need(not jc['cancelled_projected'], f'{what}: a job query that can select always_run = 0 AND cancelled = 1 jobs also fetches jobs.cancelled: the jobs may be filtered in Python, which this rule does not analyse')
                if runs_must:
                    problems.append('it can select a job with always_run = 0 and cancelled = 1: a Ready child of a parent that did not succeed (mark_job_complete / commit_batch_update set jobs.cancelled = 1 on it) is handed to '
                                    'schedule_job, which POSTs it to a worker before the stored procedure refuses it - the job runs although a parent failed')
                else:
                    undecided.append('whether the query that can select always_run = 0 AND cancelled = 1 jobs runs at all depends on guards the analysis cannot evaluate')
            notready = sorted({s_ for _, _, s_ in may_ if s_ != 'Ready'})
            if runs_may and notready:
                if runs_must:
                    problems.append(f'it can select jobs in state {notready}: only Ready jobs (all parents terminal) may be started')
                else:
                    undecided.append('whether the query that can select jobs that are not Ready runs at all depends on guards the analysis cannot evaluate')
            if 1 in runs_may and any(a == 0 for a, _, _ in may_):
                if 1 in runs_must:
                    problems.append('jobs that are not always-run are offered although the group\'s ancestor walk found a cancellation'
                                    + ('' if flag_src else ' (the cancelled flag of the job-group query is not the canonical ancestor walk, so no guard on it is recognised)'))
                else:
                    undecided.append(f'whether ordinary jobs are offered for a group whose ancestor walk found a cancellation depends on guards the analysis cannot evaluate ({guards})')
            if not keyed:
                if key_wrong:
                    problems.append(f'it is not keyed by the group of the enclosing loop (batch_id <- {kx["batch_id"]}, job_group_id <- {kx["job_group_id"]}; expected {lv}[\'batch_id\'], {lv}[\'job_group_id\'])')
                else:
                    undecided.append(f'the query is keyed by batch_id <- {kx["batch_id"]}, job_group_id <- {kx["job_group_id"]}: not recognisably the ids of the loop\'s group `{lv}`')
            for gc in runs_must:
                covered_must |= {(a, c, gc) for a, c, s_ in must_ if s_ == 'Ready'} if keyed else set()
            for gc in runs_may:
                covered_may |= {(a, c, gc) for a, c, s_ in may_ if s_ == 'Ready'} if keyed else set()
            if problems or not undecided:
                ctx.check(not problems, 'R4', cons, f'this instantiation of the job query (conjuncts on always_run / cancelled / state: {jc["conj"]}; guards on the call path: {guards or "none"}): ' + '; '.join(problems),
                          m.path, inst.lineno)
            if undecided:
                declines.append(f'{what}: ' + undecided[0])
        if declines:
            raise AnalysisError(declines[0])
        want = {(1, c, gc) for c in (0, 1) for gc in (0, 1)}
        cons = f'{what}::always-run jobs are offered regardless'
        if want <= covered_must:
            ctx.ok('R4', cons, {'covered': sorted(covered_must)})
        elif not want <= covered_may:
            miss = sorted(want - covered_may)
            ctx.bad('R4', cons, f'no job query selects Ready always-run jobs with (cancelled, group cancelled) in {[(c, g) for _, c, g in miss]}: an always-run child of a failed parent (cancelled = 1) must still run', m.path, fn.lineno)
        else:
            raise AnalysisError(f'{what}: whether always-run jobs are selected in every case depends on guards / conjuncts the analysis cannot evaluate')


def r5(ctx: Ctx) -> None:
    """Lossless flow of the parent ids (engines/c0506facts.py part 2).  The two lists of a job spec, `absolute_parent_ids` (legacy
    `parent_ids`) and `in_update_parent_ids`, are numbered in different id spaces.  R1 fixes what happens to `parent_ids` at the
    insert; this rule extends it upstream: (a) in the validator stage (every function of front_end/validate.py) and in front_end.py
    every operation on those keys is one of the closed table {read, move/rename of the legacy alias, duplicate removal WITHIN one id
    space with a memory that lives no longer than the list} - filtering, slicing, element removal, `or`-selection, duplicate
    removal across lists / id spaces / jobs, discarding or overwriting a list are violations, other shapes are declined; (b) the
    list `_create_jobs` iterates for the job_parents rows and counts for n_pending_parents denotes, as a normal form over that
    domain, absolute_parent_ids ++ [k + shift for k in in_update_parent_ids] with the SAME linear shift that turns the in-update
    job index into the job id."""
    fm = pf.load('batch/batch/front_end/front_end.py')
    vm = pf.load('batch/batch/front_end/validate.py')
    fm.func('_create_jobs')
    findings = []
    # (b) what feeds the rows and the count: found through the INSERT statements (no local names), on the function with its helpers inlined
    S = submission()
    prow = S.rows('job_parents')
    jl = S.job_loop()
    rows_iter = count_arg = None
    if not prow.problem and len(prow.binders) == 2 and prow.binders[0][2] is jl.loop:
        rows_iter = prow.binders[1][1]
    cnt = jl._resolve(jl.row['n_pending_parents']) if 'n_pending_parents' in jl.row else None
    if isinstance(cnt, ast.Call) and pf.dotted(cnt.func) == 'len' and len(cnt.args) == 1:
        count_arg = cnt.args[0]
    ctx.need(rows_iter is not None and count_arg is not None, '_create_jobs: the loop that produces the job_parents rows / the len(..) that feeds n_pending_parents not found')
    rows_iter, count_arg = jl._through_tuples(rows_iter), jl._through_tuples(count_arg)
    findings += cf.check_parent_ids_value(S.m, S.fn, rows_iter, 'list iterated for the job_parents rows')
    if pf.nsrc(count_arg) != pf.nsrc(rows_iter):
        findings += cf.check_parent_ids_value(S.m, S.fn, count_arg, 'list counted for n_pending_parents')
    # (a) who touches the keys, and how
    n_sites = 0
    for mod in (vm, fm):
        sites = cf.touch_sites(mod)
        n_sites += len(sites)
        fs = cf.check_key_writers(mod)
        findings += fs
        if not any(f.status != 'ok' for f in fs):
            findings.append(cf.FlowFinding('ok', f'{mod.rel}::every access to the parent-id keys keeps the lists intact', f'{len(sites)} access(es): ' + ', '.join(sorted({f"{mod.qualname(t.fn)}:{t.how}" for t in sites})), 0))
    ctx.need(n_sites >= 3, 'accesses to the parent-id keys of a job spec not found (validator rename, the two reads of _create_jobs)')
    if ctx.tier == 'thorough':
        for rel in pf.walk_py(['batch/batch']):
            if rel in (vm.rel, fm.rel):
                continue
            mod = pf.load(rel)
            if not any(k in mod.src for k in cf.PARENT_KEYS):
                continue
            findings += [f for f in cf.check_key_writers(mod) if f.status != 'ok']
    undec = [f for f in findings if f.status == 'undecided']
    for f in findings:
        if f.status == 'ok':
            ctx.ok('R5', f.construct, f.message)
        elif f.status == 'bad':
            ctx.bad('R5', f.construct, f.message, (vm.path if f.construct.startswith(vm.rel) else fm.path), f.line)
    ctx.need(not undec or any(f.status == 'bad' for f in findings), undec[0].construct + ': ' + undec[0].message if undec else '')


def run(ctx: Ctx) -> None:
    ctx.explanation = ('Clause-by-clause check of the three writers of dependency state, of the path the parent ids take from the request to the insert, and of the scheduler selections that consume the cancelled flag '
                       '(seen through query helpers).')
    ctx.rule('R1', 'submission (truth table over first-update / parent-lists-empty atoms of the job loop, helpers inlined): Ready only for first-update jobs without parents; n_pending_parents = number of job_parents rows; one row per parent (no filter, no one-shot iterator), duplicates rejected', 5)
    ctx.rule('R2', 'parent completion, composite effect of mark_job_complete on the dependents (abstract execution): with the job\'s own terminal transition and only then: count - 1, Ready iff last pending parent, cancelled iff parent not Success (flag irrelevant for always_run), nothing but this job\'s children touched', 5)
    ctx.rule('R3', 'commit recount, composite effect of commit_batch_update on a job of the update (abstract execution over parent count classes): pending = non-terminal parents, Ready iff 0, cancelled iff a finished parent failed; per child; only the update\'s own jobs; only this batch', 4)
    ctx.rule('R4', 'schedulers start non-always-run jobs only with cancelled = 0; always-run jobs regardless', 4)
    ctx.rule('R5', 'lossless flow of the parent ids from the request to the insert: the validator stage and front_end.py only read / move the two parent-id lists or de-duplicate them within one id space; '
             'the list that feeds the job_parents rows and n_pending_parents is absolute_parent_ids ++ in_update_parent_ids shifted by the same offset as the job id', 4)
    ctx.assume('the schema validators of hailtop.utils.validate (job_validator.validate) do not modify the job spec they check')
    ctx.assume('MySQL applies the SET assignments of an UPDATE left to right, later assignments seeing earlier new values (documented for single-table UPDATE; the repository relies on it for the multi-table children update)')
    prog = sf.load_program()
    # every rule is evaluated even when an earlier one declines: a violation established by a recognised shape is reported, otherwise the first decline stands
    first = None
    for step in (lambda: r1(ctx), lambda: r2(ctx, prog), lambda: r3(ctx, prog), lambda: r4(ctx, prog), lambda: r5(ctx)):
        try:
            step()
        except AnchorRemoved:
            raise
        except AnalysisError as e:
            first = first or e
    if first is not None:
        raise first
