"""C05 Dependencies gate readiness; failed parents cancel children.

  R1  submission: a job is inserted Ready only on the path `first update and no parents`; n_pending_parents receives the number of
      parents; every parent id yields a job_parents row (batch, job, parent)
  R2  completion of a parent (mark_job_complete children update): the pending count drops by exactly one, the child becomes Ready iff
      that was the last pending parent (threshold consistent with the assignment order), cancelled is raised iff the parent did not
      succeed, and exactly the children of this job in this batch are touched
  R3  commit of a later update (commit_batch_update recount): pending parents == parents not in a terminal state (truth table over the
      8 states), Ready iff that count is 0, cancelled raised iff some finished parent is not Success, stored count == recount
  R4  consumers: the schedulers start non-always-run jobs only with cancelled = 0 (always-run jobs regardless)  [shared with C07-R5]
Not decided: DAG arithmetic over interleavings; see C41 for uncommitted updates.
"""
from __future__ import annotations

import ast
import itertools
from typing import Dict, List, Optional

from engines import pyfacts as pf
from engines import sqlfront as sf
from engines import sqlrules as sr
from engines.common import AnalysisError, Ctx
from engines.sqlast import N, text
from engines.sqleval import ev

META = dict(
    category='other',
    text='The three places where dependency state is written (submission, parent completion, commit recount) are checked clause by clause against the '
         'statement: initial state, decrement-by-one with a threshold consistent with assignment order, terminal-state complement by truth table, failure propagation.',
    note='MySQL evaluates single-row UPDATE assignments left to right (relied upon by the repository for IF(n_pending_parents = 1, ..) before the decrement). Trusted: SQL parser/evaluator.',
    technique='static analysis: SQL AST rules + truth tables over the job-state domain + Python def-use at the submission site',
    design_ref='DESIGN.md §3 C05',
)

STATES = ['Pending', 'Ready', 'Creating', 'Running', 'Success', 'Failed', 'Error', 'Cancelled']
TERMINAL = {'Success', 'Failed', 'Error', 'Cancelled'}


def r1(ctx: Ctx) -> None:
    m = pf.load('batch/batch/front_end/front_end.py')
    fn = m.func('_create_jobs')
    ifs = [n for n in pf.walk_shallow(fn) if isinstance(n, ast.If) and any(isinstance(s, ast.Assign) and pf.nsrc(s.targets[0]) == 'state' and pf.const_str(s.value) == 'Ready' for s in n.body)]
    ctx.need(len(ifs) == 1, '_create_jobs: branch assigning state = Ready not found exactly once')
    br = ifs[0]
    cons = f'{m.rel}::_create_jobs'
    atoms = sorted(pf.nsrc(v) for v in (br.test.values if isinstance(br.test, ast.BoolOp) and isinstance(br.test.op, ast.And) else [br.test]))
    ctx.check(atoms == ['len(parent_ids) == 0', 'update_id == 1'], 'R1', cons + '::Ready condition',
              f'a job is inserted Ready when `{pf.nsrc(br.test)}`; it must require both "no parents" and "first update" (later updates may depend on running jobs of earlier ones)', m.path, br.lineno)
    other = [pf.const_str(s.value) for s in ast.walk(fn) if isinstance(s, ast.Assign) and pf.nsrc(s.targets[0]) == 'state' and pf.const_str(s.value) is not None]
    ctx.check(sorted(other) == ['Pending', 'Ready'], 'R1', cons + '::initial states', f'initial job states assigned: {sorted(other)}', m.path, br.lineno)
    # jobs row: n_pending_parents <- len(parent_ids); job_parents rows
    jobs_tuple = None
    parents_append = []
    for n in pf.walk_shallow(fn):
        if isinstance(n, ast.Call) and pf.dotted(n.func) == 'jobs_args.append' and isinstance(n.args[0], ast.Tuple):
            jobs_tuple = n.args[0]
        if isinstance(n, ast.Call) and pf.dotted(n.func) == 'job_parents_args.append':
            parents_append.append(n)
    embs = {}
    for e in sf.embedded_in(m):
        if e.qual.startswith('_create_jobs'):
            for st in e.stmts():
                if st.kind == 'insert':
                    embs[st.table.lower()] = (e, st)
    ctx.need(jobs_tuple is not None and 'jobs' in embs and 'job_parents' in embs, '_create_jobs: jobs / job_parents inserts not found')
    je, jst = embs['jobs']
    ctx.need(jst.cols is not None and len(jst.cols) == len(jobs_tuple.elts), '_create_jobs: jobs insert arity')
    jmap = {c.lower(): pf.nsrc(x) for c, x in zip(jst.cols, jobs_tuple.elts)}
    ctx.check(jmap.get('n_pending_parents') == 'len(parent_ids)', 'R1', cons + '::n_pending_parents', f'n_pending_parents column receives `{jmap.get("n_pending_parents")}`, expected len(parent_ids)', m.path, jobs_tuple.lineno)
    ok = len(parents_append) == 1
    if ok:
        call = parents_append[0]
        loops = [p for p in sr.enclosing_loops(m, call)]
        ok = bool(loops) and pf.nsrc(loops[0].iter) == 'parent_ids' and isinstance(call.args[0], ast.Tuple) and \
            [pf.nsrc(x) for x in call.args[0].elts] == ['batch_id', 'job_id', pf.nsrc(loops[0].target)] and not sr.enclosing_ifs(m, call, stop=loops[0])
    pe, pst = embs['job_parents']
    ok = ok and [c.lower() for c in (pst.cols or [])] == ['batch_id', 'job_id', 'parent_id'] and pf.nsrc(pe.call.args[1]) == 'job_parents_args' and pe.method == 'execute_many'
    ctx.check(ok, 'R1', cons + '::job_parents rows', 'not every id in parent_ids produces a (batch_id, job_id, parent_id) row in job_parents (a missing edge lets a child start before that parent)', m.path, pe.lineno)
    # parent_ids is what the dependency count and the rows are both derived from: same variable in the Ready test
    ctx.unit('submission_sites', 1)


def r2(ctx: Ctx, prog: sf.SqlProgram) -> None:
    r = prog.routine('mark_job_complete')
    sts = [(st, g) for st, g in sf.guarded_statements(r.ast.body) if st.kind == 'update' and 'job_parents' in [t.lower() for t in sf.table_names(st.frm)]]
    ctx.need(len(sts) == 1, 'mark_job_complete: children update not found exactly once')
    st, guard = sts[0]
    cons = f'{r.file}::mark_job_complete::children update'
    sets = [(text(c).lower().split('.')[-1], v) for c, v in st.sets if c.kind == 'col' and (len(c.parts) == 1 or c.parts[-2].lower() == 'jobs')]
    names = [n for n, _ in sets]
    d = dict(sets)
    ctx.need({'state', 'n_pending_parents', 'cancelled'} <= set(names), 'children update does not set state, n_pending_parents and cancelled')
    dec = d['n_pending_parents']
    ctx.check(text(dec).lower() in ('(jobs.n_pending_parents - 1)', '(n_pending_parents - 1)'), 'R2', cons + '::decrement', f'pending count is set to `{text(dec)}`, expected n_pending_parents - 1 '
              '(one parent finished)', r.file, r.line_of(st))
    # threshold consistent with assignment order
    before = names.index('state') < names.index('n_pending_parents')
    sv = d['state']
    ok = sv.kind == 'func' and sv.name == 'IF' and len(sv.args) == 3 and text(sv.args[1]) == "'Ready'" and text(sv.args[2]) == "'Pending'" and \
        sv.args[0].kind == 'bin' and sv.args[0].op == '=' and text(sv.args[0].left).lower().split('.')[-1] == 'n_pending_parents' and \
        sv.args[0].right.kind == 'lit' and sv.args[0].right.value == (1 if before else 0)
    ctx.check(ok, 'R2', cons + '::Ready threshold', f'state is set to `{text(sv)}` {"before" if before else "after"} the decrement; the child must become Ready exactly when its last pending parent '
              f'finishes (compare the count with {1 if before else 0} at this position)', r.file, r.line_of(st))
    cv = d['cancelled']
    wrong = None
    if cv.kind == 'func' and cv.name == 'IF':
        for ns, old in itertools.product(sorted(TERMINAL), (0, 1)):
            got = ev(cv, lambda c: ns if text(c).lower() == 'new_state' else old)
            want = old if ns == 'Success' else 1
            if got != want:
                wrong = (ns, old, got, want)
    else:
        wrong = ('?', '?', text(cv), 'IF(new_state = Success, cancelled, 1)')
    ctx.check(wrong is None, 'R2', cons + '::failure propagation', f'when the parent ends in {wrong[0]} and the child had cancelled={wrong[1]} the child gets cancelled={wrong[2]}, expected {wrong[3]}' if wrong else '',
              r.file, r.line_of(st))
    on = [text(c).lower() for j in st.frm.joins for c in sf.conjuncts(j.on)]
    where = [text(c).lower() for c in sf.conjuncts(st.where)]
    joined = '(jobs.batch_id = job_parents.batch_id)' in on and '(jobs.job_id = job_parents.job_id)' in on
    scoped = '(job_parents.parent_id = in_job_id)' in where and ('(job_parents.batch_id = in_batch_id)' in where or '(jobs.batch_id = in_batch_id)' in where)
    inner = any(j.jtype == 'INNER' and j.ref.kind == 'table' and j.ref.name.lower() == 'job_parents' for j in st.frm.joins)
    ctx.check(joined and scoped and inner, 'R2', cons + '::children only', 'the rows updated are not exactly the jobs having this job as parent in this batch', r.file, r.line_of(st))


NONTERMINAL = {'Pending', 'Ready', 'Creating', 'Running'}


def _agg_eval(e: N, rows: List[Dict[str, object]], consts: Dict[str, object]):
    """Evaluate a select-list expression of a GROUP BY sub-select over the rows of one group (aggregates: SUM, COUNT, MAX, MIN)."""
    from engines.sqleval import Unbound

    def row_env(row):
        def env(c: N):
            t = text(c).lower().replace('`', '')
            if t in row:
                return row[t]
            if t in consts:
                return consts[t]
            last = t.split('.')[-1]
            if last in row:
                return row[last]
            raise AnalysisError(f'recount sub-select reads `{t}` which the model does not provide')
        return env
    if e.kind == 'func' and e.name in ('SUM', 'COUNT', 'MAX', 'MIN'):
        if e.name == 'COUNT' and e.args and e.args[0].kind == 'star':
            return len(rows)
        vals = [ev(e.args[0], row_env(r)) for r in rows]
        vals = [int(v) if isinstance(v, bool) else v for v in vals if v is not None]
        if e.name == 'COUNT':
            return len(vals)
        if not vals:
            return None
        return {'SUM': sum, 'MAX': max, 'MIN': min}[e.name](vals)
    if e.kind == 'func' and e.name in ('COALESCE', 'IFNULL'):
        for a in e.args:
            v = _agg_eval(a, rows, consts)
            if v is not None:
                return v
        return None
    if e.kind == 'cast':
        return _agg_eval(e.arg, rows, consts)
    if e.kind == 'bin' and e.op in ('+', '-', '*'):
        a, b = _agg_eval(e.left, rows, consts), _agg_eval(e.right, rows, consts)
        if a is None or b is None:
            return None
        return {'+': a + b, '-': a - b, '*': a * b}[e.op]
    if e.kind == 'lit':
        return e.value
    if e.kind == 'col':
        # a grouping column: same for all rows
        return row_env(rows[0])(e) if rows else None
    raise AnalysisError(f'recount sub-select column `{text(e)[:60]}` uses a construct the model does not evaluate')


def r3(ctx: Ctx, prog: sf.SqlProgram) -> None:
    """Model evaluation of the commit-time recount: for every small multiset of parents (state or missing row, earlier update or same
    update) and every stored n_pending_parents value reachable before the commit, the statement must leave the child with
    n_pending_parents == number of non-terminal parents, Ready iff that is 0, cancelled raised iff a finished parent did not succeed."""
    r = prog.routine('commit_batch_update')
    sts = [(st, g) for st, g in sf.guarded_statements(r.ast.body) if st.kind == 'update' and sf.table_names(st.frm)[:1] == ['jobs']]
    ctx.need(len(sts) == 1, 'commit_batch_update: recount update not found')
    st, guard = sts[0]
    cons = f'{r.file}::commit_batch_update::recount'
    der = [t for t in sf.from_tables(st.frm) if t.kind == 'derived']
    ctx.need(len(der) == 1, 'commit_batch_update: recount sub-select not found')
    sub = der[0].select
    al = der[0].alias.lower()
    join = [j for j in st.frm.joins if j.ref is der[0]][0]
    ctx.need(sf.table_names(sub.frm)[0].lower() == 'job_parents', 'recount sub-select is not driven from job_parents')
    pj = [j for j in sub.frm.joins if j.ref.kind == 'table' and j.ref.name.lower() == 'jobs']
    ctx.need(len(pj) == 1, 'recount sub-select does not join the parents\' job rows')
    on = [text(c).lower().replace('`', '') for c in sf.conjuncts(pj[0].on)]
    okj = '(jobs.job_id = job_parents.parent_id)' in on and '(jobs.batch_id = job_parents.batch_id)' in on
    ctx.check(okj, 'R3', cons + '::parent join', 'the recount does not read each child\'s parents through job_parents.parent_id', r.file, r.line_of(st))
    grp = sorted(text(g).lower().replace('`', '') for g in sub.group)
    ctx.check(grp == ['job_parents.batch_id', 'job_parents.job_id'], 'R3', cons + '::grouping', f'parents are aggregated per {grp}, expected per child (batch_id, job_id)', r.file, r.line_of(st))
    outer_on = [text(c).lower() for c in sf.conjuncts(join.on)]
    ctx.check(f'(jobs.batch_id = {al}.batch_id)' in outer_on and f'(jobs.job_id = {al}.job_id)' in outer_on, 'R3', cons + '::child join', 'recount rows are not joined to the child by (batch_id, job_id)',
              r.file, r.line_of(st))
    START, N_JOBS, CHILD = 10, 10, 12
    consts = {'in_batch_id': 1, 'cur_update_start_job_id': START, 'staging_n_jobs': N_JOBS, 'expected_n_jobs': N_JOBS, 'in_update_id': 2, 'in_timestamp': 1000}
    options = [(s_, True) for s_ in STATES + [None]] + [('Pending', False)]
    import itertools as it
    parent_sets = [()] + [(o,) for o in options] + list(it.combinations_with_replacement(options, 2))
    sets = [(c, v) for c, v in st.sets if c.kind == 'col' and (len(c.parts) == 1 or c.parts[-2].lower() == 'jobs')]
    n_cases = 0
    bad = None
    for parents in parent_sets:
        rows = []
        for i, (pstate, earlier) in enumerate(parents):
            pid = (3 + i) if earlier else 11
            row = {'job_parents.batch_id': 1, 'job_parents.job_id': CHILD, 'job_parents.parent_id': pid, 'state': pstate, 'jobs.state': pstate,
                   'jobs.job_id': pid if pstate is not None else None, 'jobs.batch_id': 1 if pstate is not None else None}

            def wenv(c: N, row=row):
                t = text(c).lower().replace('`', '')
                if t in row:
                    return row[t]
                if t in consts:
                    return consts[t]
                raise AnalysisError(f'recount WHERE reads `{t}`')
            keep = all(bool(ev(c, wenv)) for c in sf.conjuncts(sub.where))
            if keep:
                rows.append(row)
        tvals: Dict[str, object] = {}
        matched = bool(rows)
        if matched:
            for c, a in sub.cols:
                name = (a or text(c).split('.')[-1]).lower().replace('`', '')
                tvals[name] = _agg_eval(c, rows, consts)
        if not matched and join.jtype != 'LEFT':
            outcomes = None  # child row not updated at all
        n_term_earlier = sum(1 for pstate, earlier in parents if earlier and pstate is not None and pstate not in NONTERMINAL)
        for k in range(0, n_term_earlier + 1):
            v0 = len(parents) - k
            for c_old in (0, 1):
                n_cases += 1
                cur = {'jobs.state': 'Pending', 'jobs.n_pending_parents': v0, 'jobs.cancelled': c_old}
                if matched or join.jtype == 'LEFT':
                    for col, val in sets:
                        def oenv(c: N):
                            t = text(c).lower().replace('`', '')
                            if t.startswith(al + '.'):
                                return tvals.get(t[len(al) + 1:]) if matched else None
                            if t in cur:
                                return cur[t]
                            if 'jobs.' + t in cur:
                                return cur['jobs.' + t]
                            if t in consts:
                                return consts[t]
                            if t.startswith('jobs_telemetry.'):
                                return None
                            raise AnalysisError(f'recount SET reads `{t}`')
                        cur['jobs.' + col.parts[-1].lower()] = ev(val, oenv)
                want_pending = sum(1 for pstate, _ in parents if pstate in NONTERMINAL)
                want_state = 'Ready' if want_pending == 0 else 'Pending'
                failed = any(pstate is not None and pstate not in NONTERMINAL and pstate != 'Success' for pstate, _ in parents)
                missing = any(pstate is None for pstate, _ in parents)
                got = (cur['jobs.state'], cur['jobs.n_pending_parents'], cur['jobs.cancelled'])
                ok = got[0] == want_state and got[1] == want_pending and (missing or bool(got[2]) == bool(failed or c_old))
                if not ok and bad is None:
                    bad = (parents, v0, c_old, got, (want_state, want_pending, int(failed or c_old)))
    if bad:
        parents, v0, c_old, got, want = bad
        desc = [f'{"missing row" if s_ is None else s_}{"" if e_ else " (same update)"}' for s_, e_ in parents]
        ctx.bad('R3', cons + '::model', f'child with parents {desc}, stored n_pending_parents={v0}, cancelled={c_old} before the commit ends as (state, n_pending_parents, cancelled)={got}; '
                f'the dependency rule requires {want} (pending = parents not in a terminal state; a stored count already decremented by a parent that finished while the update was open '
                'must not be decremented again, and a parent id without a job row must not block the child forever)', r.file, r.line_of(st), extra={'cases': n_cases})
    else:
        ctx.ok('R3', cons + '::model', {'cases': n_cases, 'parent_multisets': len(parent_sets)})
    ctx.unit('recount_model_cases', n_cases)


def r4(ctx: Ctx) -> None:
    # delegate to the C07-R5 analysis of the scheduler selections (same obligation), counting only scheduler sites
    from rules import c07
    sub = Ctx('C07', ctx.tier)
    sub.rule('R5', 'x', 0)
    c07.r5(sub)
    n = 0
    for inst in sub.instances:
        if 'user_runnable_jobs' in inst['construct']:
            n += 1
            if inst['holds']:
                ctx.ok('R4', inst['construct'], inst['detail'])
    for f in sub.findings:
        if 'user_runnable_jobs' in f.construct:
            ctx.bad('R4', f.construct, f.message, f.file, f.line)
    ctx.need(n >= 4, 'scheduler selections not found')


def run(ctx: Ctx) -> None:
    ctx.explanation = 'Clause-by-clause check of the three writers of dependency state and of the scheduler selections that consume the cancelled flag.'
    ctx.rule('R1', 'submission: Ready only for first-update jobs without parents; n_pending_parents = len(parent_ids); one job_parents row per parent', 4)
    ctx.rule('R2', 'parent completion: count - 1, Ready iff last pending parent (order-consistent threshold), cancelled iff parent not Success, exactly this job\'s children', 4)
    ctx.rule('R3', 'commit recount (model evaluation over parent multisets x reachable stored counts): pending = non-terminal parents, Ready iff 0, cancelled iff a finished parent failed', 4)
    ctx.rule('R4', 'schedulers start non-always-run jobs only with cancelled = 0; always-run jobs regardless', 4)
    ctx.assume('MySQL applies the SET assignments of an UPDATE left to right, later assignments seeing earlier new values (documented for single-table UPDATE; the repository relies on it for the multi-table children update)')
    prog = sf.load_program()
    r1(ctx)
    r2(ctx, prog)
    r3(ctx, prog)
    r4(ctx)
