"""C05 Dependencies gate readiness; failed parents cancel children.

  R1  submission: a job is inserted Ready only on the path `first update and no parents`; n_pending_parents receives the number of
      parents; every parent id yields a job_parents row (batch, job, parent)
  R2  completion of a parent (mark_job_complete children update): the pending count drops by exactly one, the child becomes Ready iff
      that was the last pending parent (threshold consistent with the assignment order), cancelled is raised iff the parent did not
      succeed, and exactly the children of this job in this batch are touched
  R3  commit of a later update (commit_batch_update recount): pending parents == parents not in a terminal state (truth table over the
      8 states), Ready iff that count is 0, cancelled raised iff some finished parent is not Success, stored count == recount
  R4  consumers: the schedulers start non-always-run jobs only with cancelled = 0 (always-run jobs regardless)  [shared with C07-R5]
Not decided: DAG arithmetic over interleavings; see C41 for uncommitted updates.
"""
from __future__ import annotations

import ast
import itertools
from typing import Dict, List, Optional

from engines import pyfacts as pf
from engines import sqlfront as sf
from engines import sqlrules as sr
from engines.common import AnalysisError, Ctx
from engines.sqlast import N, text
from engines.sqleval import ev

META = dict(
    category='other',
    text='The three places where dependency state is written (submission, parent completion, commit recount) are checked clause by clause against the '
         'statement: initial state, decrement-by-one with a threshold consistent with assignment order, terminal-state complement by truth table, failure propagation.',
    note='MySQL evaluates single-row UPDATE assignments left to right (relied upon by the repository for IF(n_pending_parents = 1, ..) before the decrement). Trusted: SQL parser/evaluator.',
    technique='static analysis: SQL AST rules + truth tables over the job-state domain + Python def-use at the submission site',
    design_ref='DESIGN.md §3 C05',
)

STATES = ['Pending', 'Ready', 'Creating', 'Running', 'Success', 'Failed', 'Error', 'Cancelled']
TERMINAL = {'Success', 'Failed', 'Error', 'Cancelled'}


def r1(ctx: Ctx) -> None:
    m = pf.load('batch/batch/front_end/front_end.py')
    fn = m.func('_create_jobs')
    ifs = [n for n in pf.walk_shallow(fn) if isinstance(n, ast.If) and any(isinstance(s, ast.Assign) and pf.nsrc(s.targets[0]) == 'state' and pf.const_str(s.value) == 'Ready' for s in n.body)]
    ctx.need(len(ifs) == 1, '_create_jobs: branch assigning state = Ready not found exactly once')
    br = ifs[0]
    cons = f'{m.rel}::_create_jobs'
    atoms = sorted(pf.nsrc(v) for v in (br.test.values if isinstance(br.test, ast.BoolOp) and isinstance(br.test.op, ast.And) else [br.test]))
    ctx.check(atoms == ['len(parent_ids) == 0', 'update_id == 1'], 'R1', cons + '::Ready condition',
              f'a job is inserted Ready when `{pf.nsrc(br.test)}`; it must require both "no parents" and "first update" (later updates may depend on running jobs of earlier ones)', m.path, br.lineno)
    other = [pf.const_str(s.value) for s in ast.walk(fn) if isinstance(s, ast.Assign) and pf.nsrc(s.targets[0]) == 'state' and pf.const_str(s.value) is not None]
    ctx.check(sorted(other) == ['Pending', 'Ready'], 'R1', cons + '::initial states', f'initial job states assigned: {sorted(other)}', m.path, br.lineno)
    # jobs row: n_pending_parents <- len(parent_ids); job_parents rows
    jobs_tuple = None
    parents_append = []
    for n in pf.walk_shallow(fn):
        if isinstance(n, ast.Call) and pf.dotted(n.func) == 'jobs_args.append' and isinstance(n.args[0], ast.Tuple):
            jobs_tuple = n.args[0]
        if isinstance(n, ast.Call) and pf.dotted(n.func) == 'job_parents_args.append':
            parents_append.append(n)
    embs = {}
    for e in sf.embedded_in(m):
        if e.qual.startswith('_create_jobs'):
            for st in e.stmts():
                if st.kind == 'insert':
                    embs[st.table.lower()] = (e, st)
    ctx.need(jobs_tuple is not None and 'jobs' in embs and 'job_parents' in embs, '_create_jobs: jobs / job_parents inserts not found')
    je, jst = embs['jobs']
    ctx.need(jst.cols is not None and len(jst.cols) == len(jobs_tuple.elts), '_create_jobs: jobs insert arity')
    jmap = {c.lower(): pf.nsrc(x) for c, x in zip(jst.cols, jobs_tuple.elts)}
    ctx.check(jmap.get('n_pending_parents') == 'len(parent_ids)', 'R1', cons + '::n_pending_parents', f'n_pending_parents column receives `{jmap.get("n_pending_parents")}`, expected len(parent_ids)', m.path, jobs_tuple.lineno)
    ok = len(parents_append) == 1
    if ok:
        call = parents_append[0]
        loops = [p for p in sr.enclosing_loops(m, call)]
        ok = bool(loops) and pf.nsrc(loops[0].iter) == 'parent_ids' and isinstance(call.args[0], ast.Tuple) and \
            [pf.nsrc(x) for x in call.args[0].elts] == ['batch_id', 'job_id', pf.nsrc(loops[0].target)] and not sr.enclosing_ifs(m, call, stop=loops[0])
    pe, pst = embs['job_parents']
    ok = ok and [c.lower() for c in (pst.cols or [])] == ['batch_id', 'job_id', 'parent_id'] and pf.nsrc(pe.call.args[1]) == 'job_parents_args' and pe.method == 'execute_many'
    ctx.check(ok, 'R1', cons + '::job_parents rows', 'not every id in parent_ids produces a (batch_id, job_id, parent_id) row in job_parents (a missing edge lets a child start before that parent)', m.path, pe.lineno)
    # parent_ids is what the dependency count and the rows are both derived from: same variable in the Ready test
    ctx.unit('submission_sites', 1)


def r2(ctx: Ctx, prog: sf.SqlProgram) -> None:
    r = prog.routine('mark_job_complete')
    sts = [(st, g) for st, g in sf.guarded_statements(r.ast.body) if st.kind == 'update' and 'job_parents' in [t.lower() for t in sf.table_names(st.frm)]]
    ctx.need(len(sts) == 1, 'mark_job_complete: children update not found exactly once')
    st, guard = sts[0]
    cons = f'{r.file}::mark_job_complete::children update'
    sets = [(text(c).lower().split('.')[-1], v) for c, v in st.sets if c.kind == 'col' and (len(c.parts) == 1 or c.parts[-2].lower() == 'jobs')]
    names = [n for n, _ in sets]
    d = dict(sets)
    ctx.need({'state', 'n_pending_parents', 'cancelled'} <= set(names), 'children update does not set state, n_pending_parents and cancelled')
    dec = d['n_pending_parents']
    ctx.check(text(dec).lower() in ('(jobs.n_pending_parents - 1)', '(n_pending_parents - 1)'), 'R2', cons + '::decrement', f'pending count is set to `{text(dec)}`, expected n_pending_parents - 1 '
              '(one parent finished)', r.file, r.line_of(st))
    # threshold consistent with assignment order
    before = names.index('state') < names.index('n_pending_parents')
    sv = d['state']
    ok = sv.kind == 'func' and sv.name == 'IF' and len(sv.args) == 3 and text(sv.args[1]) == "'Ready'" and text(sv.args[2]) == "'Pending'" and \
        sv.args[0].kind == 'bin' and sv.args[0].op == '=' and text(sv.args[0].left).lower().split('.')[-1] == 'n_pending_parents' and \
        sv.args[0].right.kind == 'lit' and sv.args[0].right.value == (1 if before else 0)
    ctx.check(ok, 'R2', cons + '::Ready threshold', f'state is set to `{text(sv)}` {"before" if before else "after"} the decrement; the child must become Ready exactly when its last pending parent '
              f'finishes (compare the count with {1 if before else 0} at this position)', r.file, r.line_of(st))
    cv = d['cancelled']
    wrong = None
    if cv.kind == 'func' and cv.name == 'IF':
        for ns, old in itertools.product(sorted(TERMINAL), (0, 1)):
            got = ev(cv, lambda c: ns if text(c).lower() == 'new_state' else old)
            want = old if ns == 'Success' else 1
            if got != want:
                wrong = (ns, old, got, want)
    else:
        wrong = ('?', '?', text(cv), 'IF(new_state = Success, cancelled, 1)')
    ctx.check(wrong is None, 'R2', cons + '::failure propagation', f'when the parent ends in {wrong[0]} and the child had cancelled={wrong[1]} the child gets cancelled={wrong[2]}, expected {wrong[3]}' if wrong else '',
              r.file, r.line_of(st))
    on = [text(c).lower() for j in st.frm.joins for c in sf.conjuncts(j.on)]
    where = [text(c).lower() for c in sf.conjuncts(st.where)]
    joined = '(jobs.batch_id = job_parents.batch_id)' in on and '(jobs.job_id = job_parents.job_id)' in on
    scoped = '(job_parents.parent_id = in_job_id)' in where and ('(job_parents.batch_id = in_batch_id)' in where or '(jobs.batch_id = in_batch_id)' in where)
    inner = any(j.jtype == 'INNER' and j.ref.kind == 'table' and j.ref.name.lower() == 'job_parents' for j in st.frm.joins)
    ctx.check(joined and scoped and inner, 'R2', cons + '::children only', 'the rows updated are not exactly the jobs having this job as parent in this batch', r.file, r.line_of(st))


def r3(ctx: Ctx, prog: sf.SqlProgram) -> None:
    r = prog.routine('commit_batch_update')
    sts = [(st, g) for st, g in sf.guarded_statements(r.ast.body) if st.kind == 'update' and sf.table_names(st.frm)[:1] == ['jobs']]
    ctx.need(len(sts) == 1, 'commit_batch_update: recount update not found')
    st, guard = sts[0]
    cons = f'{r.file}::commit_batch_update::recount'
    der = [t for t in sf.from_tables(st.frm) if t.kind == 'derived']
    ctx.need(len(der) == 1, 'commit_batch_update: recount sub-select not found')
    sub = der[0].select
    al = der[0].alias.lower()
    cols = {(a or '').lower(): c for c, a in sub.cols}
    ctx.need({'n_parents', 'n_pending_parents', 'n_succeeded'} <= set(cols), 'recount sub-select columns changed')
    # truth table: per parent state, contribution to each sum
    bad = None
    for s in STATES:
        def env(c: N):
            return s if text(c).lower().split('.')[-1] == 'state' else 1
        vals = {}
        for k in ('n_parents', 'n_pending_parents', 'n_succeeded'):
            inner = sr.unwrap_sum(cols[k])
            if inner is None:
                raise AnalysisError(f'recount column {k} is not COALESCE(SUM(..), 0)')
            vals[k] = int(ev(inner, env) or 0)
        want = {'n_parents': 1, 'n_pending_parents': int(s not in TERMINAL), 'n_succeeded': int(s == 'Success')}
        if vals != want:
            bad = (s, vals, want)
            break
    ctx.check(bad is None, 'R3', cons + '::per-parent contributions', f'a parent in state {bad[0]} contributes {bad[1]} to the recount, expected {bad[2]} (pending = not terminal)' if bad else '',
              r.file, r.line_of(st), detail={'states': 8})
    # join: parents' states via job_parents.parent_id, grouped per child
    on = [text(c).lower() for j in sub.frm.joins for c in sf.conjuncts(j.on)]
    grp = sorted(text(g).lower() for g in sub.group)
    okj = sf.table_names(sub.frm)[0].lower() == 'job_parents' and '(jobs.job_id = job_parents.parent_id)' in on and '(jobs.batch_id = job_parents.batch_id)' in on and \
        grp == ['job_parents.batch_id', 'job_parents.job_id']
    ctx.check(okj, 'R3', cons + '::parent join', 'the recount does not read each child\'s parents through job_parents.parent_id grouped per child', r.file, r.line_of(st))
    outer_on = [text(c).lower() for j in st.frm.joins if j.ref is der[0] for c in sf.conjuncts(j.on)]
    ctx.check(f'(jobs.batch_id = {al}.batch_id)' in outer_on and f'(jobs.job_id = {al}.job_id)' in outer_on and any(j.ref is der[0] and j.jtype == 'LEFT' for j in st.frm.joins), 'R3',
              cons + '::child join', 'recount rows are not LEFT JOINed to the child by (batch_id, job_id) (jobs without parents must still become Ready)', r.file, r.line_of(st))
    d = {text(c).lower().split('.')[-1]: v for c, v in st.sets if c.kind == 'col' and (len(c.parts) == 1 or c.parts[-2].lower() == 'jobs')}

    def table(expr: N, rows):
        out = []
        for n_par, n_pend, n_succ, old in rows:
            def env(c: N):
                t = text(c).lower()
                if t == f'{al}.n_parents':
                    return n_par
                if t == f'{al}.n_pending_parents':
                    return n_pend
                if t == f'{al}.n_succeeded':
                    return n_succ
                if t.split('.')[-1] == 'cancelled':
                    return old
                raise AnalysisError(f'recount expression reads {t}')
            out.append(ev(expr, env))
        return out
    rows = [(None, None, None, o) for o in (0, 1)]  # no parents at all (LEFT JOIN miss)
    for n_par in range(1, 4):
        for n_pend in range(0, n_par + 1):
            for n_succ in range(0, n_par - n_pend + 1):
                for o in (0, 1):
                    rows.append((n_par, n_pend, n_succ, o))
    st_vals = table(d['state'], rows)
    want_state = ['Ready' if not (r_[1] or 0) else 'Pending' for r_ in rows]
    ctx.check(st_vals == want_state, 'R3', cons + '::Ready iff no pending parent', 'state after commit is not Ready exactly when the recount of pending parents is 0', r.file, r.line_of(st), detail={'rows': len(rows)})
    np_vals = table(d['n_pending_parents'], rows)
    ctx.check(np_vals == [(r_[1] or 0) for r_ in rows], 'R3', cons + '::stored count', 'the stored n_pending_parents is not the recount (later completions would decrement a wrong number)', r.file, r.line_of(st))
    c_vals = table(d['cancelled'], rows)
    want_c = [(1 if ((r_[0] or 0) - (r_[1] or 0)) != (r_[2] or 0) else r_[3]) for r_ in rows]
    ctx.check(c_vals == want_c, 'R3', cons + '::failure propagation', 'cancelled is not raised exactly when some already finished parent did not succeed', r.file, r.line_of(st))


def r4(ctx: Ctx) -> None:
    # delegate to the C07-R5 analysis of the scheduler selections (same obligation), counting only scheduler sites
    from rules import c07
    sub = Ctx('C07', ctx.tier)
    sub.rule('R5', 'x', 0)
    c07.r5(sub)
    n = 0
    for inst in sub.instances:
        if 'user_runnable_jobs' in inst['construct']:
            n += 1
            if inst['holds']:
                ctx.ok('R4', inst['construct'], inst['detail'])
    for f in sub.findings:
        if 'user_runnable_jobs' in f.construct:
            ctx.bad('R4', f.construct, f.message, f.file, f.line)
    ctx.need(n >= 4, 'scheduler selections not found')


def run(ctx: Ctx) -> None:
    ctx.explanation = 'Clause-by-clause check of the three writers of dependency state and of the scheduler selections that consume the cancelled flag.'
    ctx.rule('R1', 'submission: Ready only for first-update jobs without parents; n_pending_parents = len(parent_ids); one job_parents row per parent', 4)
    ctx.rule('R2', 'parent completion: count - 1, Ready iff last pending parent (order-consistent threshold), cancelled iff parent not Success, exactly this job\'s children', 4)
    ctx.rule('R3', 'commit recount: pending = non-terminal parents (8-state table), Ready iff 0 pending, stored count = recount, cancelled iff a finished parent failed', 6)
    ctx.rule('R4', 'schedulers start non-always-run jobs only with cancelled = 0; always-run jobs regardless', 4)
    ctx.assume('MySQL applies the SET assignments of an UPDATE left to right, later assignments seeing earlier new values (documented for single-table UPDATE; the repository relies on it for the multi-table children update)')
    prog = sf.load_program()
    r1(ctx)
    r2(ctx, prog)
    r3(ctx, prog)
    r4(ctx)
