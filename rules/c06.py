"""C06 Batch and job-group completion reflect their jobs.

  R1  the four tallies are incremented for the job's own group and every ancestor (join on job_group_self_and_ancestors keyed by the job's
      group as read from the job row)
  R2  partition: for every terminal new_state, n_completed += 1 and exactly one of n_succeeded / n_failed / n_cancelled += 1
      (truth table over the terminal states; Success->succeeded, Failed|Error->failed, Cancelled->cancelled)
  R3  completion test compares n_completed with n_jobs of the same entity: batch (root group row vs batches.n_jobs) and, in
      mark_job_group_complete, every ancestor in turn (cursor over self-and-ancestors, loop left only when exhausted)
  R4  re-opening: committing an update with jobs sets state running, time_completed NULL and n_jobs += staged, on the batch and on each
      staged group (summing that group's staging rows of that update)
  R5  readers: the API getters / listings take the four tallies from job_groups_n_jobs_in_complete_states joined on the entity's own
      (batch_id, job_group_id), and the record->dict functions copy them (and n_jobs) unmodified; `complete` is state == 'complete'
Not decided: histories; callbacks' payloads (reporting only).
"""
from __future__ import annotations

import ast
from typing import Dict, List, Optional, Tuple

from engines import pyfacts as pf
from engines import sqlfront as sf
from engines import sqlrules as sr
from engines.common import AnalysisError, Ctx
from engines.sqlast import N, text
from engines.sqleval import ev

META = dict(
    category='other',
    text='Clause-by-clause structural check of the completion bookkeeping: tally fan-out, partition of terminal states by truth table, like-with-like '
         'completion tests over all ancestors, re-opening at commit, and reader/writer agreement for the reported counts.',
    note='Trusted: SQL parser/evaluator. Once-only counting is C04-R2; uncommitted updates are C41.',
    technique='static analysis: SQL AST rules over the effective routines, truth table, reader/writer key agreement in Python',
    design_ref='DESIGN.md §3 C06',
)

TALLY = 'job_groups_n_jobs_in_complete_states'
TERMINAL = ['Success', 'Failed', 'Error', 'Cancelled']


def r12(ctx: Ctx, prog: sf.SqlProgram) -> None:
    r = prog.routine('mark_job_complete')
    ups = [st for st in sf.all_statements(r.ast.body) if st.kind == 'update' and sf.table_names(st.frm)[:1] == [TALLY]]
    ctx.need(len(ups) == 1, 'mark_job_complete: tally update not found exactly once')
    st = ups[0]
    cons = f'{r.file}::mark_job_complete::tally update'
    der = [t for t in sf.from_tables(st.frm) if t.kind == 'derived']
    ok = False
    if len(der) == 1:
        sub = der[0].select
        al = der[0].alias.lower()
        sel_cols = sorted(text(c).lower().split('.')[-1] for c, _ in sub.cols)
        on = [text(c).lower() for j in st.frm.joins for c in sf.conjuncts(j.on)]
        # the group of the job: variable bound from jobs.job_group_id for (in_batch_id, in_job_id)
        gvar = None
        for q in sf.all_statements(r.ast.body):
            if q.kind == 'select' and q.into and q.frm is not None and sf.table_names(q.frm) == ['jobs'] and sr.has_eq(q.where, 'batch_id', 'in_batch_id') and sr.has_eq(q.where, 'job_id', 'in_job_id'):
                for (c, _), v in zip(q.cols, q.into):
                    if c.kind == 'col' and c.parts[-1].lower() == 'job_group_id':
                        gvar = text(v).lower()
        ok = sf.table_names(sub.frm) == ['job_group_self_and_ancestors'] and sel_cols == ['ancestor_id', 'batch_id'] and gvar is not None and \
            sr.has_eq(sub.where, 'batch_id', 'in_batch_id') and sr.has_eq(sub.where, 'job_group_id', gvar) and \
            f'({TALLY}.id = {al}.batch_id)' in on and f'({TALLY}.job_group_id = {al}.ancestor_id)' in on and st.where is None
    ctx.check(ok, 'R1', cons + '::ancestor fan-out', 'the tallies are not incremented for exactly the job\'s own group and all its ancestors (rows of job_group_self_and_ancestors for the job\'s group, joined by ancestor_id)',
              r.file, r.line_of(st))
    sets = {c.parts[-1].lower(): v for c, v in st.sets if c.kind == 'col'}
    ctx.need(set(sets) == {'n_completed', 'n_cancelled', 'n_failed', 'n_succeeded'}, f'tally columns are {sorted(sets)}')
    want = {'Success': (1, 1, 0, 0), 'Failed': (1, 0, 1, 0), 'Error': (1, 0, 1, 0), 'Cancelled': (1, 0, 0, 1)}
    for ns in TERMINAL:
        def env(c: N):
            t = text(c).lower()
            if t == 'new_state':
                return ns
            return 10  # current counter value
        got = tuple(ev(sets[k], env) - 10 for k in ('n_completed', 'n_succeeded', 'n_failed', 'n_cancelled'))
        ctx.check(got == want[ns], 'R2', cons + f'::partition {ns}', f'a job ending {ns} changes (completed, succeeded, failed, cancelled) by {got}, expected {want[ns]}', r.file, r.line_of(st))


def r3(ctx: Ctx, prog: sf.SqlProgram) -> None:
    r = prog.routine('mark_job_group_complete')
    a = r.ast
    cons = f'{r.file}::mark_job_group_complete'
    cur = [st for st in a.body if st.kind == 'declare_cursor']
    ctx.need(len(cur) == 1, 'mark_job_group_complete: cursor not found')
    cs_ = cur[0].select
    ok_cur = sf.table_names(cs_.frm) == ['job_group_self_and_ancestors'] and [text(c).lower().split('.')[-1] for c, _ in cs_.cols] == ['ancestor_id'] and \
        sr.has_eq(cs_.where, 'batch_id', 'in_batch_id') and sr.has_eq(cs_.where, 'job_group_id', 'in_job_group_id') and cs_.limit is None and len(sf.conjuncts(cs_.where)) == 2
    ctx.check(ok_cur, 'R3', cons + '::cursor', 'the cursor does not range over all self-and-ancestor groups of the finished job\'s group', r.file, r.line_of(cur[0]))
    loops = [st for st in a.body if st.kind == 'loop']
    ctx.need(len(loops) == 1, 'mark_job_group_complete: loop not found')
    lp = loops[0]
    fetch = [s for s in lp.body if s.kind == 'fetch']
    leaves = [(s, g) for s, g in sf.guarded_statements(lp.body) if s.kind == 'leave']
    handler = [st for st in a.body if st.kind == 'declare_handler']
    ok_loop = len(fetch) == 1 and lp.body[0] is fetch[0] and len(leaves) == 1 and [(text(c), p) for c, p in leaves[0][1]] == [('done', True)] and \
        len(handler) == 1 and handler[0].condition == 'NOT FOUND' and text(handler[0].stmt).lower() == 'set done = true' and handler[0].action == 'CONTINUE'
    ctx.check(ok_loop, 'R3', cons + '::loop exhausts ancestors', 'the loop can end before every ancestor group has been examined (LEAVE must depend only on the NOT FOUND handler flag)', r.file, r.line_of(lp))
    cvar = text(fetch[0].into[0]).lower() if fetch else '?'
    bound: Dict[str, Tuple[str, str, N]] = {}
    for st in sf.all_statements(lp.body):
        if st.kind == 'select' and st.into and st.frm is not None and len(sf.table_names(st.frm)) == 1:
            for (c, _), v in zip(st.cols, st.into):
                if c.kind == 'col' and sr.is_var(v):
                    bound[v.parts[0].lower()] = (sf.table_names(st.frm)[0].lower(), c.parts[-1].lower(), st)
    ups = [(s, g) for s, g in sf.guarded_statements(lp.body) if s.kind == 'update' and sf.table_names(s.frm)[:1] == ['job_groups']]
    ctx.need(len(ups) == 1, 'mark_job_group_complete: UPDATE job_groups not found')
    up, guard = ups[0]
    okc = False
    for c, pol in guard:
        if pol and c.kind == 'bin' and c.op == '=':
            l, rr = text(c.left).lower(), text(c.right).lower()
            if l in bound and rr in bound:
                x, y = bound[l], bound[rr]
                pair = {x[:2], y[:2]}
                okc = pair == {(TALLY, 'n_completed'), ('job_groups', 'n_jobs')} and all(
                    (sr.has_eq(z[2].where, 'id', 'in_batch_id') or sr.has_eq(z[2].where, 'batch_id', 'in_batch_id')) and sr.has_eq(z[2].where, 'job_group_id', cvar) for z in (x, y))
    keyed = sr.has_eq(up.where, 'batch_id', 'in_batch_id') and sr.has_eq(up.where, 'job_group_id', cvar)
    setsok = {c.parts[-1].lower(): text(v) for c, v in up.sets if c.kind == 'col'}
    ctx.check(okc and keyed and setsok.get('state') == "'complete'", 'R3', cons + '::like with like', 'a group is marked complete by a test other than n_completed(group) = n_jobs(group) of the very group being updated',
              r.file, r.line_of(up))
    # the counts compared are read with a lock held to the end of the transaction: otherwise a commit that adds jobs can slip in
    # between the read and the `complete` write and the fresh `running` state is overwritten
    LOCKS = ('LOCK IN SHARE MODE', 'FOR SHARE', 'FOR UPDATE')
    for st in sf.all_statements(lp.body):
        if st.kind == 'select' and st.into and st.frm is not None and sf.table_names(st.frm) == ['job_groups'] and any(c.kind == 'col' and c.parts[-1].lower() == 'n_jobs' for c, _ in st.cols):
            ctx.check(st.lock in LOCKS, 'R3', cons + '::n_jobs read is locking', 'job_groups.n_jobs is read without a lock: a concurrent commit_batch_update may add jobs after the read, '
                      'and the group is then marked complete although it was just re-opened', r.file, r.line_of(st))
    r2_ = prog.routine('mark_job_complete')
    nj = [st for st in sf.all_statements(r2_.ast.body) if st.kind == 'select' and st.into and st.frm is not None and sf.table_names(st.frm) == ['batches']
          and any(c.kind == 'col' and c.parts[-1].lower() == 'n_jobs' for c, _ in st.cols)]
    ctx.need(len(nj) == 1, 'mark_job_complete: read of batches.n_jobs not found')
    ctx.check(nj[0].lock in LOCKS, 'R3', f'{r2_.file}::mark_job_complete::n_jobs read is locking', 'batches.n_jobs is read without a lock: commit_batch_update of a later update can commit between '
              'this read and `UPDATE batches SET state = complete`; the stale count then overwrites the re-opened batch (complete with unfinished jobs that are never scheduled)',
              r2_.file, r2_.line_of(nj[0]))
    # called from mark_job_complete with the job's group
    calls = [s for s in sf.all_statements(r2_.ast.body) if s.kind == 'call' and s.name.lower() == 'mark_job_group_complete']
    ctx.check(len(calls) == 1 and [text(x).lower() for x in calls[0].args][:2] == ['in_batch_id', 'cur_job_group_id'], 'R3', f'{r2_.file}::mark_job_complete::CALL mark_job_group_complete',
              'group completion is not evaluated for the finished job\'s own group', r2_.file, r2_.line)


def r4(ctx: Ctx, prog: sf.SqlProgram) -> None:
    r = prog.routine('commit_batch_update')
    for st, guard in sf.guarded_statements(r.ast.body):
        if st.kind != 'update':
            continue
        first = sf.table_names(st.frm)[:1]
        if first == ['batches']:
            d = {c.parts[-1].lower(): text(v).lower() for c, v in st.sets if c.kind == 'col'}
            ok = d.get('state') == "'running'" and d.get('time_completed') == 'null' and d.get('n_jobs') == '(n_jobs + expected_n_jobs)' and sr.has_eq(st.where, 'id', 'in_batch_id') and \
                any(p and text(c) == '(expected_n_jobs > 0)' for c, p in guard)
            ctx.check(ok, 'R4', f'{r.file}::commit_batch_update::reopen batch', f'committing an update with jobs sets {d} on the batch; expected state running, time_completed NULL, n_jobs + expected_n_jobs', r.file, r.line_of(st))
        elif first == ['job_groups']:
            d = {c.parts[-1].lower(): text(v).lower() for c, v in st.sets if c.kind == 'col'}
            der = [t for t in sf.from_tables(st.frm) if t.kind == 'derived']
            ok = len(der) == 1
            if ok:
                sub = der[0].select
                al = der[0].alias.lower()
                inner = [sr.unwrap_sum(c) for c, a_ in sub.cols if (a_ or '').lower() == 'staged_n_jobs']
                ok = sf.table_names(sub.frm) == ['job_groups_inst_coll_staging'] and sr.has_eq(sub.where, 'batch_id', 'in_batch_id') and sr.has_eq(sub.where, 'update_id', 'in_update_id') and \
                    sorted(text(g).lower() for g in sub.group) == ['batch_id', 'job_group_id'] and len(inner) == 1 and inner[0] is not None and text(inner[0]).lower() == 'n_jobs' and \
                    d.get('n_jobs') == f'(n_jobs + {al}.staged_n_jobs)' and d.get('time_completed') == 'null' and \
                    d.get('state') == f"if(({al}.staged_n_jobs > 0), 'running', job_groups.state)"
                on = [text(c).lower() for j in st.frm.joins for c in sf.conjuncts(j.on)]
                ok = ok and f'(job_groups.batch_id = {al}.batch_id)' in on and f'(job_groups.job_group_id = {al}.job_group_id)' in on
            ctx.check(ok, 'R4', f'{r.file}::commit_batch_update::reopen job groups', 'staged groups are not re-opened with n_jobs + their own staged job count (sum of that group\'s staging rows of this update)', r.file, r.line_of(st))


READ_SITES = [('batch/batch/front_end/front_end.py', '_get_batch', 'batch'), ('batch/batch/front_end/front_end.py', '_get_job_group', 'group')]
TALLIES = ['n_completed', 'n_succeeded', 'n_failed', 'n_cancelled']


def r5(ctx: Ctx) -> None:
    for rel, q, kind in READ_SITES:
        m = pf.load(rel)
        fn = m.func(q)
        embs = [e for e in sf.embedded_in(m) if e.fn is fn and e.sql_text and TALLY in e.sql_text]
        ctx.need(len(embs) == 1, f'{rel}::{q}: reader query not found')
        e = embs[0]
        st = e.stmts()[0]
        ctx.need(not e.parse_error and st.kind == 'select', f'{rel}::{q}: reader query does not parse')
        cons = f'{rel}::{q}'
        cols = {(al or text(c).split('.')[-1]).lower(): text(c).lower() for c, al in st.cols}
        star = any(c.kind == 'star' and (c.table or '').lower() in (TALLY,) for c, _ in st.cols)
        okc = star or all(cols.get(t) == f'{TALLY}.{t}' for t in TALLIES)
        on = []
        for j in st.frm.joins:
            if j.ref.kind == 'table' and j.ref.name.lower() == TALLY:
                on = [text(c).lower() for c in sf.conjuncts(j.on)]
        okj = any(x in on for x in (f'(job_groups.batch_id = {TALLY}.id)', f'({TALLY}.id = job_groups.batch_id)', f'(batches.id = {TALLY}.id)', f'({TALLY}.id = batches.id)')) and \
            any(x in on for x in (f'(job_groups.job_group_id = {TALLY}.job_group_id)', f'({TALLY}.job_group_id = job_groups.job_group_id)'))
        ctx.check(okc and okj, 'R5', cons + '::tally source', f'the reported counts are not read from {TALLY} joined on the entity\'s own (batch_id, job_group_id) (ON {on})', m.path, e.lineno)
    bm = pf.load('batch/batch/batch.py')
    for fname in ('batch_record_to_dict', 'job_group_record_to_dict'):
        fn = bm.func(fname)
        d = None
        for n in ast.walk(fn):
            if isinstance(n, ast.Dict) and any(pf.const_str(k) == 'n_completed' for k in n.keys if k is not None):
                d = n
        ctx.need(d is not None, f'{fname}: result dict not found')
        got = {pf.const_str(k): pf.nsrc(v) for k, v in zip(d.keys, d.values) if k is not None and pf.const_str(k) in TALLIES + ['n_jobs', 'complete']}
        want = {t: f"record['{t}']" for t in TALLIES + ['n_jobs']}
        want['complete'] = "record['state'] == 'complete'"
        ctx.check(got == want, 'R5', f'{bm.rel}::{fname}::copies counts', f'the API record reports {got}; expected the stored values unmodified {want}', bm.path, d.lineno)


def run(ctx: Ctx) -> None:
    ctx.explanation = 'Structural check of completion bookkeeping in mark_job_complete / mark_job_group_complete / commit_batch_update and of the API readers.'
    ctx.rule('R1', 'tallies are incremented for the job\'s group and every ancestor', 1)
    ctx.rule('R2', 'per terminal state: completed +1 and exactly the matching category +1', 4)
    ctx.rule('R3', 'completion tests compare n_completed with n_jobs of the same entity, for every ancestor', 6)
    ctx.rule('R4', 'commit with jobs re-opens the batch and each staged group with the right job counts', 2)
    ctx.rule('R5', 'readers take tallies from the tally table on the entity\'s own key and copy them unmodified', 4)
    prog = sf.load_program()
    r12(ctx, prog)
    r3(ctx, prog)
    r4(ctx, prog)
    r5(ctx)
