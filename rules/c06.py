"""C06 Batch and job-group completion reflect their jobs.

  R1  the four tallies are incremented for the job's own group and every ancestor (join on job_group_self_and_ancestors keyed by the job's
      group as read from the job row)
  R2  partition: for every terminal new_state, n_completed += 1 and exactly one of n_succeeded / n_failed / n_cancelled += 1
      (truth table over the terminal states; Success->succeeded, Failed|Error->failed, Cancelled->cancelled)
  R3  completion test compares n_completed with n_jobs of the same entity: batch (root group row vs batches.n_jobs) and, in
      mark_job_group_complete, every ancestor in turn (cursor over self-and-ancestors, loop left only when exhausted)
  R4  re-opening: committing an update with jobs sets state running, time_completed NULL and n_jobs += staged, on the batch and on each
      staged group (summing that group's staging rows of that update)
  R5  readers: the API getters / listings take the four tallies from job_groups_n_jobs_in_complete_states joined on the entity's own
      (batch_id, job_group_id), and the record->dict functions copy them (and n_jobs) unmodified; `complete` is state == 'complete'
Not decided: histories; callbacks' payloads (reporting only).
"""
from __future__ import annotations

import ast
from typing import Dict, List, Optional, Tuple

from engines import jobgraphfacts as jg
from engines import pyfacts as pf
from engines import sqlfront as sf
from engines import sqlrules as sr
from engines.common import AnalysisError, Ctx
from engines.sqlast import N, text
from engines.sqleval import ev

META = dict(
    category='other',
    text='Clause-by-clause structural check of the completion bookkeeping: tally fan-out, partition of terminal states by truth table, like-with-like '
         'completion tests over all ancestors, re-opening at commit, and reader/writer agreement for the reported counts.',
    note='Trusted: SQL parser/evaluator. Once-only counting is C04-R2; uncommitted updates are C41.',
    technique='static analysis: SQL AST rules over the effective routines, truth table, reader/writer key agreement in Python',
    design_ref='DESIGN.md §3 C06',
)

TALLY = 'job_groups_n_jobs_in_complete_states'
TERMINAL = ['Success', 'Failed', 'Error', 'Cancelled']


LOCKS = ('LOCK IN SHARE MODE', 'FOR SHARE', 'FOR UPDATE')
CLOSURE = 'job_group_self_and_ancestors'
CATS = ('n_completed', 'n_succeeded', 'n_failed', 'n_cancelled')
WANT_DELTA = {'Success': (1, 1, 0, 0), 'Failed': (1, 0, 1, 0), 'Error': (1, 0, 1, 0), 'Cancelled': (1, 0, 0, 1)}
STATES = ['Pending', 'Ready', 'Creating', 'Running', 'Success', 'Failed', 'Error', 'Cancelled']


def _closure_rows(batch: int, parent: Dict[int, Optional[int]]) -> List[Dict[str, int]]:
    out = []
    for g in parent:
        a, lvl = g, 0
        while a is not None:
            out.append(dict(batch_id=batch, job_group_id=g, ancestor_id=a, level=lvl))
            a, lvl = parent[a], lvl + 1
    return out


def r123(ctx: Ctx, prog: sf.SqlProgram) -> None:
    """COMPOSITE effect of the effective mark_job_complete (mark_job_group_complete and any other callee inlined) on the tally table,
    job_groups and batches, by interpretation over a micro-world (engines/jobgraphfacts.py): batch 1 with groups 0 <- 1 <- 2 and
    0 <- 3 (the job is in group 2), batch 2 with look-alike rows; every consistent combination of `this is / is not the last
    unfinished job` along the ancestor chain; every terminal new_state; every prior state of the job and attempt-id relation.
    Required with the job's own terminal transition, and only then: the four tallies of group 2, 1 and 0 (and of no other row) move by
    the partition table; each of these groups is marked complete (state, time_completed) iff its new n_completed equals its own
    n_jobs; the batch row likewise against the root tally; everything else is untouched."""
    r = prog.routine('mark_job_complete')
    params = jg.routine_params(prog, 'mark_job_complete')
    ctx.need({'in_batch_id', 'in_job_id', 'new_state', 'new_timestamp'} <= set(params), f'mark_job_complete: parameters {params}')
    tabs = ['jobs', 'job_parents', 'job_groups', TALLY, 'batches', CLOSURE]
    jg.need_no_trigger_feedback(prog, tabs)
    schema = jg.full_schema(prog)
    cons = f'{r.file}::mark_job_complete'
    tally_writers = [st for rr in ('mark_job_complete', 'mark_job_group_complete') if rr in prog.routines for st in sf.all_statements(prog.routines[rr].ast.body)
                     if st.kind == 'update' and TALLY in [t.lower() for t, _ in sf.written_tables(st)]]
    line = r.line_of(tally_writers[0]) if tally_writers and tally_writers[0] in list(sf.all_statements(r.ast.body)) else r.line
    parent1 = {0: None, 1: 0, 2: 1, 3: 0}
    parent2 = {0: None, 2: 0}
    base_tally = {0: (7, 5, 1, 1), 1: (4, 3, 1, 0), 2: (2, 2, 0, 0), 3: (1, 1, 0, 0)}

    def world(own_state, own_attempt, gaps):
        g = dict(gaps)
        g[3] = 1
        jobs = [dict(batch_id=1, job_id=5, state=own_state, n_pending_parents=0, cancelled=0, always_run=0, attempt_id=own_attempt, job_group_id=2),
                dict(batch_id=2, job_id=5, state='Running', n_pending_parents=0, cancelled=0, always_run=0, attempt_id='a', job_group_id=2)]
        jgs, tal = [], []
        for gid in (0, 1, 2, 3):
            jgs.append(dict(batch_id=1, job_group_id=gid, state='running', n_jobs=base_tally[gid][0] + g[gid], time_completed=None))
            tal.append(dict(id=1, job_group_id=gid, **dict(zip(CATS, base_tally[gid]))))
        for gid in (0, 2):
            jgs.append(dict(batch_id=2, job_group_id=gid, state='running', n_jobs=base_tally[gid][0] + 1, time_completed=None))
            tal.append(dict(id=2, job_group_id=gid, **dict(zip(CATS, base_tally[gid]))))
        rows = {'jobs': jobs, 'job_parents': [], 'job_groups': jgs, TALLY: tal,
                'batches': [dict(id=1, state='running', n_jobs=base_tally[0][0] + g[0], time_completed=None), dict(id=2, state='running', n_jobs=base_tally[0][0] + 1, time_completed=None)],
                CLOSURE: _closure_rows(1, parent1) + _closure_rows(2, parent2)}
        return jg.World(schema, rows)

    gap_sets = [{2: 1, 1: 1, 0: 1}, {2: 1, 1: 1, 0: 2}, {2: 1, 1: 2, 0: 2}, {2: 2, 1: 2, 0: 2}, {2: 1, 1: 2, 0: 3}]
    grid = [(os_, 'a', gs) for os_ in STATES for gs in gap_sets] + [(os_, at, gap_sets[0]) for os_ in STATES for at in (None, 'b')]
    fails: Dict[str, str] = {}
    n_cases = n_trans = 0
    TS = 1000
    for ns in TERMINAL:
        for own_state, own_attempt, gaps in grid:
            w = world(own_state, own_attempt, gaps)
            before = w.snapshot()
            it = jg.Interp(prog, w)
            it.call('mark_job_complete', {'in_batch_id': 1, 'in_job_id': 5, 'new_state': ns, 'in_attempt_id': 'a', 'new_timestamp': TS})
            n_cases += 1
            after = w.rows
            for t_ in (TALLY, 'job_groups', 'batches'):
                for row in after[t_]:
                    for col, v in row.items():
                        ctx.need(v is not jg.UNK, f'mark_job_complete: {t_}.{col} receives a value the model cannot determine')
            transition = before['jobs'][0]['state'] != after['jobs'][0]['state'] and after['jobs'][0]['state'] in TERMINAL
            hist = (f'job of group 2 (ancestors 1, 0) in state {own_state}, attempt_id {"matching" if own_attempt == "a" else ("NULL" if own_attempt is None else "of another attempt")}, reported {ns}; '
                    f'unfinished jobs before the call: group 2: {gaps[2]}, group 1: {gaps[1]}, group 0 / batch: {gaps[0]}')
            tb = {(x['id'], x['job_group_id']): x for x in before[TALLY]}
            ta = {(x['id'], x['job_group_id']): x for x in after[TALLY]}
            gb = {(x['batch_id'], x['job_group_id']): x for x in before['job_groups']}
            ga = {(x['batch_id'], x['job_group_id']): x for x in after['job_groups']}
            bb = {x['id']: x for x in before['batches']}
            ba = {x['id']: x for x in after['batches']}
            path = [(1, 2), (1, 1), (1, 0)] if transition else []
            if transition:
                n_trans += 1
            # tallies
            for key in tb:
                delta = tuple(ta[key][c_] - tb[key][c_] for c_ in CATS)
                if key in path:
                    if delta[0] != 1:
                        fails.setdefault('fanout', f'{hist}: n_completed of group {key[1]} changes by {delta[0]}, expected +1 (the job\'s own group and every ancestor count it exactly once)')
                    if delta != WANT_DELTA[ns]:
                        fails.setdefault(f'partition {ns}', f'{hist}: (n_completed, n_succeeded, n_failed, n_cancelled) of group {key[1]} change by {delta}, expected {WANT_DELTA[ns]}')
                elif any(delta):
                    if transition:
                        fails.setdefault('fanout', f'{hist}: tallies of group {key[1]} of batch {key[0]}, which is not the job\'s group or an ancestor of it, change by {delta}')
                    else:
                        fails.setdefault('transition', f'{hist}: the job makes no terminal transition in this call, yet the tallies of group {key[1]} of batch {key[0]} change by {delta}')
            # group completion
            for key in gb:
                chg = {c_: (gb[key][c_], ga[key][c_]) for c_ in ('state', 'time_completed', 'n_jobs') if gb[key][c_] != ga[key][c_]}
                if key in path:
                    done = ta[key]['n_completed'] == ga[key]['n_jobs'] and tb[key]['n_completed'] + 1 == gb[key]['n_jobs']
                    really_done = tb[key]['n_completed'] + 1 == gb[key]['n_jobs']
                    want = {'state': ('running', 'complete'), 'time_completed': (None, TS)} if really_done else {}
                    if chg != want:
                        fails.setdefault('group completion', f'{hist}: group {key[1]} (n_jobs {gb[key]["n_jobs"]}, n_completed {tb[key]["n_completed"]} before) changes {chg or "nothing"}; expected '
                                         f'{want or "no change (it still has unfinished jobs)"} - a group is complete exactly when its own n_completed, after counting this job, equals its own n_jobs, '
                                         'and every group on the ancestor chain must be examined')
                elif chg:
                    fails.setdefault('others' if transition else 'transition', f'{hist}: job_groups row of group {key[1]} of batch {key[0]}, '
                                     f'{"which is not on the job\'s ancestor chain" if transition else "although the job makes no terminal transition in this call"}, changes {chg}')
            for key in bb:
                chg = {c_: (bb[key][c_], ba[key][c_]) for c_ in ('state', 'time_completed', 'n_jobs') if bb[key][c_] != ba[key][c_]}
                if key == 1 and transition:
                    really_done = tb[(1, 0)]['n_completed'] + 1 == bb[1]['n_jobs']
                    want = {'state': ('running', 'complete'), 'time_completed': (None, TS)} if really_done else {}
                    if chg != want:
                        fails.setdefault('batch completion', f'{hist}: batch row (n_jobs {bb[1]["n_jobs"]}, root n_completed {tb[(1, 0)]["n_completed"]} before) changes {chg or "nothing"}; expected '
                                         f'{want or "no change"} - the batch is complete exactly when the root tally, after counting this job, equals batches.n_jobs')
                elif chg:
                    fails.setdefault('others' if transition else 'transition', f'{hist}: batches row {key} changes {chg}')
    ctx.need(n_trans > 0, 'mark_job_complete: no modelled call makes the job\'s own terminal transition')
    detail = {'cases': n_cases, 'with_transition': n_trans}
    ctx.check('fanout' not in fails, 'R1', f'{cons}::tally update::ancestor fan-out', fails.get('fanout', ''), r.file, line, detail=detail)
    for ns in TERMINAL:
        ctx.check(f'partition {ns}' not in fails, 'R2', f'{cons}::tally update::partition {ns}', fails.get(f'partition {ns}', ''), r.file, line, detail=detail)
    mg = prog.routines.get('mark_job_group_complete')
    gfile, gline = (mg.file, mg.line) if mg is not None else (r.file, r.line)
    ctx.check('group completion' not in fails, 'R3', f'{cons}::group completion', fails.get('group completion', ''), gfile, gline, detail=detail)
    ctx.check('batch completion' not in fails, 'R3', f'{cons}::batch completion', fails.get('batch completion', ''), r.file, r.line, detail=detail)
    ctx.check('others' not in fails, 'R3', f'{cons}::other groups untouched', fails.get('others', ''), r.file, r.line, detail=detail)
    ctx.check('transition' not in fails, 'R3', f'{cons}::only with the transition', fails.get('transition', ''), r.file, r.line, detail=detail)
    ctx.unit('completion_model_cases', n_cases)


def r3_locks(ctx: Ctx, prog: sf.SqlProgram) -> None:
    """The job counts compared in the completion tests are read with a lock held to the end of the transaction: otherwise a commit that
    adds jobs can slip in between the read and the `complete` write and the fresh `running` state is overwritten."""
    todo = ['mark_job_complete']
    seen: List[str] = []
    while todo:
        name = todo.pop()
        if name in seen or name not in prog.routines:
            continue
        seen.append(name)
        for st in sf.all_statements(prog.routines[name].ast.body):
            if st.kind == 'call':
                todo.append(st.name)
    found = {'job_groups': 0, 'batches': 0}
    for name in seen:
        rr = prog.routines[name]
        for st in sf.all_statements(rr.ast.body):
            sels = [st] if st.kind == 'select' else ([st.select] if st.kind == 'declare_cursor' else [])
            for q in sels:
                if q.frm is None or not (q.into or st.kind == 'declare_cursor'):
                    continue
                tn = [t.lower() for t in sf.table_names(q.frm)]
                for tbl in ('job_groups', 'batches'):
                    if tbl in tn and any(x.kind == 'col' and x.parts[-1].lower() == 'n_jobs' for c, _ in q.cols for x in c.walk()):
                        found[tbl] += 1
                        what = 'job_groups.n_jobs' if tbl == 'job_groups' else 'batches.n_jobs'
                        ctx.check(q.lock in LOCKS, 'R3', f'{rr.file}::{name}::n_jobs read is locking', f'{what} is read without a lock: a concurrent commit_batch_update of a later update can add jobs between this read '
                                  'and the `complete` write; the stale count then overwrites the re-opened row (complete with unfinished jobs that are never reported running)', rr.file, rr.line_of(st))
    ctx.need(found['job_groups'] >= 1 and found['batches'] >= 1, f'completion tests: reads of n_jobs INTO variables not found in {seen} (found {found}); the comparison may be done inside one statement, '
             'whose locking this rule does not analyse')


def r4(ctx: Ctx, prog: sf.SqlProgram) -> None:
    """Re-opening, COMPOSITE effect of the effective commit_batch_update on batches / job_groups (micro-world interpretation): update 2 of
    batch 1 stages 5 jobs (3 in group 2 below group 1, 1 in group 3, 1 in the root; two instance collections, two tokens); an uncommitted
    update 3 and batch 2 have staging rows of their own.  Required: batch row running, time_completed NULL, n_jobs + 5; each staged group
    running, time_completed NULL, n_jobs + the sum of ITS staging rows of THIS update; unstaged groups, other batch untouched; a second
    call (already committed) changes nothing."""
    r = prog.routine('commit_batch_update')
    params = jg.routine_params(prog, 'commit_batch_update')
    ctx.need({'in_batch_id', 'in_update_id'} <= set(params), f'commit_batch_update: parameters {params}')
    tabs = ['batch_updates', 'job_groups_inst_coll_staging', 'batches', 'job_groups']
    jg.need_no_trigger_feedback(prog, tabs)
    schema = jg.full_schema(prog)

    def stg(b, u, g, ic, tok, n):
        return dict(batch_id=b, update_id=u, job_group_id=g, inst_coll=ic, token=tok, n_jobs=n, n_ready_jobs=0, ready_cores_mcpu=0)
    staging = [stg(1, 2, 2, 'x', 0, 2), stg(1, 2, 2, 'y', 0, 1), stg(1, 2, 1, 'x', 0, 2), stg(1, 2, 1, 'y', 0, 1), stg(1, 2, 3, 'x', 0, 1),
               stg(1, 2, 0, 'x', 0, 3), stg(1, 2, 0, 'x', 1, 1), stg(1, 2, 0, 'y', 0, 1),
               stg(1, 3, 1, 'x', 0, 4), stg(1, 3, 0, 'x', 0, 4), stg(2, 2, 0, 'x', 0, 1), stg(2, 2, 1, 'x', 0, 1)]
    prior = {0: 9, 1: 4, 2: 2, 3: 1, 4: 2}
    rows = {
        'batch_updates': [dict(batch_id=1, update_id=1, committed=1, n_jobs=9, start_job_id=1, time_committed=1),
                          dict(batch_id=1, update_id=2, committed=0, n_jobs=5, start_job_id=10, time_committed=None),
                          dict(batch_id=1, update_id=3, committed=0, n_jobs=4, start_job_id=15, time_committed=None),
                          dict(batch_id=2, update_id=2, committed=0, n_jobs=1, start_job_id=3, time_committed=None)],
        'job_groups_inst_coll_staging': staging,
        'batches': [dict(id=1, state='complete', n_jobs=9, time_completed=500), dict(id=2, state='complete', n_jobs=2, time_completed=500)],
        'job_groups': [dict(batch_id=1, job_group_id=g, state='complete', n_jobs=n, time_completed=500) for g, n in prior.items()] +
                      [dict(batch_id=2, job_group_id=g, state='complete', n_jobs=2, time_completed=500) for g in (0, 1)],
    }
    w = jg.World(schema, rows)
    it = jg.Interp(prog, w)
    it.call('commit_batch_update', {'in_batch_id': 1, 'in_update_id': 2, 'in_timestamp': 1000})
    for t_ in ('batches', 'job_groups'):
        for row in w.rows[t_]:
            for col, v in row.items():
                ctx.need(v is not jg.UNK, f'commit_batch_update: {t_}.{col} receives a value the model cannot determine')
    ctx.need([x for x in w.rows['batch_updates'] if x['batch_id'] == 1 and x['update_id'] == 2][0]['committed'] not in (0, None), 'commit_batch_update: the modelled update is not committed by the call')
    b1 = [x for x in w.rows['batches'] if x['id'] == 1][0]
    okb = (b1['state'], b1['time_completed'], b1['n_jobs']) == ('running', None, 14)
    stmts = jg.jobs_writers(it, 'batches')
    bline = r.line
    for _, st, t_, _n in it.writes:
        if t_ == 'batches':
            bline = r.line_of(st)
    ctx.check(okb, 'R4', f'{r.file}::commit_batch_update::reopen batch', f'committing an update with 5 jobs on a complete batch of 9 leaves the batch row (state, time_completed, n_jobs) = '
              f'({b1["state"]}, {b1["time_completed"]}, {b1["n_jobs"]}); expected (running, NULL, 14) [statements writing batches: {stmts}]', r.file, bline)
    want = {0: 14, 1: 7, 2: 5, 3: 2}
    bad = None
    for x in w.rows['job_groups']:
        got = (x['state'], x['time_completed'], x['n_jobs'])
        if x['batch_id'] == 1 and x['job_group_id'] in want:
            exp = ('running', None, want[x['job_group_id']])
        else:
            exp = ('complete', 500, 2)
        if got != exp and bad is None:
            bad = (x['batch_id'], x['job_group_id'], got, exp)
    gline = r.line
    for _, st, t_, _n in it.writes:
        if t_ == 'job_groups':
            gline = r.line_of(st)
    ctx.check(bad is None, 'R4', f'{r.file}::commit_batch_update::reopen job groups', (f'after committing update 2 (staged: group 2: 3 jobs, group 1: 3, group 3: 1, root: 5; update 3 and batch 2 have staging rows of '
              f'their own) group {bad[1]} of batch {bad[0]} has (state, time_completed, n_jobs) = {bad[2]}, expected {bad[3]}: every staged group is re-opened with n_jobs + the sum of its own staging rows of '
              f'this update, nothing else moves [statements writing job_groups: {jg.jobs_writers(it, "job_groups")}]') if bad else '', r.file, gline)
    # idempotence of the already-committed path
    snap = w.snapshot()
    jg.Interp(prog, w).call('commit_batch_update', {'in_batch_id': 1, 'in_update_id': 2, 'in_timestamp': 2000})
    same = all(snap[t_] == w.rows[t_] for t_ in ('batches', 'job_groups'))
    ctx.check(same, 'R4', f'{r.file}::commit_batch_update::commit once', 'calling commit_batch_update again for the already committed update changes batches / job_groups again (n_jobs counted twice: the batch can never complete)',
              r.file, r.line)


READ_SITES = [('batch/batch/front_end/front_end.py', '_get_batch', 'batch'), ('batch/batch/front_end/front_end.py', '_get_job_group', 'group')]
TALLIES = ['n_completed', 'n_succeeded', 'n_failed', 'n_cancelled']


def r5(ctx: Ctx) -> None:
    for rel, q, kind in READ_SITES:
        m = pf.load(rel)
        fn = m.func(q)
        embs = [e for e in sf.embedded_in(m) if e.fn is fn and e.sql_text and TALLY in e.sql_text]
        ctx.need(len(embs) == 1, f'{rel}::{q}: reader query not found')
        e = embs[0]
        st = e.stmts()[0]
        ctx.need(not e.parse_error and st.kind == 'select', f'{rel}::{q}: reader query does not parse')
        cons = f'{rel}::{q}'
        cols = {(al or text(c).split('.')[-1]).lower(): text(c).lower() for c, al in st.cols}
        star = any(c.kind == 'star' and (c.table or '').lower() in (TALLY,) for c, _ in st.cols)
        okc = star or all(cols.get(t) == f'{TALLY}.{t}' for t in TALLIES)
        on = []
        for j in st.frm.joins:
            if j.ref.kind == 'table' and j.ref.name.lower() == TALLY:
                on = [text(c).lower() for c in sf.conjuncts(j.on)]
        okj = any(x in on for x in (f'(job_groups.batch_id = {TALLY}.id)', f'({TALLY}.id = job_groups.batch_id)', f'(batches.id = {TALLY}.id)', f'({TALLY}.id = batches.id)')) and \
            any(x in on for x in (f'(job_groups.job_group_id = {TALLY}.job_group_id)', f'({TALLY}.job_group_id = job_groups.job_group_id)'))
        ctx.check(okc and okj, 'R5', cons + '::tally source', f'the reported counts are not read from {TALLY} joined on the entity\'s own (batch_id, job_group_id) (ON {on})', m.path, e.lineno)
    bm = pf.load('batch/batch/batch.py')
    for fname in ('batch_record_to_dict', 'job_group_record_to_dict'):
        fn = bm.func(fname)
        d = None
        for n in ast.walk(fn):
            if isinstance(n, ast.Dict) and any(pf.const_str(k) == 'n_completed' for k in n.keys if k is not None):
                d = n
        ctx.need(d is not None, f'{fname}: result dict not found')
        got = {pf.const_str(k): pf.nsrc(v) for k, v in zip(d.keys, d.values) if k is not None and pf.const_str(k) in TALLIES + ['n_jobs', 'complete']}
        want = {t: f"record['{t}']" for t in TALLIES + ['n_jobs']}
        want['complete'] = "record['state'] == 'complete'"
        ctx.check(got == want, 'R5', f'{bm.rel}::{fname}::copies counts', f'the API record reports {got}; expected the stored values unmodified {want}', bm.path, d.lineno)


def run(ctx: Ctx) -> None:
    ctx.explanation = 'Structural check of completion bookkeeping in mark_job_complete / mark_job_group_complete / commit_batch_update and of the API readers.'
    ctx.rule('R1', 'tallies are incremented for the job\'s group and every ancestor', 1)
    ctx.rule('R2', 'per terminal state: completed +1 and exactly the matching category +1', 4)
    ctx.rule('R3', 'completion tests compare n_completed with n_jobs of the same entity, for every ancestor', 6)
    ctx.rule('R4', 'commit with jobs re-opens the batch and each staged group with the right job counts', 2)
    ctx.rule('R5', 'readers take tallies from the tally table on the entity\'s own key and copy them unmodified', 4)
    prog = sf.load_program()
    r123(ctx, prog)
    r3_locks(ctx, prog)
    r4(ctx, prog)
    r5(ctx)
