"""C06 Batch and job-group completion reflect their jobs.

  R1-R3 (mark_job_complete with mark_job_group_complete inlined): COMPOSITE effect on the tally table, job_groups and batches by ABSTRACT
      execution (engines/jobgraphfacts.py): counters are symbolic, each group's gap n_jobs - n_completed is split {1, >= 2} where the code
      compares, new_state / the job's prior state are enumerated; the rows each statement touches are decided from the normal form of
      its conditions against `the closure rows of the job's group`; the cursor loop must be the canonical walk over all of them and its
      body is executed once for a generic self-or-ancestor group.
      R1  the tallies of exactly the job's group and every ancestor are incremented, once
      R2  partition: for every terminal new_state, n_completed += 1 and exactly the matching one of n_succeeded / n_failed / n_cancelled
      R3  a group (every self-or-ancestor) and the batch are marked complete iff their own n_completed AFTER counting this job equals their
          own n_jobs (ordering, like with like, no early exit); only with the job's terminal transition; the job counts compared are
          read under a lock
  R4  re-opening (commit_batch_update, abstract execution): when the call commits an update with NU >= 1 jobs the batch row becomes
      (running, NULL, n_jobs + NU) and every staged group (running, NULL, n_jobs + SUM of ITS staging rows of THIS update); otherwise
      (already committed, count mismatch, empty update) nothing moves
  R5  readers: the API getters / listings take the four tallies from job_groups_n_jobs_in_complete_states joined on the entity's own
      (batch_id, job_group_id) - every query of the reader that feeds a converter does - and the record->dict functions copy them (and n_jobs) unmodified;
      `complete` is state == 'complete'
  R6  who may write job_group_self_and_ancestors, and how: only the self row (g, g, 0) and the unfiltered INSERT .. SELECT of every row of
      the parent with level + 1, for the group whose job_groups row the same function inserts, same transaction, for every non-root
      group.  Rows assembled in Python are decided by a chain abstraction (closure of X, shifted by k, with / without X's self row) over
      the def-use graph incl. per-request caches, or declined.  (C07 trusts the same invariant.)
  R7  staged job counts: every job adds exactly 1 under its own group; the counts reach the group and all its ancestors through
      INSERT .. SELECT over the closure rows and accumulate on duplicate key; a roll-up moved into Python is checked for shared mutable
      accumulator slots (alias analysis) and otherwise declined
  R8  atomicity of the completion step (same abstract execution, ordered trace of writes and transaction statements with CALLed procedures inlined):
      on every abstract path the write that makes the job terminal, the tally increments and the completion writes for the batch and every ancestor
      group are in ONE transaction - no COMMIT / START TRANSACTION / ROLLBACK between them (a retried call finds the job terminal and does nothing)
  R9  the reported status is read from the database by the request that reports it (engines/c0506facts.py part 3, provenance dataflow with function
      summaries; WHO MAY STORE into state that outlives the request is decided interprocedurally - a helper's parameter is whatever its call sites
      pass, decorator applications and helper modules of the package included): the record given to batch_record_to_dict / job_group_record_to_dict is a
      query result of the same invocation; no status reader - up to the HTTP / UI handlers, and any helper, method, wrapper or converter that answers
      from such state - returns, sends (driver callbacks) or patches into the completion fields of its answer a value read back from state that outlives
      the request and holds status dicts / fields of status rows (app[...] entries, module / class level containers, `global` names, function attributes,
      mutable defaults, variables of a decorator or factory, cache objects built around a reader); no reader or converter is memoised by a decorator
Not decided: histories; what the callbacks' payloads say beyond their provenance (R9).
"""
from __future__ import annotations

import ast
from typing import Dict, List, Tuple

from engines import c0506facts as cf
from engines import c06c14sql as sq
from engines import jobgraphfacts as jg
from engines import pyfacts as pf
from engines import sqlfront as sf
from engines import sqlrules as sr
from engines.common import AnalysisError, AnchorRemoved, Ctx
from engines.common import read_repo as common_read
from engines.sqlast import N, text

META = dict(
    category='other',
    text='Completion bookkeeping checked by abstract execution of the effective routines over symbolic rows (tally fan-out, partition of terminal states, completion test after the increment on the '
         'same entity over all ancestors, re-opening at commit), plus who-may-write / shape rules for the closure table and the staged job counts that these roll-ups trust, and reader/writer agreement '
         'for the reported counts, and provenance of every reported status (database query of the same request, never per-process state).',
    note='Trusted: SQL parser, the abstract executor (engines/jobgraphfacts.py); MySQL applies UPDATE assignments left to right. Once-only counting is C04-R2; uncommitted updates are C41.',
    technique='static analysis: abstract execution of extracted SQL routine bodies over symbolic values with explicit case splits, normal forms of row selections, who-may-write and alias rules in Python',
    design_ref='DESIGN.md §3 C06',
)

TALLY = 'job_groups_n_jobs_in_complete_states'
TERMINAL = ['Success', 'Failed', 'Error', 'Cancelled']


LOCKS = ('LOCK IN SHARE MODE', 'FOR SHARE', 'FOR UPDATE')
CLOSURE = jg.CLOSURE
CATS = jg.CATS
WANT_DELTA = {'Success': (1, 1, 0, 0), 'Failed': (1, 0, 1, 0), 'Error': (1, 0, 1, 0), 'Cancelled': (1, 0, 0, 1)}


def _show(v: object) -> str:
    return 'NULL' if v is None else (v.name if isinstance(v, jg.Sym) else (repr(v) if isinstance(v, jg.Lin) else str(v)))


def r123(ctx: Ctx, prog: sf.SqlProgram) -> None:
    """COMPOSITE effect of the effective mark_job_complete (mark_job_group_complete and any other callee inlined) on the tally table,
    job_groups and batches, by ABSTRACT execution (engines/jobgraphfacts.py).  Roles: the tally / job_groups rows of the job's own group,
    of a GENERIC self-or-ancestor of it (the cursor loop is checked to be the canonical walk over all closure rows of the group and its
    body executed once for that generic element) and of the root; the batch row.  Counters are symbolic; each group's
    gap = n_jobs - n_completed (>= 1 before the call) is split {1, >= 2} exactly where the code compares.  Which rows a statement
    touches is decided from the normal form of its conditions.  Required with the job's own terminal transition, and only then:
    every tally row of the chain moves by the partition table of new_state; a group is marked complete (state, time_completed) iff
    its gap was 1, i.e. its own n_completed AFTER counting this job equals its own n_jobs; the batch row likewise against the root."""
    r = prog.routine('mark_job_complete')
    params = jg.routine_params(prog, 'mark_job_complete')
    ctx.need({'in_batch_id', 'in_job_id', 'new_state', 'new_timestamp'} <= set(params), f'mark_job_complete: parameters {params}')
    jg.need_no_trigger_feedback(prog, ['jobs', 'job_parents', 'job_groups', TALLY, 'batches', CLOSURE])
    cons = f'{r.file}::mark_job_complete'
    scn, syms = jg.mark_job_complete_scenario(prog, groups=True)
    mg = prog.routines.get('mark_job_group_complete')
    gfile, gline = (mg.file, mg.line) if mg is not None else (r.file, r.line)

    def where(st: N) -> Tuple[str, int]:
        for rr in (r, mg):
            if rr is not None and any(st is x or (x.kind == 'declare_cursor' and x.select is st) for x in sf.all_statements(rr.ast.body)):
                return rr.file, rr.line_of(st) if hasattr(st, 'pos') else rr.line
        return r.file, r.line

    def run(case: jg.Case):
        fails: Dict[str, Tuple[str, str, int]] = {}
        try:
            ex = jg.AbsExec(prog, scn, case)
            ex.tolerate = {'jobs'}
            ex.track_txn = True
            ex.call('mark_job_complete', {'in_batch_id': syms['B'], 'in_job_id': syms['J'], 'new_state': jg.EnumVal('new_state'), 'in_attempt_id': syms['A'], 'new_timestamp': jg.Sym('new_timestamp')})
        except jg.Mismatch as mm:
            key = {TALLY: 'fanout', 'job_groups': 'group completion', 'batches': 'batch completion'}.get(mm.table)
            if key is None:
                raise AnalysisError(f'mark_job_complete: {mm.what}')
            f_, l_ = where(mm.st)
            return {key: (f'`{text(mm.st)[:100]}`: {mm.what}', f_, l_)}, False, True
        E = ex.E
        trans, pre, post = jg.own_transition(ex)

        def unchanged_groups(tag: str) -> bool:
            g = ex.rows[('job_groups', tag)]
            return E.res(g['state']) == 'running' and g['time_completed'] is None and E.eq(g['n_jobs'], scn.rows[('job_groups', tag)]['n_jobs']) == 1
        if not trans:
            for t in jg.ANC_TAGS:
                if any(not E.eq(ex.rows[(TALLY, t)][c_], scn.rows[(TALLY, t)][c_]) for c_ in CATS) or not unchanged_groups(t):
                    fails['transition'] = (f'the job makes no terminal transition in this call (its state stays {post}), yet tallies / job_groups rows of its group chain change: a repeated or rejected completion '
                                           'message is counted again', r.file, r.line)
            b = ex.rows[('batches', 'b')]
            if E.res(b['state']) != 'running' or b['time_completed'] is not None:
                fails['transition'] = (f'the job makes no terminal transition in this call, yet the batch row changes to state {E.res(b["state"])}', r.file, r.line)
            return fails, False, False
        ns = E.res(jg.EnumVal('new_state'))
        for t in jg.ANC_TAGS:
            delta = []
            for c_ in CATS:
                d = jg.lin_of(ex.rows[(TALLY, t)][c_])
                ctx.need(d is not None, f'mark_job_complete: {TALLY}.{c_} receives a value the abstraction cannot determine')
                d = case.norm(d - scn.rows[(TALLY, t)][c_])
                delta.append(int(d.const) if d.is_const() else repr(d))
            who = {'own': 'the job\'s own group', 'anc': 'a self-or-ancestor group of the job\'s group', 'root': 'the root group'}[t]
            if delta[0] != 1:
                fails.setdefault('fanout', (f'n_completed of {who} changes by {delta[0]}, expected +1 (the job\'s own group and every ancestor count the job exactly once)', r.file, r.line))
            if tuple(delta) != WANT_DELTA[ns]:
                fails.setdefault(f'partition {ns}', (f'(n_completed, n_succeeded, n_failed, n_cancelled) of {who} change by {tuple(delta)}, expected {WANT_DELTA[ns]}', r.file, r.line))
        g = ex.rows[('job_groups', 'anc')]
        last = E.eq(jg.Lin({'gap_anc': 1}, 0), 1) == 1
        got = (E.res(g['state']), _show(E.res(g['time_completed'])))
        want = ('complete', 'new_timestamp') if last else ('running', 'NULL')
        if got != want or not E.eq(g['n_jobs'], scn.rows[('job_groups', 'anc')]['n_jobs']):
            fails['group completion'] = (f'a self-or-ancestor group of the finished job\'s group, which had {"exactly one unfinished job (this one)" if last else "at least two unfinished jobs"} before the call, ends with '
                                         f'(state, time_completed) = {got}, expected {want}: a group is complete exactly when its own n_completed, AFTER this job has been counted, equals its own n_jobs '
                                         '(test after the increment, like with like)', gfile, gline)
        for kind, info in ex.events:
            if kind == 'early_leave':
                if last or info.get('order') != 'leaf-first':
                    fails.setdefault('group completion', (f'the walk over the self-and-ancestor groups is left early at a group that {"is complete" if last else "still has unfinished jobs"} (cursor order: {info.get("order")}): '
                                                          'the groups after it in cursor order are never examined although they may have become complete with this job', gfile, gline))
        if not any(k_ == 'loop' for k_, _ in ex.events) and not any(rk[0] == 'job_groups' for _, _, rk in ex.writes) and last:
            fails.setdefault('group completion', ('no statement examines the self-and-ancestor groups of the finished job\'s group in this call', gfile, gline))
        b = ex.rows[('batches', 'b')]
        lastb = E.eq(jg.Lin({'gap_root': 1}, 0), 1) == 1
        gotb = (E.res(b['state']), _show(E.res(b['time_completed'])))
        wantb = ('complete', 'new_timestamp') if lastb else ('running', 'NULL')
        if gotb != wantb or not E.eq(b['n_jobs'], scn.rows[('batches', 'b')]['n_jobs']):
            fails['batch completion'] = (f'the batch, which had {"exactly one unfinished job (this one)" if lastb else "at least two unfinished jobs"} before the call, ends with (state, time_completed) = {gotb}, '
                                         f'expected {wantb}: the batch is complete exactly when the root tally, AFTER this job has been counted, equals batches.n_jobs', r.file, r.line)
        # ---- R8 atomicity of the completion step: on this abstract path, the statement that makes the job terminal, the tally increments and every
        # completion write (batch row, job_groups rows of the chain) lie in ONE transaction: no COMMIT / START TRANSACTION / ROLLBACK between any two of them
        # (statement order of the path actually taken, CALLed procedures inlined).
        marks = [i for i, ev in enumerate(ex.trace) if ev[0] == 'write' and (ev[3] == ('jobs', 'own') or ev[3][0] in (TALLY, 'job_groups', 'batches'))]
        cuts = [i for i, ev in enumerate(ex.trace) if ev[0] == 'txn' and marks and marks[0] < i < marks[-1]]
        if cuts:
            ci = cuts[0]
            before = [ex.trace[i] for i in marks if i < ci]
            after = [ex.trace[i] for i in marks if i > ci]
            tst = ex.trace[ci][2]

            def what(ev) -> str:
                return {'jobs': 'the job\'s own terminal state', TALLY: 'the tallies (n_completed, ...)', 'job_groups': 'the completion of a job group', 'batches': 'the completion of the batch'}[ev[3][0]]
            trt = prog.routines.get(ex.trace[ci][1])
            f_, l_ = (trt.file, trt.line_of(tst)) if trt is not None and hasattr(tst, 'pos') else where(tst)
            fails['atomic'] = (f'`{tst.what}` (in {ex.trace[ci][1]}) ends the transaction after `{text(before[-1][2])[:70]}` has written {what(before[-1])} and before `{text(after[0][2])[:70]}` decides {what(after[0])}: '
                               f'{", ".join(dict.fromkeys(what(e) for e in before))} become durable while {", ".join(dict.fromkeys(what(e) for e in after))} are still undecided.  History: this job is the last unfinished job of '
                               'the batch / of a job group; the connection is lost, or the second transaction is chosen as deadlock victim or times out on a row lock held by commit_batch_update / cancel_job_group, right after '
                               'that statement; gear retries the CALL (and the worker re-posts job_complete), the retry finds the job already terminal and - see the instance `only with the transition` - '
                               'changes nothing: n_completed = n_jobs, yet the batch / group stays \'running\' with time_completed NULL for ever', f_, l_)
        for t in ('own', 'root'):
            if not unchanged_groups(t) and 'group completion' not in fails:
                # the own / root rows are represented by the generic ancestor in the loop; a direct write to them is outside the canonical walk
                raise AnalysisError('mark_job_complete: job_groups rows of the own / root group are written outside the ancestor walk')
        return fails, True, False

    results = jg.explore(scn.dom, run)
    n_trans = sum(1 for _, (f_, t_, m_) in results if t_)
    mism = any(m_ for _, (f_, t_, m_) in results)
    ctx.need(n_trans > 0 or mism, 'mark_job_complete: no abstract case makes the job\'s own terminal transition')
    first: Dict[str, Tuple[str, str, str, int]] = {}
    for case, (fails, _, _) in results:
        for k, (msg, f_, l_) in fails.items():
            first.setdefault(k, (case.describe(), msg, f_, l_))
    detail = {'abstract_cases': len(results), 'with_transition': n_trans}

    def emit(rule: str, key: str, construct: str) -> None:
        if key in first:
            w, msg, f_, l_ = first[key]
            ctx.bad(rule, construct, f'case [{w}]: {msg}', f_, l_)
        else:
            ctx.ok(rule, construct, detail)
    emit('R1', 'fanout', f'{cons}::tally update::ancestor fan-out')
    for ns in TERMINAL:
        emit('R2', f'partition {ns}', f'{cons}::tally update::partition {ns}')
    emit('R3', 'group completion', f'{cons}::group completion')
    emit('R3', 'batch completion', f'{cons}::batch completion')
    emit('R3', 'transition', f'{cons}::only with the transition')
    emit('R8', 'atomic', f'{cons}::job state, tallies and completion decided in one transaction')
    ctx.unit('completion_abstract_cases', len(results))


def r3_locks(ctx: Ctx, prog: sf.SqlProgram) -> None:
    """The job counts compared in the completion tests are read with a lock held to the end of the transaction: otherwise a commit that
    adds jobs can slip in between the read and the `complete` write and the fresh `running` state is overwritten."""
    todo = ['mark_job_complete']
    seen: List[str] = []
    while todo:
        name = todo.pop()
        if name in seen or name not in prog.routines:
            continue
        seen.append(name)
        for st in sf.all_statements(prog.routines[name].ast.body):
            if st.kind == 'call':
                todo.append(st.name)
    found = {'job_groups': 0, 'batches': 0}
    for name in seen:
        rr = prog.routines[name]
        for st in sf.all_statements(rr.ast.body):
            sels = [st] if st.kind == 'select' else ([st.select] if st.kind == 'declare_cursor' else [])
            for q in sels:
                if q.frm is None or not (q.into or st.kind == 'declare_cursor'):
                    continue
                tn = [t.lower() for t in sf.table_names(q.frm)]
                for tbl in ('job_groups', 'batches'):
                    if tbl in tn and any(x.kind == 'col' and x.parts[-1].lower() == 'n_jobs' for c, _ in q.cols for x in c.walk()):
                        found[tbl] += 1
                        what = 'job_groups.n_jobs' if tbl == 'job_groups' else 'batches.n_jobs'
                        ctx.check(q.lock in LOCKS, 'R3', f'{rr.file}::{name}::n_jobs read is locking', f'{what} is read without a lock: a concurrent commit_batch_update of a later update can add jobs between this read '
                                  'and the `complete` write; the stale count then overwrites the re-opened row (complete with unfinished jobs that are never reported running)', rr.file, rr.line_of(st))
    ctx.need(found['job_groups'] >= 1 and found['batches'] >= 1, f'completion tests: reads of n_jobs INTO variables not found in {seen} (found {found}); the comparison may be done inside one statement, '
             'whose locking this rule does not analyse')


def r4(ctx: Ctx, prog: sf.SqlProgram) -> None:
    """Re-opening: COMPOSITE effect of the effective commit_batch_update on the batch row and on a generic job group that has staging
    rows for the update, by ABSTRACT execution.  NU = batch_updates.n_jobs of the update, SS = SUM(n_jobs) over the staging rows of
    (this batch, this update, that group) are count symbols; an aggregate with any other selection / grouping is a different symbol,
    a directly joined staging row yet another (several rows per group: inst_coll x token).  Required when this call commits the update
    and NU >= 1: batch row (running, NULL, n_jobs + NU); group row n_jobs + SS as a normal form and, for SS >= 1, (running, NULL);
    required otherwise (already committed, count mismatch, update without jobs): both rows unchanged."""
    r = prog.routine('commit_batch_update')
    params = jg.routine_params(prog, 'commit_batch_update')
    ctx.need({'in_batch_id', 'in_update_id'} <= set(params), f'commit_batch_update: parameters {params}')
    jg.need_no_trigger_feedback(prog, ['batch_updates', jg.STAGING, 'batches', 'job_groups'])
    scn, syms = jg.commit_scenario(prog)
    cons = f'{r.file}::commit_batch_update'
    lines: Dict[str, int] = {}

    def run(case: jg.Case):
        fails: Dict[str, Tuple[str, int]] = {}
        try:
            ex = jg.AbsExec(prog, scn, case)
            ex.tolerate = {'jobs'}
            ex.call('commit_batch_update', {'in_batch_id': syms['B'], 'in_update_id': syms['U'], 'in_timestamp': jg.Sym('commit_timestamp')})
        except jg.Mismatch as mm:
            key = {'job_groups': 'reopen job groups', 'batches': 'reopen batch'}.get(mm.table)
            if key is None:
                raise AnalysisError(f'commit_batch_update: {mm.what}')
            return {key: (f'`{text(mm.st)[:100]}`: {mm.what}', r.line_of(mm.st))}, False
        except jg.DependsOn:
            raise AnalysisError('commit_batch_update: control flow depends on the stored pending count (see C05)')
        E = ex.E
        for _, st_, rk in ex.writes:
            lines.setdefault(rk[0], r.line_of(st_))
        upd = ex.rows[('batch_updates', 'u')]['committed']
        committed_now = not isinstance(upd, jg.EnumVal) and bool(E.res(upd)) and case.choice.get('committed') == 0
        b, g = ex.rows[('batches', 'b')], ex.rows[('job_groups', 'staged')]
        b0, g0 = scn.rows[('batches', 'b')], scn.rows[('job_groups', 'staged')]
        for row in (b, g):
            for col in ('state', 'n_jobs', 'time_completed'):
                ctx.need(row[col] is not jg.UNK, f'commit_batch_update: {col} receives a value the abstraction cannot determine')

        def same(row, row0) -> bool:
            return _show(E.res(row['state'])) == _show(row0['state']) and _show(E.res(row['time_completed'])) == _show(row0['time_completed']) and E.eq(row['n_jobs'], row0['n_jobs']) == 1
        reopening = committed_now and case.sign(jg.Lin({'NU': 1}, 0)) > 0
        if not reopening:
            why = 'this call does not commit the update (already committed, or the staged job count does not match)' if not committed_now else 'the committed update has no jobs'
            if not same(b, b0):
                fails['commit once'] = (f'{why}, yet the batch row changes to (state, time_completed, n_jobs) = ({_show(E.res(b["state"]))}, {_show(E.res(b["time_completed"]))}, {_show(b["n_jobs"])}): '
                                        'jobs are counted twice / a finished batch is shown running for ever', lines.get('batches', r.line))
            if not same(g, g0):
                fails['commit once'] = (f'{why}, yet a job group row changes to (state, time_completed, n_jobs) = ({_show(E.res(g["state"]))}, {_show(E.res(g["time_completed"]))}, {_show(g["n_jobs"])})',
                                        lines.get('job_groups', r.line))
            return fails, False
        gotb = (_show(E.res(b['state'])), _show(E.res(b['time_completed'])))
        if gotb != ('running', 'NULL') or not E.eq(b['n_jobs'], b0['n_jobs'] + jg.Lin({'NU': 1}, 0)):
            fails['reopen batch'] = (f'committing an update with NU >= 1 jobs leaves the batch row with (state, time_completed, n_jobs) = ({gotb[0]}, {gotb[1]}, {_show(b["n_jobs"])}); expected (running, NULL, NB + NU)',
                                     lines.get('batches', r.line))
        if not E.eq(g['n_jobs'], g0['n_jobs'] + syms['SS']):
            fails['reopen job groups'] = (f'a job group with staging rows for this update gets n_jobs = {_show(g["n_jobs"])}; expected NG + one_row + other_rows = NG + the sum of n_jobs over ITS staging rows of THIS update '
                                          '(all instance collections and tokens): the group\'s job count no longer equals the number of its jobs, so it is reported complete too early or never',
                                          lines.get('job_groups', r.line))
        elif case.sign(syms['SS']) > 0:
            gotg = (_show(E.res(g['state'])), _show(E.res(g['time_completed'])))
            if gotg != ('running', 'NULL'):
                fails['reopen job groups'] = (f'a job group that receives SS >= 1 new jobs is left with (state, time_completed) = {gotg}; expected (running, NULL)', lines.get('job_groups', r.line))
        return fails, True

    results = jg.explore(scn.dom, run)
    n_re = sum(1 for _, (f_, a_) in results if a_)
    mism = any(k in ('reopen job groups', 'reopen batch') for _, (f_, a_) in results for k in f_)
    ctx.need(n_re > 0 or mism, 'commit_batch_update: no abstract case commits an update with jobs (commit path not recognised)')
    first: Dict[str, Tuple[str, str, int]] = {}
    for case, (fails, _) in results:
        for k, (msg, ln) in fails.items():
            first.setdefault(k, (case.describe(), msg, ln))
    detail = {'abstract_cases': len(results), 'reopening_cases': n_re}
    for key in ('reopen batch', 'reopen job groups', 'commit once'):
        if key in first:
            w, msg, ln = first[key]
            ctx.bad('R4', f'{cons}::{key}', f'case [{w}]: {msg}', r.file, ln)
        else:
            ctx.ok('R4', f'{cons}::{key}', detail)


READ_SITES = [('batch/batch/front_end/front_end.py', '_get_batch', 'batch'), ('batch/batch/front_end/front_end.py', '_get_job_group', 'group')]
TALLIES = ['n_completed', 'n_succeeded', 'n_failed', 'n_cancelled']


def r5(ctx: Ctx) -> None:
    for rel, q, kind in READ_SITES:
        m = pf.load(rel)
        fn = m.func(q)
        # the reader's query, also when it has been moved into a helper function of the module (engines/c0506facts.collect_queries follows local calls)
        embs = [qi.emb for qi in cf.collect_queries(m, fn) if qi.emb.sql_text and TALLY in qi.emb.sql_text]
        embs = [e for i, e in enumerate(embs) if not any(e is x for x in embs[:i])]
        ctx.need(len(embs) == 1, f'{rel}::{q}: reader query not found')
        e = embs[0]
        st = e.stmts()[0]
        ctx.need(not e.parse_error and st.kind == 'select', f'{rel}::{q}: reader query does not parse')
        cons = f'{rel}::{q}'
        verdict, why = _tally_source(st, e, fn)
        ctx.need(verdict != 'unknown', f'{cons}: {why}')
        ctx.check(verdict == 'ok', 'R5', cons + '::tally source', f'the reported counts are not read from {TALLY} joined on the entity\'s own (batch_id, job_group_id): {why}', m.path, e.lineno)
        # EVERY query of the reader whose rows reach a record -> dict converter reads the tallies (a second, cheaper query for batches the process
        # believes finished would report counts that are not the counts over the jobs)
        sp = _status_prov(m)[1]
        seen_calls = []
        for qi in cf.collect_queries(m, fn):
            if any(qi.emb.call is x for x in seen_calls) or qi.emb.call.lineno not in sp.status_lines or qi.emb is e:
                continue
            seen_calls.append(qi.emb.call)
            ctx.need(qi.emb.sql_text is not None, f'{cons}: the text of a second query of {q} (line {qi.emb.call.lineno}) that feeds the record -> dict converter is not resolvable')
            if not (qi.emb.sql_text and TALLY in qi.emb.sql_text):
                ctx.bad('R5', cons + '::every status query reads the tallies', f'a second query of {q} feeds the record -> dict converter without reading {TALLY}: '
                        f'`{(qi.emb.sql_text or "<not a literal>").strip()[:120]}`: on that path n_completed / n_succeeded / n_failed / n_cancelled (and with them state / complete) are not the counts over the jobs', m.path, qi.emb.call.lineno)
    bm = pf.load('batch/batch/batch.py')
    for fname in ('batch_record_to_dict', 'job_group_record_to_dict'):
        fn = bm.func(fname)
        d = None
        for n in ast.walk(fn):
            if isinstance(n, ast.Dict) and any(pf.const_str(k) == 'n_completed' for k in n.keys if k is not None):
                d = n
        ctx.need(d is not None, f'{fname}: result dict not found')
        ps = [a.arg for a in fn.args.posonlyargs + fn.args.args]
        ctx.need(len(ps) >= 1, f'{fname}: no record parameter')
        rec = ps[0]
        ctx.need(len(pf.assignments(fn).get(rec, [])) == 1, f'{fname}: the record parameter `{rec}` is re-bound')
        wrong = {}
        for k, v in zip(d.keys, d.values):
            key = pf.const_str(k) if k is not None else None
            if key not in TALLIES + ['n_jobs', 'complete']:
                continue
            x = pf.expand_locals(fn, v)
            if key == 'complete':
                okv = isinstance(x, ast.Compare) and len(x.ops) == 1 and isinstance(x.ops[0], ast.Eq) and \
                    sorted([_field_of(x.left, rec) or repr(pf.const_str(x.left)), _field_of(x.comparators[0], rec) or repr(pf.const_str(x.comparators[0]))]) == sorted(['state', repr('complete')])
                decided = okv or isinstance(x, (ast.Compare, ast.Constant, ast.BoolOp)) or _field_of(x, rec) is not None
            else:
                okv = _field_of(x, rec) == key
                # a copy of another field, arithmetic over fields, a constant: recognised and wrong; anything else (a conversion, a helper call) is not decided here
                decided = okv or _field_of(x, rec) is not None or isinstance(x, (ast.BinOp, ast.Constant, ast.UnaryOp, ast.IfExp))
            ctx.need(decided, f'{fname}: the value reported as {key!r} (`{pf.nsrc(v)}`) is not a recognised copy of a field of the record')
            if not okv:
                wrong[key] = pf.nsrc(v)
        reported = {pf.const_str(k) for k in d.keys if k is not None}
        ctx.need(set(TALLIES + ['n_jobs', 'complete']) <= reported, f'{fname}: the result dict does not report {sorted(set(TALLIES + ["n_jobs", "complete"]) - reported)}')
        ctx.check(not wrong, 'R5', f'{bm.rel}::{fname}::copies counts', f'the API record reports {wrong}; expected the stored values unmodified (<record>[<same key>], complete = <record>[\'state\'] == \'complete\')', bm.path, d.lineno)


def _field_of(x: ast.AST, rec: str):
    """`<rec>['k']` -> k"""
    if isinstance(x, ast.Subscript) and isinstance(x.value, ast.Name) and x.value.id == rec:
        return pf.const_str(x.slice)
    return None


def _tally_source(st: N, e, fn: pf.FuncDef):
    """Does the reader's SELECT take the four tallies from the tally table joined on the entity's own (batch id, job group id)?
    Alias-independent: tables are resolved through the FROM clause, equalities may be written either way round and in any order, and
    the two key equalities may sit in the ON clause of the tally join or (for an inner join) in WHERE.  The entity is the job_groups
    row (for the batch: its root group) the statement selects; `X = %s` and `Y = %s` bound to the same python expression are equal.
    -> ('ok' | 'bad' | 'unknown', why)"""
    if st.frm is None:
        return 'unknown', 'the reader query has no FROM clause'
    refs = sf.from_tables(st.frm)
    alias = {(r.alias or r.name).lower().strip('`'): r.name.lower() for r in refs if r.kind == 'table'}
    tallies = [a for a, t in alias.items() if t == TALLY]
    if len(tallies) != 1:
        return 'unknown', f'{TALLY} appears {len(tallies)} times in the FROM clause of the reader query'
    T = tallies[0]
    bind = {}
    try:
        params = sr.params_in_order(st)
        elts = sr.args_tuple(e.fn or fn, e.call.args[1] if len(e.call.args) > 1 else None)
        if elts is not None and len(elts) == len(params):
            bind = {p.pos: pf.nsrc(pf.expand_locals(e.fn or fn, x)) for p, x in zip(params, elts)}
    except AnalysisError:
        bind = {}

    def node(x: N):
        if x.kind == 'col':
            parts = [p.lower().strip('`') for p in x.parts]
            if len(parts) >= 2 and parts[-2] in alias:
                return ('col', parts[-2], parts[-1])
            return None
        if x.kind == 'param' and x.pos in bind:
            return ('val', bind[x.pos])
        if x.kind == 'lit':
            return ('val', repr(x.value))
        return None
    parent = {}

    def find(x):
        parent.setdefault(x, x)
        while parent[x] != x:
            parent[x] = parent[parent[x]]
            x = parent[x]
        return x
    tj = None
    for j in st.frm.joins:
        if j.ref.kind == 'table' and (j.ref.alias or j.ref.name).lower().strip('`') == T:
            tj = j
    outer = tj is not None and any(w in (tj.jtype or '').upper() for w in ('LEFT', 'RIGHT'))
    if tj is not None and 'RIGHT' in (tj.jtype or '').upper():
        return 'unknown', 'the tally table is RIGHT-joined'
    strange = []
    sources = [(c, 'where') for c in sf.conjuncts(st.where)]
    for j in st.frm.joins:
        if j.on is not None:
            sources += [(c, 'on-tally' if j is tj else 'on') for c in sf.conjuncts(j.on)]
    for c, where in sources:
        mentions_t = any(len(x.parts) >= 2 and x.parts[-2].lower().strip('`') == T for x in sf.cols_in(c))
        if c.kind == 'bin' and c.op == '=':
            a, b = node(c.left), node(c.right)
            if a is not None and b is not None:
                # an equality in WHERE does not tie an outer-joined tally row (it would reject the NULL-extended row instead): not this shape
                if mentions_t and outer and where != 'on-tally':
                    strange.append(text(c))
                    continue
                parent[find(a)] = find(b)
                continue
        if mentions_t:
            strange.append(text(c))
    if tj is None and st.frm.first.kind == 'table' and (st.frm.first.alias or st.frm.first.name).lower().strip('`') != T:
        return 'unknown', 'the tally table is neither the first table nor brought in by a join'
    # selected columns
    star = any(c.kind == 'star' and (c.table or '').lower().strip('`') == T for c, _ in st.cols)
    sel_problem = None
    if not star:
        out_cols = {}
        for c, al in st.cols:
            name = (al or (c.parts[-1] if c.kind == 'col' else '')).lower().strip('`')
            if name:
                out_cols[name] = c
        for t in TALLIES:
            c = out_cols.get(t)
            if c is None:
                if any(c2.kind == 'star' and not c2.table for c2, _ in st.cols):
                    continue
                return 'unknown', f'the reader query does not select a column named {t}'
            n = node(c) if c.kind == 'col' else None
            if c.kind == 'col' and n is None and len(c.parts) == 1:
                return 'unknown', f'the selected column {t} is not qualified; cannot attribute it to a table'
            if n != ('col', T, t):
                sel_problem = f'`{text(c)}` is reported as {t}'
    if sel_problem:
        return 'bad', sel_problem
    if strange:
        return 'unknown', f'condition(s) {strange} on the tally table are not plain equalities'
    ents = [a for a, t in alias.items() if t == 'job_groups']
    if len(ents) != 1:
        return 'unknown', f'job_groups appears {len(ents)} times in the FROM clause of the reader query'
    E = ents[0]
    batch_keys = {find(('col', E, 'batch_id'))} | {find(('col', a, 'id')) for a, t in alias.items() if t == 'batches'}
    ok_b = find(('col', T, 'id')) in batch_keys
    ok_g = find(('col', T, 'job_group_id')) == find(('col', E, 'job_group_id'))
    if ok_b and ok_g:
        return 'ok', ''
    on = [text(c) for c in sf.conjuncts(tj.on)] if tj is not None and tj.on is not None else []
    missing = ([] if ok_b else [f'{TALLY}.id = the entity\'s batch id']) + ([] if ok_g else [f'{TALLY}.job_group_id = the entity\'s job_group_id'])
    return 'bad', f'the join of the tally table (ON {on}) lacks {" and ".join(missing)}: the counts of other groups / batches are joined to the reported row'


def r6(ctx: Ctx, prog: sf.SqlProgram) -> None:
    """Who may write job_group_self_and_ancestors, and in which shape (engines/jobgraphfacts.py, part 2).  The tallies, the staged job
    counts, the completion walk and the re-opening all range over `the closure rows of the job's group`: they reflect the jobs of
    descendant groups only if that table holds exactly (g, a, distance) for a = g and every ancestor a of g."""
    for status, key, msg, file, line in jg.check_closure_writers(prog, ctx.tier):
        if status == 'ok':
            ctx.ok('R6', key, msg)
        else:
            ctx.bad('R6', key, msg, file, line)


def _fresh(e: ast.expr) -> bool:
    """Does the expression create a new mutable object (as opposed to passing an existing one on)?"""
    if isinstance(e, (ast.Dict, ast.DictComp, ast.List, ast.ListComp, ast.Set, ast.SetComp)):
        return True
    if isinstance(e, ast.Call):
        n = pf.call_name(e) or ''
        return n in ('dict', 'list', 'collections.defaultdict', 'defaultdict', 'copy.copy', 'copy.deepcopy', 'collections.Counter', 'Counter') or n.endswith('.copy')
    return False


def r7(ctx: Ctx, prog: sf.SqlProgram) -> None:
    """Staged job counts: job_groups.n_jobs is re-opened with the SUM of the staging rows of the group (R4), so a group's job count
    equals the number of its jobs only if every submitted job adds exactly 1 to the staging row of its own group AND of every ancestor.
    Canonical writer (who-may-write / shape): `_create_jobs` counts `+= 1` once per job under the key (the job row's job_group_id,
    inst_coll) and inserts the counts with INSERT .. SELECT over the closure rows of that group (job_group_id <- ancestor_id,
    n_jobs <- the counted value, ON DUPLICATE KEY n_jobs = n_jobs + VALUES(n_jobs)).  A roll-up done in Python instead is checked for
    the one defect that is decidable by alias analysis (one mutable object stored under several accumulator keys and then
    incremented in place); otherwise it is declined."""
    m = pf.load('batch/batch/front_end/front_end.py')
    fn = m.func('_create_jobs')
    cons = f'{m.rel}::_create_jobs'
    inner = {id(x) for x in ast.walk(fn)}
    sites = [(e, st) for e in sf.embedded_in(m) if id(e.call) in inner and e.sql_text and jg.STAGING in e.sql_text and not e.parse_error for st in e.stmts()
             if st.kind == 'insert' and st.table.lower() == jg.STAGING]
    others = [e for e in sf.embedded_in(m) if id(e.call) not in inner and e.sql_text and jg.STAGING in e.sql_text and not e.parse_error
              and any(s2.kind in ('insert', 'update') and any(t.lower() == jg.STAGING for t, _ in sf.written_tables(s2)) for s2 in e.stmts())]
    ctx.need(len(sites) == 1 and not others, f'_create_jobs: expected exactly one insert into {jg.STAGING} (found {len(sites)}, other writers in this module: {[o.qual for o in others]})')
    e, st = sites[0]
    efn = e.fn or fn
    args_node = e.call.args[1] if len(e.call.args) > 1 else None
    row = _rows_from_items(m, fn, efn, args_node)
    ctx.need(row is not None, f'_create_jobs: the rows of the {jg.STAGING} insert are not built from `for (group, inst_coll), resources in <dict>.items()` (a list comprehension of tuples, or one '
             'unconditional `.append((...))` per iteration of such a loop)')
    elts, key_elts, val_name, acc = row  # type: ignore[misc]
    key_names = [pf.nsrc(x) for x in key_elts]
    params = sr.params_in_order(st)
    ctx.need(len(params) == len(elts), f'_create_jobs: {len(params)} parameters vs {len(elts)} tuple elements in the {jg.STAGING} insert')
    # a tuple element that is a single-definition local stands for its definition (the loop variables have none)
    bind = {id(p): pf.nsrc(pf.expand_locals(efn, x)) for p, x in zip(params, elts)}
    if st.select is None:
        # ---- roll-up in Python: alias analysis of the accumulator ----
        stores = [n for n in ast.walk(fn) if isinstance(n, ast.Assign) and len(n.targets) == 1 and isinstance(n.targets[0], ast.Subscript) and isinstance(n.targets[0].value, ast.Name) and n.targets[0].value.id == acc]
        readers = {t.id for n in ast.walk(fn) if isinstance(n, ast.Assign) and len(n.targets) == 1 and isinstance(n.targets[0], ast.Name)
                   and ((isinstance(n.value, ast.Call) and isinstance(n.value.func, ast.Attribute) and n.value.func.attr in ('get', 'setdefault') and isinstance(n.value.func.value, ast.Name) and n.value.func.value.id == acc)
                        or (isinstance(n.value, ast.Subscript) and isinstance(n.value.value, ast.Name) and n.value.value.id == acc)) for t in n.targets}
        inplace = [n for n in ast.walk(fn) if isinstance(n, ast.AugAssign) and isinstance(n.target, ast.Subscript) and
                   ((isinstance(n.target.value, ast.Name) and n.target.value.id in readers) or
                    (isinstance(n.target.value, ast.Subscript) and isinstance(n.target.value.value, ast.Name) and n.target.value.value.id == acc))]
        for s_ in stores:
            v = s_.value
            if _fresh(v) or not isinstance(v, ast.Name):
                continue
            loops = sr.enclosing_loops(m, s_)
            binder = [l for l in loops if any(isinstance(x, ast.Name) and x.id == v.id for x in ast.walk(l.target))]
            inner_loops = loops[:loops.index(binder[0])] if binder else []
            varying = [l for l in inner_loops if {x.id for x in ast.walk(l.target) if isinstance(x, ast.Name)} & pf.names_in(s_.targets[0].slice)]
            if binder and varying and inplace:
                ctx.bad('R7', f'{cons}::staged counts rolled up in Python', f'`{pf.nsrc(s_)}` stores the SAME object `{v.id}` (bound once per iteration of `for {pf.nsrc(binder[0].target)} in {pf.nsrc(binder[0].iter)[:50]}`) under '
                        f'several keys of `{acc}` - one per iteration of `for {pf.nsrc(varying[0].target)} in {pf.nsrc(varying[0].iter)[:40]}` - and `{pf.nsrc(inplace[0])}` later increments such an object in place: every slot '
                        f'that shares it (the group itself, its ancestors not yet seen, and the entry of `{pf.nsrc(binder[0].iter)[:40]}` it came from) grows together.  E.g. a bunch whose first jobs are in a nested group and whose '
                        'later jobs are in a sibling or in the root: the first group is staged with the jobs of the others too, job_groups.n_jobs exceeds the number of its jobs and the group is never reported complete',
                        m.path, s_.lineno)
                return
        raise AnalysisError(f'_create_jobs: the insert into {jg.STAGING} no longer fans out over {CLOSURE} in SQL (INSERT .. SELECT): the staged job counts are rolled up to the ancestors in Python '
                            f'(accumulator `{acc}`); beyond aliasing of accumulator slots, which was not found, such a roll-up is not decidable here')
    # ---- canonical: INSERT .. SELECT over the closure rows of the counted group ----
    sub = st.select
    ins, dup, uvars = sr.insert_colmap(st)
    ctx.need(sub.frm is not None and [t.lower() for t in sf.table_names(sub.frm)] == [CLOSURE] and not sub.frm.joins and not sub.group and sub.limit is None,
             f'_create_jobs: the {jg.STAGING} insert selects from {sf.table_names(sub.frm) if sub.frm is not None else None}; expected the closure table alone')

    def value_of(x: N):
        if x.kind == 'param':
            return jg.Sym('py:' + bind[id(x)])
        if x.kind == 'lit':
            return x.value
        raise jg.Undecided(text(x))
    try:
        sel = jg.SelBuilder(jg.full_schema(prog), lambda n: False, value_of).build(sub.frm, sub.where)
    except jg.Undecided as ex:
        raise AnalysisError(f'_create_jobs: the selection of the {jg.STAGING} insert is not in the normal form this rule reads ({ex})')
    alias = list(sel.insts)[0]
    pins = {c: [v.name[3:] if isinstance(v, jg.Sym) else repr(v) for v in sel.pinned(alias, c)] for c in ('batch_id', 'job_group_id', 'ancestor_id', 'level')}
    okf = pins['job_group_id'] == [key_names[0]] and len(pins['batch_id']) == 1 and not pins['ancestor_id'] and not pins['level'] and not sel.residual \
        and ins.get('job_group_id') is not None and ins['job_group_id'].kind == 'col' and ins['job_group_id'].parts[-1].lower() == 'ancestor_id'
    ctx.check(okf, 'R7', f'{cons}::staged counts fan out over the closure', f'the staged counts of a (group, inst_coll) key are not inserted for the group and ALL its ancestors: job_group_id <- `{text(ins.get("job_group_id"))}`, '
              f'closure rows selected by job_group_id = {pins["job_group_id"]} (key group `{key_names[0]}`), extra filters {[text(c) for c in sel.residual] + pins["ancestor_id"] + pins["level"]}: '
              'ancestors that get no staging row keep n_jobs without the new jobs and are reported complete while those jobs run', m.path, e.lineno)
    nj = ins.get('n_jobs')
    got = bind.get(id(nj)) if nj is not None and nj.kind == 'param' else (text(nj) if nj is not None else None)
    d = dup.get('n_jobs')
    inc = sr.dup_increment('n_jobs', d, uvars) if d is not None else None
    okd = inc is not None and inc[0] == 1 and inc[1].kind == 'values_fn' and inc[1].col.lower() == 'n_jobs'
    # `INSERT .. AS new ON DUPLICATE KEY UPDATE n_jobs = n_jobs + new.n_jobs` (row alias instead of VALUES()) is not read here
    ctx.need(okd or inc is None or inc[1].kind != 'col' or len(inc[1].parts) < 2, f'_create_jobs: ON DUPLICATE KEY UPDATE `{text(d) if d is not None else None}` adds a qualified column (row alias?): not recognised')
    if got != f"{val_name}['n_jobs']":
        # recognised and wrong: another field of the counted value, a literal, another bound name; anything else (a conversion, .get(..)) is not decided here
        import re as _re
        ctx.need(got is not None and (_re.fullmatch(_re.escape(val_name) + r"\['\w+'\]", got) or _re.fullmatch(r"[\w.]+|-?\d+|'[^']*'", got)),
                 f'_create_jobs: n_jobs of the staging row receives `{got}`: not a recognised copy of the counted value')
    ctx.check(got == f"{val_name}['n_jobs']" and okd, 'R7', f'{cons}::staged n_jobs is the counted value, accumulated', f'n_jobs of the staging row receives `{got}` (expected {val_name}[\'n_jobs\']) / '
              f'ON DUPLICATE KEY UPDATE `{text(d)}` (expected n_jobs = n_jobs + VALUES(n_jobs)): several bunches of one update, or several groups under one ancestor, must add up', m.path, e.lineno)
    # the counting site: += 1 once per job, unconditionally, under the job row's own group
    incs = _increments_of(fn, 'n_jobs')
    ctx.need(len(incs) == 1, f'_create_jobs: expected one `<counts>[\'n_jobs\'] += ..` (found {len(incs)})')
    inc_, inc_target, amount = incs[0]
    base = inc_target.value
    holder = pf.single_def(fn, base.id) if isinstance(base, ast.Name) else base
    # the row of the jobs insert: the tuple appended to the list the INSERT INTO jobs is executed with (whatever the list is called)
    jst = [(e2, s2) for e2 in sf.embedded_in(m) if id(e2.call) in inner and not e2.parse_error for s2 in e2.stmts() if s2.kind == 'insert' and s2.table.lower() == 'jobs']
    ctx.need(len(jst) == 1 and jst[0][1].cols is not None and len(jst[0][0].call.args) > 1, '_create_jobs: jobs insert not found')
    je, js = jst[0]
    jobs_elts = None
    jobs_append = None
    for scope in ([je.fn] if je.fn is not None and je.fn is not fn else []) + [fn]:
        a1 = je.call.args[1]
        if isinstance(a1, ast.Name):
            apps = [n for n in pf.walk_shallow(scope) if isinstance(n, ast.Call) and isinstance(n.func, ast.Attribute) and n.func.attr == 'append' and isinstance(n.func.value, ast.Name)
                    and n.func.value.id == a1.id and len(n.args) == 1]
            if len(apps) == 1 and isinstance(apps[0].args[0], ast.Tuple):
                jobs_elts, jobs_append = list(apps[0].args[0].elts), apps[0]
                break
    ctx.need(jobs_elts is not None and len(js.cols) == len(jobs_elts), '_create_jobs: jobs insert / the tuple appended to its argument list not found')
    jmap = {c.lower(): pf.nsrc(pf.expand_locals(fn, x)) for c, x in zip(js.cols, jobs_elts)}  # type: ignore[arg-type]
    loops = sr.enclosing_loops(m, inc_)
    ifs = sr.enclosing_ifs(m, inc_, stop=loops[0]) if loops else [('?', True)]
    ctx.need(isinstance(holder, ast.Subscript) and isinstance(holder.value, ast.Name) and isinstance(holder.slice, ast.Tuple) and len(holder.slice.elts) == 2,
             f'_create_jobs: the counted slot `{pf.nsrc(holder) if isinstance(holder, ast.AST) else holder}` is not `<dict>[(group, inst_coll)]`')
    ctx.need(holder.value.id == acc, f'_create_jobs: the counted mapping `{holder.value.id}` is not the mapping the staging rows are built from (`{acc}`)')  # type: ignore[union-attr]
    key_src = pf.nsrc(pf.expand_locals(fn, holder.slice.elts[0]))  # type: ignore[union-attr]
    same_key = key_src == jmap.get('job_group_id')
    if not same_key:
        # two spellings that differ may still denote the same value (a conversion, a different path to the same field): only plain names decide
        k1, k2 = pf.expand_locals(fn, holder.slice.elts[0]), jobs_elts[[c.lower() for c in js.cols].index('job_group_id')] if 'job_group_id' in [c.lower() for c in js.cols] else None  # type: ignore[union-attr,index]
        ctx.need(k2 is not None and isinstance(k1, ast.Name) and isinstance(pf.expand_locals(fn, k2), ast.Name), f'_create_jobs: cannot compare the counted group `{key_src}` with the job row\'s job_group_id `{jmap.get("job_group_id")}`')
    ctx.need(isinstance(amount, ast.Constant) and isinstance(amount.value, int), f'_create_jobs: `{pf.nsrc(inc_)}` does not add a literal')
    # every iteration that produces a job row also counts it: no way round the loop through the row's append that avoids the increment
    skipped = False
    if loops and jobs_append is not None and sr.enclosing_loops(m, jobs_append)[:1] == loops[:1]:
        g = pf.cfg(fn)
        heads = [n for n in g.nodes if n.kind == 'loop' and n.ast is loops[0]]
        incn = g.node_of(inc_)
        appn = g.node_of(jobs_append)
        if len(heads) == 1 and len(incn) == 1 and len(appn) == 1 and incn[0] is not appn[0]:
            h0, i0, a0 = heads[0], incn[0], appn[0]
            skipped = g.path_avoiding(h0, lambda x: x is a0, lambda x: x is i0) is not None and g.path_avoiding(a0, lambda x: x is h0, lambda x: x is i0) is not None
    okc = same_key and amount.value == 1 and bool(loops) and not ifs and not skipped  # type: ignore[union-attr]
    ctx.check(okc, 'R7', f'{cons}::every job counts once under its own group', f'`{pf.nsrc(inc_)}` with `{pf.nsrc(base)} = {pf.nsrc(holder) if isinstance(holder, ast.AST) else holder}`'
              f'{" under a condition (" + pf.nsrc(ifs[0][0].test) + ")" if ifs and ifs[0][0] != "?" else (" which some iterations that append a job row skip" if skipped else "")}: every submitted job must add exactly 1 under ({jmap.get("job_group_id")}, inst_coll) in `{acc}`, '
              'the mapping the staging rows are built from', m.path, inc_.lineno)


def _rows_from_items(m: pf.Module, fn: pf.FuncDef, efn: pf.FuncDef, args_node):
    """The argument rows of an execute_many built from a mapping: (tuple elements, key elements, name bound to the value, mapping name) for
        [ (..) for (k0, k1), v in <acc>.items() ]                                  (inline or through a single-definition local)
        rows = []; for (k0, k1), v in <acc>.items(): rows.append((..))             (one unconditional append, one enclosing loop)
    None for any other shape."""
    def header(target, it):
        if isinstance(it, ast.Call) and isinstance(it.func, ast.Attribute) and it.func.attr == 'items' and not it.args and isinstance(it.func.value, ast.Name) \
                and isinstance(target, ast.Tuple) and len(target.elts) == 2 and isinstance(target.elts[0], ast.Tuple) and isinstance(target.elts[1], ast.Name):
            return list(target.elts[0].elts), target.elts[1].id, it.func.value.id
        return None
    comp = args_node
    scopes = [efn] + ([fn] if fn is not efn else [])
    if isinstance(comp, ast.Name):
        name = comp.id
        comp = None
        for sc in scopes:
            d = pf.single_def(sc, name)
            if isinstance(d, ast.ListComp):
                comp = d
                break
            if isinstance(d, ast.List) and not d.elts:
                apps = [n for n in pf.walk_shallow(sc) if isinstance(n, ast.Call) and isinstance(n.func, ast.Attribute) and n.func.attr == 'append' and isinstance(n.func.value, ast.Name)
                        and n.func.value.id == name and len(n.args) == 1]
                others = [n for n in pf.walk_shallow(sc) if isinstance(n, ast.Call) and isinstance(n.func, ast.Attribute) and n.func.attr in ('extend', 'insert', '__iadd__') and isinstance(n.func.value, ast.Name)
                          and n.func.value.id == name] + [n for n in pf.walk_shallow(sc) if isinstance(n, ast.AugAssign) and isinstance(n.target, ast.Name) and n.target.id == name]
                if len(apps) != 1 or others or not isinstance(apps[0].args[0], ast.Tuple):
                    return None
                loops = sr.enclosing_loops(m, apps[0])
                if len(loops) != 1 or loops[0].orelse or sr.enclosing_ifs(m, apps[0], stop=loops[0]):
                    return None
                # no way through the loop body that avoids the append (continue / break / early return)
                if any(isinstance(x, (ast.Continue, ast.Break, ast.Return)) for x in ast.walk(loops[0])):
                    return None
                h = header(loops[0].target, loops[0].iter)
                if h is None:
                    return None
                return (list(apps[0].args[0].elts),) + h
            if d is not None:
                return None
    if isinstance(comp, ast.ListComp) and len(comp.generators) == 1 and isinstance(comp.elt, ast.Tuple) and not comp.generators[0].ifs and not comp.generators[0].is_async:
        h = header(comp.generators[0].target, comp.generators[0].iter)
        if h is not None:
            return (list(comp.elt.elts),) + h
    return None


def _increments_of(fn: pf.FuncDef, key: str):
    """(statement, target subscript, amount) for `<x>['key'] += a` and the equivalent `<x>['key'] = <x>['key'] + a` / `a + <x>['key']`."""
    out = []
    for n in ast.walk(fn):
        if isinstance(n, ast.AugAssign) and isinstance(n.op, ast.Add) and isinstance(n.target, ast.Subscript) and pf.const_str(n.target.slice) == key:
            out.append((n, n.target, n.value))
        elif isinstance(n, ast.Assign) and len(n.targets) == 1 and isinstance(n.targets[0], ast.Subscript) and pf.const_str(n.targets[0].slice) == key \
                and isinstance(n.value, ast.BinOp) and isinstance(n.value.op, ast.Add):
            t = pf.nsrc(n.targets[0])
            if pf.nsrc(n.value.left) == t:
                out.append((n, n.targets[0], n.value.right))
            elif pf.nsrc(n.value.right) == t:
                out.append((n, n.targets[0], n.value.left))
    return out


_SP_CACHE: Dict[str, tuple] = {}


def _status_prov(m: pf.Module):
    if m.path not in _SP_CACHE:
        _SP_CACHE[m.path] = cf.check_status_provenance(m)
    return _SP_CACHE[m.path]


def r9(ctx: Ctx) -> None:
    """The status the service reports is read from the database by the request that reports it (engines/c0506facts.py part 3).  Completion and
    the counts live in the database and change under the readers' feet (commit_batch_update re-opens a complete batch, other replicas
    commit / cancel / complete): a status dict that is kept in state that outlives the request - an app[...] entry, a module-level or
    class-level container, a module name re-bound through `global`, a function attribute, a mutable parameter default, the variables of a
    decorator / factory, the memo of a caching decorator or cache object - and served again is a report that does not reflect the jobs.
    Decided by provenance (def-use dataflow; helpers followed through function summaries instantiated per call site; WHO MAY STORE into a
    retained object decided interprocedurally: a helper's parameter is whatever its call sites pass, decorator applications included):
    (a) the record handed to batch_record_to_dict / job_group_record_to_dict is the result of a query executed on the database handle in
    the same invocation; (b) no reader - a function that calls a converter, or that calls / passes on such a function, up to the HTTP
    handlers, and any function that answers from a retained object holding status - returns a value read back from a retained object into
    which the module stores status dicts, fields of a status row, or a loader built around a reader; (c) no reader, and no converter, is
    wrapped by a memoising decorator; (d) the converters themselves answer from their argument only; (e) reporters that return nothing
    (the driver's callback notifications) do not send a value read back from such an object.  Every module of batch/batch that mentions
    a converter is analysed."""
    rel = 'batch/batch/front_end/front_end.py'
    m = pf.load(rel)
    findings, sp = _status_prov(m)
    for want in ('_get_batch', '_get_job_group'):
        ctx.need(any(sp.qual[i] == want for i in sp.readers), f'{rel}::{want} no longer reaches a record -> dict converter (status readers not recognised)')
    bm = pf.load('batch/batch/batch.py')
    results = [(m, f) for f in findings]
    for fname in cf.CONVERTERS:
        dec = cf.memo_decorator(bm.func(fname))
        ctx.check(dec is None, 'R9', f'{bm.rel}::{fname}::not memoised', f'{fname} is wrapped by @{dec}: the reported dict is remembered per process instead of being rebuilt from the record read by the request', bm.path, bm.func(fname).lineno)
        results.append((bm, cf.check_converter_pure(bm, fname)))
    n_readers = len(sp.readers)
    for r2 in pf.walk_py(['batch/batch']):
        if r2 in (rel, bm.rel) or not any(c in common_read(r2) for c in cf.CONVERTERS):
            continue
        m2 = pf.load(r2)
        f2, sp2 = cf.check_status_provenance(m2)
        results += [(m2, f) for f in f2]
        n_readers += len(sp2.readers)
    undec = [f for _, f in results if f.status == 'undecided']
    anybad = False
    seen = set()
    for mod, f in results:
        if (f.status, f.construct) in seen:   # a helper module adopted by several analysed modules
            continue
        seen.add((f.status, f.construct))
        if f.status == 'ok':
            ctx.ok('R9', f.construct, f.message)
        elif f.status == 'bad':
            anybad = True
            ctx.bad('R9', f.construct, f.message, f.path or mod.path, f.line)
    ctx.need(not undec or anybad, (undec[0].construct + ': ' + undec[0].message) if undec else '')
    ctx.unit('status_readers', n_readers)


def run(ctx: Ctx) -> None:
    ctx.explanation = ('Abstract execution of mark_job_complete / mark_job_group_complete / commit_batch_update over symbolic rows (effects, and the order of writes and transaction statements); who-may-write and shape of '
                       'the closure table and of the staged job counts; API readers: source tables, unmodified copies, and provenance of the reported status (database query of the same request).')
    ctx.rule('R1', 'tallies are incremented for exactly the job\'s group and every ancestor (normal form of the selection), once', 1)
    ctx.rule('R2', 'per terminal state: completed +1 and exactly the matching category +1', 4)
    ctx.rule('R3', 'completion (abstract execution): every self-or-ancestor group, and the batch, is marked complete iff its own n_completed after counting this job equals its own n_jobs; only with the job\'s terminal transition; the job counts compared are read under a lock', 5)
    ctx.rule('R4', 'commit (abstract execution): an update with jobs re-opens the batch (+NU) and each staged group (+ the sum of its own staging rows of this update); nothing moves when the call does not commit or the update is empty', 3)
    ctx.rule('R5', 'readers take tallies from the tally table on the entity\'s own key and copy them unmodified', 4)
    ctx.rule('R6', 'closure table: the only writers of job_group_self_and_ancestors are the self row (g, g, 0) and the unfiltered INSERT .. SELECT of every row of the parent with level + 1, '
             'for the group whose job_groups row the same function inserts, on the same transaction, the copy for every non-root group', 5)
    ctx.rule('R7', 'staged job counts: every job adds 1 under its own group; the counts are inserted for the group and all its ancestors (INSERT .. SELECT over the closure rows) and accumulate; '
             'a Python roll-up must not share one mutable object between accumulator slots', 3)
    ctx.rule('R8', 'atomicity of the completion step (abstract execution, statement order with CALLed procedures inlined): on every path of mark_job_complete the write that makes the job terminal, the tally increments and '
             'the completion writes for the batch and every ancestor group are in ONE transaction - no COMMIT / START TRANSACTION / ROLLBACK between them (a retried call takes the already-complete no-op branch)', 1)
    ctx.rule('R9', 'reported status is read from the database by the request that reports it: the records given to the record -> dict converters are query results of the same invocation; no status reader '
             '(up to the HTTP handlers; helpers, cache classes, decorators and helper modules followed), no converter and no callback sender returns / sends / patches into the completion fields a value '
             'read back from state that outlives the request and into which status is stored (who may store: interprocedural); none is memoised', 16)
    ctx.assume('functions imported from outside the batch package (json_response, render_template, ...) are pure in the sense that they answer from their arguments only; functions imported by name from modules of '
               'the batch package are analysed')
    # statement texts moved into module constants / bound to a local first are read like literals by everything below
    ctx.unit('sql_texts_resolved_through_constants', sq.upgrade_embedded(pf.load('batch/batch/front_end/front_end.py')))
    prog = sf.load_program()
    # every rule is evaluated even when an earlier one declines: a violation established by a recognised shape is reported, otherwise the first decline stands
    first = None
    for step in (lambda: r123(ctx, prog), lambda: r3_locks(ctx, prog), lambda: r4(ctx, prog), lambda: r5(ctx), lambda: r6(ctx, prog), lambda: r7(ctx, prog), lambda: r9(ctx)):
        try:
            step()
        except AnchorRemoved:
            raise
        except AnalysisError as e:
            first = first or e
    if first is not None:
        raise first
