"""C07 Cancellation stops work in the cancelled subtree only.

Every FAIL below rests on a construct whose shape is fully read and that shape breaks the obligation; anything else is deferred (the
other rules still run, the run ends as ANALYSIS-ERROR / exit 2 unless a violation was established).  Nothing compares table aliases,
names of SQL locals / routine parameters, Python locals, loop variables or helper names with frozen strings: SQL locals are followed
to their defining expression (SET / SELECT .. INTO, engines/c07facts.Definitions), the group-cancelled function is recognised by its
body, Python SQL texts are resolved through locals, closure / module constants, conditional expressions and if/else assignments,
guards include guard clauses (`if c: continue|return|raise`), module-level helpers are inlined (also when called in an `if` test).

  R1  every SQL fragment that consults job_groups_cancelled is classified: (a) the canonical self-and-ancestors walk correlated on one
      subject's own (batch_id, job_group_id); (b) a root-group lookup (job_group_id = 0 / ROOT_JOB_GROUP_ID) for batch-level questions;
      (c) reporting-only deviations (frozen table of functions, printed).  Violations (positive evidence): a walk correlated on
      another subject, the walk joined on the group's own job_group_id instead of ancestor_id, a lookup of ONE group's mark with no
      ancestor table anywhere in the query.  Other shapes are not classified (deferred)
  R2  admission: a BEFORE INSERT trigger on jobs SIGNALs whenever the ancestor walk of (NEW.batch_id, NEW.job_group_id) is true (the
      test may sit in a local; a flag assigned only on some paths, a refusal that needs more than the flag, or a test on another
      subject are violations) and the front end turns MySQL error 1644 into HTTP 400; _create_job_group refuses a cancelled parent
      before inserting, the probe being keyed by the (batch, parent) whose ancestor rows the new group inherits; _create_batch_update
      refuses a cancelled batch
  R3  repeating a cancellation changes nothing: every write of both cancel procedures is excluded once the procedure's own mark exists
  R4  is_job_cancelled == NOT always_run AND (cancelled OR group-cancelled) on all 8 valuations; in schedule_job / mark_job_started /
      mark_job_creating the write state := Running|Creating of job (b, j) is unreachable when is_job_cancelled(b, j) is true (guards
      resolved through locals, nested IFs, guard clauses with LEAVE), and every path of the procedure answers with a result row
  R5  driver selections: schedulers pick non-always-run Ready jobs only with cancelled = 0 under "group not cancelled"; always-run jobs
      are picked regardless; cancellers pick only always_run = 0 jobs, either from cancelled groups or with cancelled = 1
  R6  an accepted cancel request is recorded: the mark depends on nothing but "not already cancelled"; every cancel entry point reaches
      the CALL on every normal exit
  R7  "answered normally under any combination of cancelled groups": every query of the scheduling / creating / starting procedures
      (and of the functions they call) that MySQL requires to yield one value (RETURN (SELECT ..), SELECT .. INTO, scalar sub-query) and
      whose rows range over cancellation marks yields at most one row however many groups of one ancestor chain are cancelled -
      functional-dependency closure from the declared table keys (engines/sqlcard.py); the writer side is checked too: the cancel
      procedure admits a mark on a group whose descendant already carries one, so two marks on one chain do occur.  Instance keys name
      the routine, the kind of use and the tables ranged over - no aliases
Not decided: histories / interleavings.
"""
from __future__ import annotations

import ast
import itertools
from typing import Any, Dict, List, Optional, Tuple

from engines import c07facts as cf
from engines import pyfacts as pf
from engines import sqlcard as sc
from engines import sqlfront as sf
from engines import sqlrules as sr
from engines.common import AnalysisError, AnchorRemoved, Ctx
from engines.sqlast import N, text
from engines.sqleval import UNKNOWN, Unbound, ev, may

META = dict(
    category='other',
    text='Every consultation of the cancellation table is classified against the canonical ancestor walk (sibling agreement over ~30 hand-copied '
         'sub-queries), the cancellation predicate is decided by truth table, and the guards that keep cancelled work from starting are checked for '
         'dominance in the stored procedures and the driver queries.',
    note='Reporting-only sites are listed, not armed (C07 speaks about work being stopped). Trusted: SQL parser; data invariant that job_group_self_and_ancestors '
         'holds exactly the ancestor closure.',
    technique='static analysis: SQL sub-query classification (sibling agreement), truth table, guard dominance in routines and Python loops',
    design_ref='DESIGN.md §3 C07',
)

# functions whose use of the cancellation table only feeds what is displayed / estimated, with the reason
REPORTING_ONLY = {
    'notify_batch_job_complete': 'callback payload',
    'notify_job_group_on_job_complete': 'callback payload',
    'get_completed_batches_ordered_by_completed_time': 'billing listing',
    '_get_batch': 'GET batch (root group status)',
    '_get_job_group': 'GET job group',
    'parse_list_batches_query_v1': 'listing',
    'parse_list_batches_query_v2': 'listing',
    'parse_list_job_groups_query_v1': 'listing',
    'Pool.regions_to_ready_cores_mcpu_from_estimated_job_queue': 'autoscaler estimate, starts no job',
    'check_incremental.check': 'audit (decided under C01-R2)',
}
# batch-level admission questions: the root group stands for the batch
ROOT_LEVEL = {'_create_batch_update.update', 'commit_update', 'is_batch_cancelled'}


FLAG = '__c07_flag__'
_DECLINES: List[str] = []


def _defer(msg: str) -> None:
    """A construct this run cannot decide: remembered, the other rules still run, the run ends as ANALYSIS-ERROR (exit 2) unless a
    violation with positive evidence was found elsewhere."""
    if msg not in _DECLINES:
        _DECLINES.append(msg)


def _flag() -> N:
    return N('col', parts=[FLAG])


def _known(value: Any):
    def k(n: N) -> Any:
        return value if (n.kind == 'col' and n.parts[-1] == FLAG) else UNKNOWN
    return k


def _with_flags(c: N, atoms: List[cf.Atom]) -> N:
    return cf.replace_nodes(c, {id(a.node): _flag() for a in atoms})


def _routine_function_names(prog: sf.SqlProgram) -> set:
    return {n.lower() for n, r in prog.routines.items() if r.kind == 'function'}


def _about_cancellation(e: Any, prog: sf.SqlProgram) -> bool:
    """Could this expression consult cancellation in a way the atoms did not capture (reads the mark / ancestor tables, or calls a
    stored function we would have to look into)?"""
    fnames = _routine_function_names(prog)
    for n in sc.walk(e):
        if n.kind == 'table' and n.name.lower() in (cf.MARKS, cf.ANC):
            return True
        if n.kind == 'func' and n.name.lower() in fnames:
            return True
    return False


def _guard_text(guard) -> List[str]:
    return [('' if p else 'NOT ') + text(c) for c, p in guard]


def _subject(b: N, g: N, consts: set) -> Tuple[Optional[bool], str]:
    """Is the walk correlated on ONE subject's own (batch, group)?  True / False (a recognised other correlation) / None (not decided).
    Table aliases and the names of routine parameters / locals are not compared with anything."""
    tb, tg = text(b).lower(), text(g).lower()
    subj = f'({tb}, {tg})'
    if b.kind == 'param' and g.kind == 'param':
        return True, '(%s, %s)'
    if b.kind == 'lit' or g.kind == 'lit':
        return False, subj
    if b.kind == 'col' and g.kind == 'col':
        qb = b.parts[-2].lower() if len(b.parts) > 1 else None
        qg = g.parts[-2].lower() if len(g.parts) > 1 else None
        nb, ng = b.parts[-1].lower(), g.parts[-1].lower()
        if qb is not None and qg is not None:
            return (qb == qg and nb in ('batch_id', 'id') and ng == 'job_group_id'), subj
        if qb is None and qg is None:
            if nb in consts and ng in consts:
                return nb != ng, subj
            if nb not in consts and ng not in consts:
                return (nb in ('batch_id', 'id') and ng == 'job_group_id'), subj
    return None, subj


def _template_owner(m: pf.Module, t: 'sf.Template') -> Tuple[str, Optional[pf.FuncDef]]:
    """The function a SQL text belongs to: the one that contains it, or - for a text held in a module-level constant / a constant of an
    enclosing function - the single function that reads that constant."""
    par = m.parents()
    cur: ast.AST = t.node
    while par.get(cur) is not None and not isinstance(cur, ast.stmt):
        cur = par[cur]
    name = None
    if isinstance(cur, ast.Assign) and len(cur.targets) == 1 and isinstance(cur.targets[0], ast.Name):
        name = cur.targets[0].id
    elif isinstance(cur, ast.AnnAssign) and isinstance(cur.target, ast.Name):
        name = cur.target.id
    if name is not None:
        scope = t.fn if t.fn is not None else m.tree
        users = []
        for q, f in m.functions():
            if f is t.fn:
                continue
            if t.fn is not None and not any(f is x for x in ast.walk(scope)):
                continue
            if any(isinstance(n, ast.Name) and n.id == name and isinstance(n.ctx, ast.Load) for n in pf.walk_shallow(f)):
                users.append((q, f))
        here = t.fn is not None and any(isinstance(n, ast.Name) and n.id == name and isinstance(n.ctx, ast.Load) for n in pf.walk_shallow(t.fn))
        if len(users) == 1 and not here:
            return users[0]
    return t.qual, t.fn


def _bound_args(m: pf.Module, t: 'sf.Template', owner: Optional[pf.FuncDef]) -> Optional[Tuple[pf.FuncDef, Dict[int, ast.expr]]]:
    """The execute-style call (in the owner function) that issues template t and the Python expression bound to every %s position."""
    if owner is None:
        return None
    for site in cf.query_sites(m, owner):
        for v in site.variants or []:
            if v.sql_text == t.sql_text:
                elts = sr.args_tuple(site.fn, site.args_expr())
                params = []
                for st in v.stmts():
                    params += sr.params_in_order(st)
                if elts is None or not params or len(elts) != len(params):
                    return None
                return site.fn, {p_.pos: x for p_, x in zip(params, elts)}
    return None


def r1(ctx: Ctx, prog: sf.SqlProgram, fns: Dict[str, Tuple[int, int]]) -> None:
    n_sites = 0
    one_mark = ('looks up the mark of ONE group {subj} in job_groups_cancelled; nothing in the query consults job_group_self_and_ancestors: a group whose ANCESTOR was cancelled '
                'is not seen as cancelled here (and the root lookup that stands for the whole batch is `job_group_id = 0`)')
    own_group = ('joins job_groups_cancelled on the group\'s OWN job_group_id instead of job_group_self_and_ancestors.ancestor_id: the ancestor rows are read but only the '
                 'group\'s own mark can match, cancelling an ancestor is not seen here')
    # stored routines
    for name, r in sorted(prog.routines.items()):
        consts = cf.consts_of(r.ast)
        k = 0
        for st in sf.all_statements(r.ast.body):
            for sel in sr.cancelled_sites(st):
                k += 1
                n_sites += 1
                cons = f'sql::{name}::cancellation lookup #{k}'
                w = cf.walk_shape(sel)
                if w is not None and w['kind'] == 'ancestors':
                    ok, subj = _subject(w['batch'], w['group'], consts)
                    if ok is None:
                        _defer(f'{name}: the ancestor walk is correlated on {subj}; whether that is one subject\'s own (batch_id, job_group_id) is not decided')
                        continue
                    ctx.check(ok, 'R1', cons, f'ancestor walk is correlated on {subj}, which is not one subject\'s own (batch_id, job_group_id)', r.file, r.line_of(st), detail='canonical ' + subj)
                    continue
                if w is not None:
                    ctx.bad('R1', cons, f'{name} {own_group}', r.file, r.line_of(st))
                    continue
                mo = cf.marks_only(sel, fns)
                if mo is not None and mo['group'] is not None:
                    if mo['group'].kind == 'lit' and mo['group'].value == 0:
                        ctx.ok('R1', cons, 'root lookup')
                    else:
                        ctx.bad('R1', cons, f'{name} ' + one_mark.format(subj=f'({text(mo["batch"])}, {text(mo["group"])})'), r.file, r.line_of(st))
                    continue
                _defer(f'{name}: `{text(sel)[:90]}` consults job_groups_cancelled in a shape that is neither the self-and-ancestors walk nor a single-mark lookup: not classified')
    # python
    for rel in pf.walk_py(['batch/batch']):
        m = pf.load(rel)
        if 'job_groups_cancelled' not in m.src:
            continue
        per_fn: Dict[str, int] = {}
        for t in sf.templates_in(m, ['job_groups_cancelled']):
            sts = t.stmts()
            if t.parse_error:
                raise AnalysisError(f'{rel}:{t.lineno}: SQL consulting job_groups_cancelled does not parse: {t.parse_error}')
            for st in sts:
                if st.kind == 'insert' and st.table.lower() == 'job_groups_cancelled':
                    ctx.bad('R1', f'{rel}::{t.qual}::INSERT INTO job_groups_cancelled', 'cancellation is recorded outside the cancel procedures', m.path, t.lineno)
                for sel in sr.cancelled_sites(st):
                    n_sites += 1
                    qual, owner = _template_owner(m, t)
                    per_fn[qual] = per_fn.get(qual, 0) + 1
                    cons = f'{rel}::{qual}::cancellation lookup #{per_fn[qual]}'
                    w = cf.walk_shape(sel)
                    reporting = qual in REPORTING_ONLY
                    if w is not None and w['kind'] == 'ancestors':
                        ok, subj = _subject(w['batch'], w['group'], set())
                        if ok and w['batch'].kind == 'param':
                            # the bound python values must at least be two different expressions
                            ba = _bound_args(m, t, owner)
                            if ba is not None:
                                efn, bind = ba
                                pb, pg = bind.get(w['batch'].pos), bind.get(w['group'].pos)
                                if pb is not None and pg is not None:
                                    subj = f'({pf.nsrc(pb)}, {pf.nsrc(pg)})'
                                    ok = ast.dump(pf.expand_locals(efn, pb)) != ast.dump(pf.expand_locals(efn, pg))
                        if ok is None and not reporting:
                            _defer(f'{rel}::{qual}: the ancestor walk is correlated on {subj}; whether that is one subject\'s own (batch_id, job_group_id) is not decided')
                            continue
                        if ok or reporting:
                            ctx.ok('R1', cons, ('canonical ' if ok else 'reporting-only deviation ') + subj)
                            if not ok:
                                ctx.info(f'C07 reporting-only site {rel}::{qual} correlates the walk on {subj}')
                        else:
                            ctx.bad('R1', cons, f'ancestor walk is correlated on {subj}, which is not one subject\'s own (batch_id, job_group_id): groups would be treated as cancelled '
                                    'because of an unrelated group, or not although an ancestor is', m.path, t.lineno)
                        continue
                    if reporting:
                        ctx.ok('R1', cons, f'reporting-only: {REPORTING_ONLY[qual]}', nontrivial=False)
                        ctx.info(f'C07 reporting-only site {rel}::{qual} consults job_groups_cancelled without the ancestor walk ({REPORTING_ONLY[qual]})')
                        continue
                    if w is not None:
                        ctx.bad('R1', cons, f'{qual} {own_group}', m.path, t.lineno)
                        continue
                    mo = cf.marks_only(sel, fns)
                    if mo is not None and mo['group'] is not None:
                        g = mo['group']
                        root: Optional[bool] = None
                        gtxt = text(g)
                        if g.kind == 'lit':
                            root = g.value == 0
                        elif g.kind == 'param':
                            ba = _bound_args(m, t, owner)
                            if ba is not None and ba[1].get(g.pos) is not None:
                                efn, bind = ba
                                gtxt = pf.nsrc(bind[g.pos])
                                v = cf.py_const_int(m, efn, bind[g.pos])
                                x = bind[g.pos]
                                if v is not None:
                                    root = v == 0
                                elif isinstance(x, ast.Name) and x.id.isupper():
                                    root = None    # a constant we could not resolve
                                elif isinstance(x, (ast.Name, ast.Subscript, ast.Attribute)):
                                    root = False   # bound to a run-time value (a variable / a record field): one particular group
                        elif g.kind == 'col':
                            root = False
                        if root:
                            ctx.ok('R1', cons, 'root lookup (batch-level question)')
                            continue
                        if root is None and qual in ROOT_LEVEL:
                            ctx.ok('R1', cons, 'root lookup (batch-level admission)')
                            continue
                        if root is False:
                            ctx.bad('R1', cons, f'{qual} ' + one_mark.format(subj=f'(.., {gtxt})'), m.path, t.lineno)
                            continue
                    if mo is not None and qual in ROOT_LEVEL:
                        ctx.ok('R1', cons, 'root lookup (batch-level admission)')
                        continue
                    if mo is not None and mo['group'] is None and _joined_on_own_group(sel):
                        # a table joined to its marks on the rows' own key, no ancestors anywhere in the query
                        ctx.bad('R1', cons, f'{qual} ' + one_mark.format(subj='(the joined rows\' own batch_id, job_group_id)'), m.path, t.lineno)
                        continue
                    _defer(f'{rel}::{qual}: `{text(sel)[:90]}` consults job_groups_cancelled in a shape that is neither the self-and-ancestors walk nor a single-mark lookup: not classified')
    ctx.unit('cancellation_lookups_classified', n_sites)


def _joined_on_own_group(sel: N) -> bool:
    """T JOIN job_groups_cancelled C ON T.batch_id = C.id AND T.job_group_id = C.job_group_id (either orientation, ON or WHERE)."""
    tabs = [t for t in sf.from_tables(sel.frm) if t.kind == 'table']
    if len(tabs) != 2:
        return False
    ca = [(t.alias or t.name).lower() for t in tabs if t.name.lower() == cf.MARKS]
    oa = [(t.alias or t.name).lower() for t in tabs if t.name.lower() != cf.MARKS]
    if len(ca) != 1 or len(oa) != 1:
        return False
    conj = list(sf.conjuncts(sel.where))
    for j in sel.frm.joins:
        conj += sf.conjuncts(j.on)
    pairs = set()
    for c in conj:
        if c.kind == 'bin' and c.op == '=' and c.left.kind == 'col' and c.right.kind == 'col' and len(c.left.parts) > 1 and len(c.right.parts) > 1:
            l = (c.left.parts[-2].lower(), c.left.parts[-1].lower())
            r = (c.right.parts[-2].lower(), c.right.parts[-1].lower())
            for x, y in ((l, r), (r, l)):
                if x[0] == oa[0] and y[0] == ca[0]:
                    pairs.add((x[1], y[1]))
    return ('job_group_id', 'job_group_id') in pairs and (('batch_id', 'id') in pairs or ('id', 'id') in pairs)


# ------------------------------------------------------------------------------------------------------------------------------------
# R2 admission

def _trigger_refusal(ctx: Ctx, prog: sf.SqlProgram, fns: Dict[str, Tuple[int, int]], roots: Dict[str, int]) -> None:
    trigs = [r for r in prog.triggers_on('jobs', 'INSERT') if r.ast.timing == 'BEFORE']
    if not trigs:
        prog.routine('jobs_before_insert')   # AnchorRemoved / anchor vanished
        raise AnalysisError('no BEFORE INSERT trigger on jobs')
    want = ('new.batch_id', 'new.job_group_id')
    good = None
    evidence: List[Tuple[sf.Routine, N, str]] = []
    undecided: List[str] = []
    n_signals = 0
    for r in trigs:
        a = r.ast
        defs = cf.Definitions(a.body, cf.consts_of(a))
        for st, g in sf.guarded_statements(a.body):
            if st.kind != 'signal':
                continue
            n_signals += 1
            res = [(defs.resolve(c, st), p) for c, p in g]
            atoms: List[cf.Atom] = []
            conditional: List[Tuple[str, cf.Def]] = []
            for (c2, cond), _ in res:
                atoms += cf.cancel_atoms(c2, fns, roots)
                conditional += cond
            mine = [x for x in atoms if x.kind == 'walk' and x.subject() == want]
            forced = bool(mine) and all(may(_with_flags(c2, mine), _known(1)) == {p} for (c2, _), p in res)
            if forced:
                good = r
                continue
            # why not?
            cond_atoms = [(k, d) for k, d in conditional if d.value is not None and cf.cancel_atoms(d.value, fns, roots)]
            if cond_atoms:
                k, d = cond_atoms[0]
                evidence.append((r, st, f'the SIGNAL tests `{k}`, which is assigned from `{text(d.value)[:70]}` only under {_guard_text(d.guard) or "an earlier statement that does not always run"}: on the other paths '
                                        f'(e.g. the next row of a multi-row INSERT, or the next statement on this connection) the variable keeps an older answer and a job is accepted beneath a group that was cancelled in between'))
            elif mine:
                extra = [text(c2) for (c2, _), p in res if may(_with_flags(c2, mine), _known(1)) != {p}]
                if any(_about_cancellation(_with_flags(c2, mine), prog) for (c2, _), p in res) or conditional:
                    undecided.append(f'{r.name}: the refusal also depends on {extra}')
                else:
                    evidence.append((r, st, f'the refusal also depends on {extra}: a job whose group (or an ancestor) is cancelled is still inserted when that does not hold'))
            elif atoms:
                evidence.append((r, st, f'the SIGNAL is guarded by a cancellation test on {sorted({x.kind + str(x.subject()) for x in atoms})}, not by the ancestor walk of the inserted job\'s own '
                                        f'(NEW.batch_id, NEW.job_group_id): a job under a cancelled sub-group is accepted'))
            else:
                if any(_about_cancellation(c2, prog) for (c2, _), _ in res) or conditional or any(c.kind == 'col' and cf.vkey(c) for (c2, _), _ in res for c in sf.cols_in(c2)
                                                                                                 if cf.vkey(c) and cf.vkey(c) in cf.consts_of(a)):
                    undecided.append(f'{r.name}: SIGNAL under {_guard_text(g)} not understood')
    cons = 'sql::jobs BEFORE INSERT trigger::refuses jobs under a cancelled group'
    if good is not None:
        ctx.ok('R2', cons, f'{good.name}: SIGNAL forced by the ancestor walk of (NEW.batch_id, NEW.job_group_id)')
        return
    r0 = trigs[0]
    if evidence:
        r, st, why = evidence[0]
        ctx.bad('R2', cons, f'{r.name}: inserting a job is not always refused (SIGNAL) when the job\'s own group or an ancestor is cancelled: {why}', r.file, r.line_of(st))
        return
    if undecided:
        _defer('; '.join(undecided))
        return
    # no SIGNAL that has anything to do with cancellation: is that a fact or an unread shape?
    whole = [st for r in trigs for st in sf.all_statements(r.ast.body)]
    if any(_about_cancellation(st, prog) or st.kind == 'call' for st in whole if st.kind not in ('if', 'block', 'loop', 'while')) or \
            any(_about_cancellation(c, prog) for st in whole if st.kind == 'if' for c, _ in st.branches):
        _defer(f'{r0.name}: the trigger consults cancellation but no SIGNAL guarded by it was recognised')
        return
    ctx.bad('R2', cons, f'{r0.name}: inserting a job is not refused (SIGNAL) when the job\'s own group or an ancestor is cancelled: the BEFORE INSERT trigger(s) on jobs '
            f'({[r.name for r in trigs]}) contain {"no SIGNAL" if not n_signals else "no SIGNAL that depends on cancellation"} and never consult job_groups_cancelled', r0.file, r0.line)


def _resolve_py_const(m: pf.Module, fn: Optional[pf.FuncDef], e: ast.expr) -> Optional[int]:
    return cf.py_const_int(m, fn, e)


def _handler_1644(ctx: Ctx, m: pf.Module) -> None:
    fn = m.func('_create_jobs.insert_jobs_into_db')
    cons = f'{m.rel}::_create_jobs.insert_jobs_into_db::error 1644'
    sites = [s for s in cf.query_sites(m, fn) if s.variants and any(st.kind == 'insert' and st.table.lower() == 'jobs' for v in s.variants for st in v.stmts())]
    if len(sites) != 1:
        _defer('_create_jobs.insert_jobs_into_db: the INSERT INTO jobs was not found')
        return
    par = m.parents()
    cur: Optional[ast.AST] = sites[0].call
    tr = None
    while cur is not None and cur is not fn:
        p = par.get(cur)
        if isinstance(p, ast.Try) and any(cur is s for s in p.body):
            tr = p
            break
        cur = p
    if tr is None:
        _defer('_create_jobs.insert_jobs_into_db: the INSERT INTO jobs is not inside a try; where MySQL error 1644 (the trigger\'s SIGNAL) becomes HTTP 400 is not analysed')
        return
    hs = [h for h in tr.handlers if h.type is None or any(k in pf.nsrc(h.type) for k in ('OperationalError', 'MySQLError', 'Exception', 'Error'))]
    for h in hs:
        tests_1644 = [s for s in ast.walk(h) if isinstance(s, ast.If) and 1644 in {cf.py_const_int(m, fn, x) for x in ast.walk(s.test) if isinstance(x, (ast.Constant, ast.Name))}]
        raises_400 = [x for x in ast.walk(h) if isinstance(x, ast.Raise) and x.exc is not None and 'HTTPBadRequest' in pf.nsrc(x.exc)]
        if tests_1644 and raises_400:
            ctx.ok('R2', cons, 'OperationalError 1644 -> HTTPBadRequest')
            return
    swallowing = [h for h in hs if h.type is not None and 'OperationalError' in pf.nsrc(h.type) and not any(isinstance(x, ast.Raise) for x in ast.walk(h))]
    if swallowing:
        ctx.bad('R2', cons, 'the trigger\'s refusal (MySQL error 1644) is caught by a handler that never raises: the request is answered as a success although the jobs were not inserted, '
                'instead of HTTP 400', m.path, swallowing[0].lineno)
        return
    _defer('_create_jobs.insert_jobs_into_db: how MySQL error 1644 (the trigger\'s refusal) is turned into HTTP 400 was not recognised')


def _row_test(fn: pf.FuncDef, test: ast.expr, var: str) -> Optional[bool]:
    """Is `test` a row-existence test of the fetchone result `var`?  True: test true <=> a row was found; False: the opposite; None: no."""
    t, pol = cf.norm_test(fn, test, True)
    if isinstance(t, ast.Name) and t.id == var:
        return pol
    if isinstance(t, ast.Compare) and len(t.ops) == 1 and isinstance(t.left, ast.Name) and t.left.id == var and isinstance(t.comparators[0], ast.Constant) and t.comparators[0].value is None:
        if isinstance(t.ops[0], (ast.IsNot, ast.NotEq)):
            return pol
        if isinstance(t.ops[0], (ast.Is, ast.Eq)):
            return not pol
    return None


def _field_test(fn: pf.FuncDef, test: ast.expr, var: str, fields: Dict[str, bool]) -> Optional[bool]:
    """Is `test` a truthiness test of var['<flag column>']?  True: test true <=> cancelled."""
    t, pol = cf.norm_test(fn, test, True)
    rf = cf.record_field(t)
    if rf is not None and rf[0] == var and rf[1].lower() in fields:
        return pol if fields[rf[1].lower()] else not pol
    return None


def _other_uses(fn: pf.FuncDef, var: str, tests: List[ast.expr]) -> bool:
    """Is `var` (or a single-definition local computed from it) used anywhere but in the recognised tests?"""
    names = {var}
    changed = True
    while changed:
        changed = False
        for n in pf.walk_shallow(fn):
            if isinstance(n, ast.Assign) and len(n.targets) == 1 and isinstance(n.targets[0], ast.Name) and n.targets[0].id not in names and pf.names_in(n.value) & names \
                    and not isinstance(n.value, ast.Await):
                names.add(n.targets[0].id)
                changed = True
    in_tests = {id(x) for t in tests for x in ast.walk(t)}
    for n in pf.walk_shallow(fn):
        if isinstance(n, ast.Name) and isinstance(n.ctx, ast.Load) and n.id in names and id(n) not in in_tests:
            # uses inside the defining assignments of derived locals are fine
            par_assign = False
            for a in pf.walk_shallow(fn):
                if isinstance(a, ast.Assign) and len(a.targets) == 1 and isinstance(a.targets[0], ast.Name) and a.targets[0].id in names and any(n is x for x in ast.walk(a.value)):
                    par_assign = True
            if not par_assign:
                return True
    return False


def _refusal(ctx: Ctx, m2: pf.Module, fn: pf.FuncDef, cons: str, probe: cf.QSite, inserts: List[cf.QSite], classify, what: str, message: str) -> None:
    """The probe's result is tested, the `cancelled` outcome raises, and no insert is reachable without having taken the
    `not cancelled` outcome of such a test."""
    g = pf.cfg(fn)
    pn = g.node_of(probe.call)
    if not pn or not isinstance(pn[0].ast, (ast.Assign, ast.AnnAssign)):
        _defer(f'{what}: the result of the cancellation probe is not assigned to a local')
        return
    tgt = pn[0].ast.targets[0] if isinstance(pn[0].ast, ast.Assign) else pn[0].ast.target
    if not isinstance(tgt, ast.Name):
        _defer(f'{what}: the result of the cancellation probe is not assigned to a plain local')
        return
    var = tgt.id
    tests = []   # (node, label of the edge taken when cancelled)
    for n in g.find(lambda n: n.kind == 'test'):
        pol = classify(n.ast, var)
        if pol is not None:
            tests.append((n, 'T' if pol else 'F'))
    ins_nodes = [x for s in inserts for x in g.node_of(s.call)]
    if not ins_nodes:
        _defer(f'{what}: CFG node of the insert not found')
        return
    refuses = bool(tests) and all(any(s.kind == 'raise' for s, lab in t.succ if lab == cl) for t, cl in tests)
    tn = {id(t): cl for t, cl in tests}
    unguarded = [i for i in ins_nodes if g.path_avoiding(g.entry, lambda n, i=i: n is i, lambda n: False,
                                                         edge_ok=lambda a_, b_, lab: not (id(a_) in tn and lab != tn[id(a_)])) is not None]
    after_probe = all(g.dominated_by(i, lambda n: n is pn[0]) for i in ins_nodes)
    if refuses and not unguarded and after_probe:
        ctx.ok('R2', cons, f'`{var}` tested at {[t.lineno for t, _ in tests]}, cancelled -> raise, insert only on the other edge')
        return
    if _other_uses(fn, var, [t.ast for t, _ in tests]):
        _defer(f'{what}: the result `{var}` of the cancellation probe is also used in a way that is not recognised (passed on / stored); whether the insert is refused is not decided')
        return
    if tests and not refuses and any(any(s.kind in ('return',) for s, lab in t.succ if lab == cl) for t, cl in tests):
        _defer(f'{what}: the cancelled outcome returns instead of raising; not decided')
        return
    ctx.bad('R2', cons, message + (f' (the probe\'s result `{var}` is {"never tested" if not tests else "tested, but the cancelled outcome does not raise" if not refuses else "tested, but an insert is reachable without passing the not-cancelled outcome"})'),
            m2.path, inserts[0].lineno)


def _bind(site: cf.QSite, st: N) -> Optional[Dict[int, ast.expr]]:
    elts = sr.args_tuple(site.fn, site.args_expr())
    params = sr.params_in_order(st)
    if elts is None or len(elts) != len(params):
        return None
    return {p.pos: x for p, x in zip(params, elts)}


def _pyexpr_key(fn: pf.FuncDef, e: ast.expr) -> str:
    return ast.dump(pf.expand_locals(fn, e))


def _create_job_group_rule(ctx: Ctx, m: pf.Module, fns: Dict[str, Tuple[int, int]]) -> None:
    m2, fn, helpers = cf.inlined(m, '_create_job_group')
    sites = cf.query_sites(m2, fn)
    walk_s = ins_s = None
    copy_key = None
    for s in sites:
        for v in s.variants or []:
            for st in v.stmts():
                if st.kind == 'select' and any(cf.walk_shape(sel) is not None for sel in sr.cancelled_sites(st)):
                    walk_s = walk_s or (s, st)
                if st.kind == 'insert' and st.table.lower() == 'job_groups':
                    ins_s = ins_s or s
                if st.kind == 'insert' and st.table.lower() == cf.ANC and st.select is not None and [t.lower() for t in sf.table_names(st.select.frm)] == [cf.ANC]:
                    # the new group inherits the ancestor rows of (batch, parent): INSERT .. SELECT .. FROM ancestors WHERE batch_id = B AND job_group_id = P
                    b = _bind(s, st)
                    kb = kp = None
                    for c in sf.conjuncts(st.select.where):
                        if c.kind == 'bin' and c.op == '=':
                            for x, y in ((c.left, c.right), (c.right, c.left)):
                                if x.kind == 'col' and y.kind == 'param' and b is not None:
                                    if x.parts[-1].lower() == 'batch_id':
                                        kb = b.get(y.pos)
                                    elif x.parts[-1].lower() == 'job_group_id':
                                        kp = b.get(y.pos)
                    if kb is not None and kp is not None:
                        copy_key = (kb, kp)
    ctx.need(walk_s is not None and ins_s is not None, '_create_job_group: parent walk / insert not found' + (f' (helpers inlined: {helpers})' if helpers else ''))
    ws, wst = walk_s
    wk = [cf.walk_shape(sel) for sel in sr.cancelled_sites(wst) if cf.walk_shape(sel) is not None][0]
    cons = f'{m.rel}::_create_job_group::parent walk key'
    if wk['kind'] != 'ancestors':
        ctx.bad('R2', cons, 'the cancelled-parent probe joins job_groups_cancelled on the group\'s own job_group_id: a parent beneath a cancelled ancestor is accepted', m2.path, ws.lineno)
    else:
        bind = _bind(ws, wst)
        pb = bind.get(getattr(wk['batch'], 'pos', None)) if bind else None
        pg = bind.get(getattr(wk['group'], 'pos', None)) if bind else None
        if pb is None or pg is None or copy_key is None:
            _defer('_create_job_group: the (batch, group) the cancelled-ancestor probe is keyed by, or the (batch, parent) whose ancestor rows the new group inherits, was not resolved')
        else:
            same = _pyexpr_key(fn, pb) == _pyexpr_key(fn, copy_key[0]) and _pyexpr_key(fn, pg) == _pyexpr_key(fn, copy_key[1])
            ctx.check(same and ws.receiver.split('.')[-1] == ins_s.receiver.split('.')[-1], 'R2', cons,
                      f'the cancelled-ancestor test is keyed by ({pf.nsrc(pb)}, {pf.nsrc(pg)}) on `{ws.receiver}`, but the new group is created beneath ({pf.nsrc(copy_key[0])}, {pf.nsrc(copy_key[1])}) '
                      f'(the group whose ancestor rows it inherits) on `{ins_s.receiver}`: the test has to ask about that parent, in the same transaction', m2.path, ws.lineno,
                      detail=f'keyed by the parent ({pf.nsrc(pb)}, {pf.nsrc(pg)})')
    _refusal(ctx, m2, fn, f'{m.rel}::_create_job_group::refuses cancelled parent', ws, [ins_s], lambda t, var: _row_test(fn, t, var), '_create_job_group',
             'a sub-group can be inserted without first finding that no self-or-ancestor of the parent is cancelled (HTTP 400 otherwise)')


def _create_batch_update_rule(ctx: Ctx, m: pf.Module, fns: Dict[str, Tuple[int, int]]) -> None:
    m2, fn, helpers = cf.inlined(m, '_create_batch_update.update')
    sites = cf.query_sites(m2, fn)
    probe = None
    fields: Dict[str, bool] = {}
    inserts = []
    for s in sites:
        for v in s.variants or []:
            for st in v.stmts():
                if st.kind == 'select':
                    fc = cf.flag_columns(st, fns)
                    if fc and probe is None:
                        probe = (s, st)
                        fields = {k: pol for k, (kind, pol, _b, _g) in fc.items()}
                if st.kind == 'insert' and st.table.lower() == 'batch_updates':
                    inserts.append(s)
    ctx.need(inserts, '_create_batch_update: INSERT INTO batch_updates not found')
    cons = f'{m.rel}::_create_batch_update.update::refuses cancelled batch'
    if probe is None:
        if any(v.stmts() and any(list(sr.cancelled_sites(st)) for st in v.stmts()) for s in sites for v in (s.variants or [])) or any(s.variants is None for s in sites):
            _defer('_create_batch_update: the cancelled-batch probe was not recognised')
        else:
            ctx.bad('R2', cons, 'a new update can be opened on a cancelled batch: no query of _create_batch_update.update consults job_groups_cancelled', m2.path, inserts[0].lineno)
        return
    _refusal(ctx, m2, fn, cons, probe[0], inserts, lambda t, var: _field_test(fn, t, var, fields), '_create_batch_update', 'a new update can be opened on a cancelled batch')


def r2(ctx: Ctx, prog: sf.SqlProgram, fns: Dict[str, Tuple[int, int]], roots: Dict[str, int]) -> None:
    _trigger_refusal(ctx, prog, fns, roots)
    m = pf.load('batch/batch/front_end/front_end.py')
    _handler_1644(ctx, m)
    _create_job_group_rule(ctx, m, fns)
    _create_batch_update_rule(ctx, m, fns)


# ------------------------------------------------------------------------------------------------------------------------------------
# R3 repeating a cancellation changes nothing

def _mark_subject(r: sf.Routine) -> Optional[Tuple[str, str]]:
    for st in sf.all_statements(r.ast.body):
        if st.kind == 'insert' and st.table.lower() == cf.MARKS:
            try:
                ins, _, _ = sr.insert_colmap(st)
            except AnalysisError:
                return None
            if 'id' in ins and 'job_group_id' in ins:
                return text(ins['id']).lower(), text(ins['job_group_id']).lower()
    return None


def _already_atoms(atoms: List[cf.Atom], subj: Tuple[str, str]) -> List[cf.Atom]:
    """Atoms that are TRUE once the mark `subj` exists."""
    out = []
    for a in atoms:
        s = a.subject()
        if a.kind in ('walk', 'mark', 'own-group') and s == subj:
            out.append(a)
        elif a.kind == 'root' and s[0] == subj[0] and subj[1] == '0':
            out.append(a)
    return out


def r3(ctx: Ctx, prog: sf.SqlProgram, fns: Dict[str, Tuple[int, int]], roots: Dict[str, int]) -> None:
    for name in ('cancel_job_group', 'cancel_batch'):
        r = prog.routine(name)
        a = r.ast
        subj = _mark_subject(r)
        if subj is None:
            _defer(f'{name}: the INSERT of the cancellation mark (and so the subject of the procedure) was not found')
            continue
        defs = cf.Definitions(a.body, cf.consts_of(a))
        n = 0
        for st, guard in sf.guarded_statements(a.body):
            if not sf.written_tables(st):
                continue
            n += 1
            cons = f'sql::{name}::{st.kind} {sf.written_tables(st)[0][0]}'
            res = [(defs.resolve(c, st), p) for c, p in guard]
            atoms = [x for (c2, _), _ in res for x in cf.cancel_atoms(c2, fns, roots)]
            mine = _already_atoms(atoms, subj)
            sat = all(p in may(_with_flags(c2, mine), _known(1)) for (c2, _), p in res)
            if mine and not sat:
                ctx.ok('R3', cons, f'only when NOT {mine[0].kind}{mine[0].subject()}')
                continue
            unresolved = any(cond for (_, cond), _ in res) or any(_about_cancellation(_with_flags(c2, mine), prog) for (c2, _), _ in res)
            if unresolved:
                _defer(f'{name}: whether `{text(st)[:60]}` runs only when {subj} is not yet cancelled is not decided (guard {_guard_text(guard)})')
                continue
            ctx.bad('R3', cons, f'this write happens even when the group is already cancelled (path condition {_guard_text(guard) or "none"} does not exclude "{subj} already carries a mark"): '
                    'repeating the cancellation is not a no-op', r.file, r.line_of(st))
        ctx.need(n >= 3, f'{name}: fewer than three writes found')


# ------------------------------------------------------------------------------------------------------------------------------------
# R4 is_job_cancelled and its use

JOB_FN = 'is_job_cancelled'


def _job_cancelled_function(ctx: Ctx, prog: sf.SqlProgram) -> None:
    r = prog.routine(JOB_FN)
    a = r.ast
    ps = cf.params_of(a)
    body = [st for st in a.body if st.kind != 'declare']
    ctx.need(len(body) == 1 and body[0].kind == 'return', 'is_job_cancelled: body is not a single RETURN')
    e = body[0].value
    ctx.need(e.kind == 'subq', 'is_job_cancelled: RETURN is not a sub-select')
    sel = e.select
    lat = [t for t in sf.from_tables(sel.frm) if t.kind == 'derived']
    ctx.need(len(lat) == 1 and len(sel.cols) == 1, 'is_job_cancelled: shape not recognised')
    jal = [(t.alias or t.name).lower() for t in sf.from_tables(sel.frm) if t.kind == 'table' and t.name.lower() == 'jobs']
    ctx.need(len(jal) == 1 and len(sf.from_tables(sel.frm)) == 2, 'is_job_cancelled: jobs table not found')
    j = jal[0]
    cons = f'sql::{JOB_FN}::group lookup'
    w = cf.walk_shape(lat[0].select)
    jn = [x for x in sel.frm.joins if x.ref is lat[0]]
    ctx.need(len(jn) == 1, 'is_job_cancelled: join of the lateral lookup not found')
    keyed = {}
    for c in sf.conjuncts(sel.where):
        if c.kind == 'bin' and c.op == '=':
            for x, y in ((c.left, c.right), (c.right, c.left)):
                if x.kind == 'col' and len(x.parts) > 1 and x.parts[-2].lower() == j and y.kind == 'col' and len(y.parts) == 1 and y.parts[0].lower() in ps:
                    keyed[x.parts[-1].lower()] = y.parts[0].lower()
    if w is None:
        ctx.need(False, 'is_job_cancelled: the lateral group lookup is not the recognised self-and-ancestors walk')
    elif w['kind'] != 'ancestors':
        ctx.bad('R4', cons, 'the group part of the predicate joins job_groups_cancelled on the group\'s own job_group_id: a job under a cancelled ANCESTOR group is not cancelled', r.file, r.line)
    else:
        subj = (text(w['batch']).lower(), text(w['group']).lower())
        qual = all(x.kind == 'col' and len(x.parts) > 1 for x in (w['batch'], w['group']))
        ctx.need(qual, f'is_job_cancelled: the walk is correlated on {subj}; not decided')
        ctx.need(set(keyed) >= {'batch_id', 'job_id'} and keyed['batch_id'] != keyed['job_id'], 'is_job_cancelled: the job row is not pinned by (batch_id, job_id) = two parameters of the function')
        if subj != (f'{j}.batch_id', f'{j}.job_group_id'):
            ctx.bad('R4', cons, f'the group part of the predicate walks the ancestors of {subj}, not of the job\'s own group ({j}.batch_id, {j}.job_group_id)', r.file, r.line)
        elif jn[0].jtype == 'INNER':
            ctx.bad('R4', cons, 'the ancestor walk is INNER JOINed to the job row: for a job whose group is not cancelled there is no row, the function returns NULL and `NOT cur_job_cancel` is never true', r.file, r.line)
        else:
            ctx.need(jn[0].jtype == 'LEFT', f'is_job_cancelled: join type {jn[0].jtype} of the lateral lookup is not modelled')
            ctx.ok('R4', cons, f'LEFT JOIN LATERAL walk of ({j}.batch_id, {j}.job_group_id); job pinned by parameters {keyed["batch_id"]}, {keyed["job_id"]}')
    # what the lateral column is when a cancelled ancestor exists: a non-NULL literal (possibly under MAX/MIN/ANY_VALUE)
    la = lat[0].alias.lower()
    lcols = {}
    for c in lat[0].select.cols:
        ce, al = c if isinstance(c, tuple) else (c, None)
        inner = ce.args[0] if (ce.kind == 'func' and ce.name in ('MAX', 'MIN', 'ANY_VALUE') and len(ce.args) == 1) else ce
        nm = (al or (ce.parts[-1] if ce.kind == 'col' else '')).lower()
        if nm:
            lcols[nm] = inner
    expr = sel.cols[0][0]
    wrong = None
    for ar, canc, gc in itertools.product((0, 1), repeat=3):
        def env(c: N):
            parts = [p.lower() for p in c.parts] if c.kind == 'col' else []
            if len(parts) == 2 and parts[0] == la:
                v = lcols.get(parts[1])
                if v is None or v.kind != 'lit' or v.value is None:
                    raise AnalysisError(f'is_job_cancelled: column {text(c)} of the lateral lookup is not a non-NULL literal')
                return (1 if v.value is True else 0 if v.value is False else v.value) if gc else None
            if parts and (len(parts) == 1 or parts[0] == j) and parts[-1] in ('always_run', 'cancelled') and parts[-1] not in ps:
                return {'always_run': ar, 'cancelled': canc}[parts[-1]]
            raise AnalysisError(f'is_job_cancelled: the predicate reads `{text(c)}`, which is not modelled')
        try:
            got = ev(expr, env)
        except Unbound as ex:
            raise AnalysisError(f'is_job_cancelled: predicate not evaluable: {ex}')
        want = int((not ar) and (canc or gc))
        if got != want:
            wrong = (ar, canc, gc, got, want)
            break
    ctx.check(wrong is None, 'R4', f'sql::{JOB_FN}::predicate', f'for always_run={wrong[0]}, cancelled={wrong[1]}, group_cancelled={wrong[2]} the function returns {wrong[3]}, '
              f'the statement requires {wrong[4]}' if wrong else '', r.file, r.line, detail={'rows': 8})


def _answers(ctx: Ctx, rr: sf.Routine, cons: str) -> None:
    paths = cf.enumerate_paths(rr.ast.body)
    silent = [p for p in paths if p.end != 'error' and not any(st.kind == 'select' and not st.into for st in p.stmts)]
    feas = [p for p in silent if p.feasible()]
    if silent and not feas:
        _defer(f'{rr.name}: the only paths without a result row decide one condition both ways; not decided')
        return
    ctx.check(not feas, 'R4', cons + '::answers', 'some branch ends without returning a result row (the driver would get no answer for a job under a cancelled group)' +
              (f': path {[("" if pol else "NOT ") + c for c, pol in feas[0].decisions]}' if feas else ''), rr.file, rr.line)


def r4(ctx: Ctx, prog: sf.SqlProgram, fns: Dict[str, Tuple[int, int]], roots: Dict[str, int]) -> None:
    _job_cancelled_function(ctx, prog)
    for name, target in (('schedule_job', 'Running'), ('mark_job_started', 'Running'), ('mark_job_creating', 'Creating')):
        rr = prog.routine(name)
        aa = rr.ast
        consts = cf.consts_of(aa)
        defs = cf.Definitions(aa.body, consts)
        cons = f'sql::{name}'
        found = False
        for st, guard in sf.guarded_statements(aa.body):
            if not (st.kind == 'update' and [t.lower() for t in sf.table_names(st.frm)[:1]] == ['jobs']):
                continue
            sv = [v for c, v in st.sets if c.kind == 'col' and c.parts[-1].lower() == 'state']
            if not sv or not (sv[0].kind == 'lit' and str(sv[0].value).lower() == target.lower()):
                continue
            found = True
            key = {}
            for c in sf.conjuncts(st.where):
                if c.kind == 'bin' and c.op == '=':
                    for x, y in ((c.left, c.right), (c.right, c.left)):
                        if x.kind == 'col' and x.parts[-1].lower() in ('batch_id', 'job_id') and not (len(x.parts) == 1 and x.parts[0].lower() in consts):
                            key[x.parts[-1].lower()] = text(y).lower()
            c2 = cons + f'::state := {target}'
            if set(key) != {'batch_id', 'job_id'}:
                _defer(f'{name}: the job row moved to {target} is not pinned by batch_id / job_id equalities')
                continue
            own = (key['batch_id'], key['job_id'])
            res = [(defs.resolve(c, st), p) for c, p in guard]
            jatoms: List[N] = []
            for (cx, _), _ in res:
                jatoms += [n for n in cx.walk() if n.kind == 'func' and n.name.lower() == JOB_FN]
            mine = [n for n in jatoms if tuple(text(x).lower() for x in n.args) == own]
            repl = {id(n): _flag() for n in mine}
            sat = all(p in may(cf.replace_nodes(cx, repl), _known(1)) for (cx, _), p in res)
            if mine and not sat:
                ctx.ok('R4', c2, f'requires NOT {JOB_FN}{own}')
                continue
            conditional = [(k, d) for (_, cond), _ in res for k, d in cond]
            cond_job = [(k, d) for k, d in conditional if d.value is not None and any(n.kind == 'func' and n.name.lower() == JOB_FN for n in d.value.walk())]
            if cond_job:
                k, d = cond_job[0]
                others = [x for x in defs.defs.get(k, []) if x is not d]
                if d.guard or others:
                    ctx.bad('R4', c2, f'`{k}` holds {JOB_FN}(..) only when {_guard_text(d.guard) or "that assignment is the last one executed"}; on the other paths it keeps '
                            f'`{text(others[0].stmt)[:80] if others else "its initial value"}`, which does not look at the job group and its ancestors: a cancelled, non-always-run job can still be moved to {target}',
                            rr.file, rr.line_of(d.stmt))
                    continue
            others_j = [n for n in jatoms if n not in mine]
            gatoms = [x for (cx, _), _ in res for x in cf.cancel_atoms(cx, fns, roots)]
            if others_j or gatoms:
                seen = [f'{JOB_FN}({", ".join(text(x) for x in n.args)})' for n in others_j] + [f'{x.kind}{x.subject()}' for x in gatoms]
                ctx.bad('R4', c2, f'the move to {target} of job {own} is guarded by {seen}, not by {JOB_FN}{own}: a cancelled, non-always-run job (own flag, or a cancelled ancestor group) can still be moved to {target}',
                        rr.file, rr.line_of(st))
                continue
            if mine:
                # the flag is there but does not exclude the write
                ctx.bad('R4', c2, f'a cancelled, non-always-run job can still be moved to {target} (path condition {_guard_text(guard)} does not exclude {JOB_FN}{own} = TRUE)', rr.file, rr.line_of(st))
                continue
            if conditional or any(_about_cancellation(cx, prog) for (cx, _), _ in res):
                _defer(f'{name}: whether the move to {target} requires NOT {JOB_FN}{own} is not decided (guard {_guard_text(guard)})')
                continue
            ctx.bad('R4', c2, f'a cancelled, non-always-run job can still be moved to {target}: the path condition {_guard_text(guard) or "(none)"} does not depend on {JOB_FN}{own} at all', rr.file, rr.line_of(st))
        ctx.need(found, f'{name}: UPDATE jobs SET state = {target} not found')
        _answers(ctx, rr, cons)


# ------------------------------------------------------------------------------------------------------------------------------------
# R5 driver selections

def _conj_facts(st: N) -> Dict[str, Any]:
    out: Dict[str, Any] = {'params': {}}
    for c in sf.conjuncts(st.where):
        if c.kind == 'bin' and c.op == '=':
            for x, y in ((c.left, c.right), (c.right, c.left)):
                if x.kind == 'col':
                    nm = x.parts[-1].lower()
                    if y.kind == 'lit' and nm in ('state', 'always_run', 'cancelled'):
                        out[nm] = y.value.lower() if isinstance(y.value, str) else int(y.value) if isinstance(y.value, (int, bool)) else y.value
                    if y.kind == 'param' and nm in ('batch_id', 'job_group_id'):
                        out['params'][nm] = y.pos
        elif c.kind == 'col' and c.parts[-1].lower() in ('always_run', 'cancelled'):
            out[c.parts[-1].lower()] = 1
        elif c.kind == 'un' and c.op == 'NOT' and c.arg.kind == 'col' and c.arg.parts[-1].lower() in ('always_run', 'cancelled'):
            out[c.arg.parts[-1].lower()] = 0
    return out


def r5(ctx: Ctx, fns: Dict[str, Tuple[int, int]]) -> None:
    for rel, funcs, role in (('batch/batch/driver/instance_collection/pool.py', ['PoolScheduler.schedule_loop_body.user_runnable_jobs'], 'scheduler'),
                             ('batch/batch/driver/instance_collection/job_private.py', ['JobPrivateInstanceManager.create_instances_loop_body.user_runnable_jobs'], 'scheduler'),
                             ('batch/batch/driver/canceller.py', ['Canceller.cancel_cancelled_ready_jobs_loop_body.user_cancelled_ready_jobs',
                                                                 'Canceller.cancel_cancelled_creating_jobs_loop_body.user_cancelled_creating_jobs',
                                                                 'Canceller.cancel_cancelled_running_jobs_loop_body.user_cancelled_running_jobs'], 'canceller')):
        m = pf.load(rel)
        for q in funcs:
            try:
                _r5_function(ctx, m, rel, q, role, fns)
            except AnalysisError as ex:
                _defer(str(ex))


def _r5_function(ctx: Ctx, m: pf.Module, rel: str, q: str, role: str, fns: Dict[str, Tuple[int, int]]) -> None:
    fn = m.func(q)
    sites = cf.query_sites(m, fn)
    ctx.need(all(s.variants is not None for s in sites), f'{rel}::{q}: a query text is not resolvable')

    def first_table(st: N) -> str:
        t = sf.table_names(st.frm)[:1] if st.kind == 'select' and st.frm is not None else []
        return t[0].lower() if t else ''
    gq = [s for s in sites if any(first_table(st) == 'job_groups' for v in s.variants for st in v.stmts())]
    jq = [s for s in sites if any(first_table(st) == 'jobs' for v in s.variants for st in v.stmts())]
    ctx.need(len(gq) == 1 and len(gq[0].variants) == 1 and jq, f'{rel}::{q}: job-group / job queries not recognised')
    gsel = gq[0].variants[0].stmts()[0]
    ga = [(t.alias or t.name).lower() for t in sf.from_tables(gsel.frm) if t.kind == 'table' and t.name.lower() == 'job_groups']
    lat = [(j, j.ref) for j in gsel.frm.joins if j.ref.kind == 'derived']
    ctx.need(len(lat) == 1 and len(ga) == 1, f'{rel}::{q}: lateral cancelled lookup not found')
    jn, ref = lat[0]
    w = cf.walk_shape(ref.select)
    ctx.need(w is not None, f'{rel}::{q}: the lateral lookup of the job-group query is not the recognised self-and-ancestors walk')
    walk_ok = w['kind'] == 'ancestors' and text(w['batch']).lower() == f'{ga[0]}.batch_id' and text(w['group']).lower() == f'{ga[0]}.job_group_id'
    walk_why = 'the lateral lookup joins the marks on the group\'s own job_group_id (ancestors ignored)' if w['kind'] != 'ancestors' else \
        f'the lateral walk is correlated on ({text(w["batch"])}, {text(w["group"])}), not on the selected group\'s own ({ga[0]}.batch_id, {ga[0]}.job_group_id)'
    if w['kind'] == 'ancestors' and not walk_ok:
        ctx.need(all(x.kind == 'col' and len(x.parts) > 1 for x in (w['batch'], w['group'])), f'{rel}::{q}: correlation of the lateral walk not decided')
    flags = {k: pol for k, (kind, pol, _b, _g) in cf.flag_columns(gsel, fns).items()}
    ctx.need(jn.jtype in ('INNER', 'LEFT'), f'{rel}::{q}: join type {jn.jtype} of the lateral lookup is not modelled')
    only_cancelled_groups = jn.jtype == 'INNER'
    # output column -> role
    roles: Dict[str, str] = {}
    for c in gsel.cols:
        ce, al = c if isinstance(c, tuple) else (c, None)
        if isinstance(ce, N) and ce.kind == 'col' and (len(ce.parts) == 1 or ce.parts[-2].lower() == ga[0]) and ce.parts[-1].lower() in ('batch_id', 'job_group_id'):
            roles[(al or ce.parts[-1]).lower()] = ce.parts[-1].lower()
    # loop over the group query
    loop_var = None
    for lp in sr.enclosing_loops(m, jq[0].call):
        it = pf.expand_locals(fn, lp.iter)
        if any(gq[0].call is x for x in ast.walk(lp.iter)) or ast.dump(it) == ast.dump(gq[0].call) or any(ast.dump(x) == ast.dump(gq[0].call) for x in ast.walk(it)):
            if isinstance(lp.target, ast.Name):
                loop_var = lp.target.id
    ctx.need(loop_var is not None, f'{rel}::{q}: the loop over the job groups was not found')
    multi = {n for n, vals in pf.assignments(fn).items() if len(vals) > 1}
    for s in jq:
        ctx.need(any(isinstance(lp.target, ast.Name) and lp.target.id == loop_var for lp in sr.enclosing_loops(m, s.call)), f'{rel}::{q}: a job query outside the loop over the job groups')
        site_guard = cf.guards_of(m, fn, s.call)
        for v in s.variants:
            st = v.stmts()[0] if v.stmts() else None
            ctx.need(st is not None and st.kind == 'select' and first_table(st) == 'jobs', f'{rel}::{q}: query at line {s.lineno} not recognised')
            f = _conj_facts(st)
            cons = f'{rel}::{q}::jobs state={f.get("state", "?")} always_run={f.get("always_run", "?")}' + (f' cancelled={f["cancelled"]}' if 'cancelled' in f else '')
            # decisions on the group's flag
            under_c = under_nc = False
            unknown: List[str] = []
            for t, pol in cf.flatten_guard(tuple(site_guard) + tuple(v.guard)):
                nt, npol = cf.norm_test(fn, t, pol)
                rf = cf.record_field(nt)
                if rf is not None and rf[0] == loop_var and rf[1].lower() in flags:
                    cancelled = npol if flags[rf[1].lower()] else not npol
                    under_c = under_c or cancelled
                    under_nc = under_nc or not cancelled
                elif loop_var in pf.names_in(nt) or (pf.names_in(nt) & multi):
                    unknown.append(pf.nsrc(t))
            # keyed by the loop's group
            bind = _bind(s, st)
            keyed: Optional[bool] = None
            kb = kg = None
            if bind is not None and set(f['params']) == {'batch_id', 'job_group_id'}:
                kb = cf.record_field(cf.norm_test(fn, bind[f['params']['batch_id']], True)[0])
                kg = cf.record_field(cf.norm_test(fn, bind[f['params']['job_group_id']], True)[0])
                if kb is not None and kg is not None and kb[0] == loop_var and kg[0] == loop_var and kb[1].lower() in roles and kg[1].lower() in roles:
                    keyed = roles[kb[1].lower()] == 'batch_id' and roles[kg[1].lower()] == 'job_group_id'
            if keyed is None:
                _defer(f'{rel}::{q}: whether the job query at line {s.lineno} is keyed by the loop\'s group is not decided')
                continue
            why: List[str] = []
            undecided: List[str] = []
            if not keyed:
                why.append(f'the query is keyed by ({kb}, {kg}) of the loop record, not by the group\'s (batch_id, job_group_id)')
            if role == 'scheduler':
                if f.get('state') != 'ready':
                    (why if 'state' in f else undecided).append(f'state filter is {f.get("state")!r}, the scheduler may only pick Ready jobs')
                if f.get('always_run') == 1:
                    if 'cancelled' in f:
                        why.append('always-run jobs are filtered on cancelled')
                    if under_nc or under_c:
                        why.append('always-run jobs are selected only for ' + ('not cancelled' if under_nc else 'cancelled') + ' groups')
                    if unknown:
                        undecided.append(f'guards {unknown}')
                    msg = 'always-run jobs must be selected for every running group regardless of cancellation (no cancelled filter, not under a group-cancelled test), keyed by the loop\'s group'
                elif f.get('always_run') == 0:
                    if f.get('cancelled') != 0:
                        why.append('no `cancelled = 0` filter: individually cancelled jobs are offered to the scheduler' if 'cancelled' not in f else f'cancelled = {f["cancelled"]}')
                    if not walk_ok:
                        why.append(walk_why)
                    if under_c:
                        why.append('the query runs for CANCELLED groups')
                    elif not under_nc:
                        if unknown or not flags:
                            undecided.append(f'not under a recognised "group not cancelled" test (guards {unknown}, flag columns {sorted(flags)})')
                        else:
                            why.append(f'the query does not run under "not {loop_var}[{sorted(flags)[0]!r}]" (guards on the call path: {[pf.nsrc(t) for t, _ in site_guard + v.guard] or "none"}): '
                                       'Ready jobs of a group whose ancestor walk found a cancellation are offered to the scheduler')
                    msg = 'non-always-run jobs are offered to the scheduler without all of: always_run = 0, cancelled = 0, executed only when the group\'s ancestor walk found no cancellation, keyed by that group'
                else:
                    undecided.append('no always_run filter')
                    msg = ''
            else:
                if f.get('always_run') != 0:
                    why.append('no `always_run = 0` filter: always-run jobs would be cancelled' if 'always_run' not in f else 'always_run = 1: always-run jobs would be cancelled')
                if not walk_ok:
                    why.append(walk_why)
                if f.get('cancelled') == 1:
                    kind = 'jobs individually marked cancelled'
                else:
                    kind = 'jobs of cancelled groups'
                    if not only_cancelled_groups:
                        if under_nc:
                            why.append('the query runs for groups that are NOT cancelled')
                        elif not under_c:
                            if unknown or (not flags):
                                if flags or unknown:
                                    undecided.append(f'not under a recognised "group cancelled" test (guards {unknown})')
                                else:
                                    why.append('the job-group query LEFT JOINs the ancestor walk and the result is not consulted: jobs of groups that are not cancelled are selected')
                            else:
                                why.append(f'the job-group query LEFT JOINs the ancestor walk (all running groups) and this query does not run under "{loop_var}[{sorted(flags)[0]!r}]": '
                                           'jobs of sibling / ancestor groups that are not cancelled are selected for cancellation')
                msg = f'the canceller selects jobs ({kind}) without all of: always_run = 0, keyed by the loop\'s group, and restricted to groups whose own ancestor walk found a cancellation (or cancelled = 1)'
            if why:
                ctx.bad('R5', cons, msg + ': ' + '; '.join(why), m.path, s.lineno)
            elif undecided:
                _defer(f'{rel}::{q}: query at line {s.lineno}: ' + '; '.join(undecided))
            else:
                ctx.ok('R5', cons, {'keyed': keyed, 'under_not_cancelled': under_nc, 'under_cancelled': under_c, 'inner_join_walk': only_cancelled_groups})


def _embedded_statements(m: pf.Module, e: 'sf.Embedded') -> List[List[N]]:
    """The statement lists an execute-style call can issue: its literal SQL, or - when the text sits in a module-level / closure constant
    or is chosen by a conditional expression - every alternative (c07facts.sql_variants)."""
    if e.sql_text is not None:
        return [e.stmts()]
    if not e.call.args:
        return []
    vs = cf.sql_variants(m, e.fn, e.call.args[0])
    out = []
    for t, _ in vs or []:
        try:
            out.append(cf.parse_statements(t))
        except cf.SqlParseError:
            pass
    return out


def r6(ctx: Ctx, prog: sf.SqlProgram, fns: Dict[str, Tuple[int, int]], roots: Dict[str, int]) -> None:
    """A cancel request that was accepted is always RECORDED: the mark in job_groups_cancelled is what refuses later jobs / sub-groups
    (R2) and what the driver filters on (R4, R5).  (a) SQL: in the cancel procedures the INSERT of the mark depends on nothing but
    "not already cancelled" -- in particular not on the group's state (a complete / still empty group can be cancelled and must then
    refuse additions).  (b) Python: every function that issues `CALL cancel_job_group` / `CALL cancel_batch` reaches that CALL on every
    normal exit (an early `return` -- "nothing left to cancel" -- answers 200 without recording anything), and so does every wrapper
    on the way up to the route handlers."""
    # only procedures that some Python site (or another procedure) actually CALLs are judged; a legacy procedure nobody calls is listed
    called = set()
    for rel in pf.walk_py(['batch/batch']):
        m0 = pf.load(rel)
        if 'CALL ' not in m0.src:
            continue
        for e in sf.embedded_in(m0):
            for sts in _embedded_statements(m0, e):
                called |= {st.name for st in sts if st.kind == 'call'}
    for rr in prog.routines.values():
        called |= {st.name for st in sf.all_statements(rr.ast.body) if st.kind == 'call'}
    for name in ('cancel_job_group', 'cancel_batch'):
        if name not in prog.routines:
            continue
        if name not in called:
            ctx.info(f'{name}: defined but never CALLed from batch/batch or another routine (legacy); not judged')
            continue
        r = prog.routine(name)
        a = r.ast
        defs = cf.Definitions(a.body, cf.consts_of(a))
        subj = _mark_subject(r)
        marks = [(st, g) for st, g in sf.guarded_statements(a.body) if st.kind == 'insert' and any(t.lower() == 'job_groups_cancelled' for t, _ in sf.written_tables(st))]
        if name == 'cancel_job_group':
            ctx.need(len(marks) >= 1 and subj is not None, f'{name}: INSERT INTO job_groups_cancelled not found')
        for st, guard in marks:
            # "not already cancelled" is the only thing the mark may depend on: with every already-cancelled test of the procedure's own
            # subject FALSE, each condition on the path must be decided in favour of the INSERT
            res = [(defs.resolve(c, st), p) for c, p in guard]
            atoms = [x for (c2, _), _ in res for x in cf.cancel_atoms(c2, fns, roots)]
            mine = _already_atoms(atoms, subj) if subj is not None else []
            vals = []
            undecided = False
            for (c2, cond), pol in res:
                c3 = _with_flags(c2, mine)
                if may(c3, _known(0)) != {pol}:
                    vals.append(text(c3).replace(FLAG, 'already_cancelled'))
                    if cond or _about_cancellation(c3, prog):
                        undecided = True
            if vals and undecided:
                _defer(f'{name}: whether the INSERT of the cancellation mark depends on more than "not already cancelled" is not decided ({vals})')
                continue
            ctx.check(not vals, 'R6', f'sql::{name}::cancellation mark recorded', f'the INSERT INTO job_groups_cancelled also depends on {sorted(vals)}: for some state of the group the cancellation is '
                      'accepted but not recorded, so jobs and sub-groups can still be added beneath the cancelled group and its Ready jobs are still scheduled', r.file, r.line_of(st))
    # Python side
    mods = {}
    direct = []   # (module, fn, call node)
    for rel in pf.walk_py(['batch/batch']):
        m = pf.load(rel)
        if 'CALL cancel_job_group' not in m.src and 'CALL cancel_batch' not in m.src and 'cancel_job_group_in_db' not in m.src:
            continue
        mods[rel] = m
        for e in sf.embedded_in(m):
            if e.fn is None:
                continue
            if any(st.kind == 'call' and st.name in ('cancel_job_group', 'cancel_batch') for sts in _embedded_statements(m, e) for st in sts):
                direct.append((m, e.fn, e.call))
    ctx.need(len(direct) >= 2, f'only {len(direct)} Python sites issue CALL cancel_job_group / cancel_batch')
    performing = {}  # function name -> (module, fn)

    def must_pass(m: pf.Module, fn: pf.FuncDef, call: ast.AST, what: str) -> None:
        cfg = pf.cfg(fn)
        goals = cfg.node_of(call)
        ctx.need(bool(goals), f'{m.rel}::{m.qualname(fn)}: {what} not found in the CFG')
        p = cfg.path_avoiding(cfg.entry, lambda n: n is cfg.exit, lambda n: any(n is g for g in goals))
        ctx.check(p is None, 'R6', f'{m.rel}::{m.qualname(fn)}::{what} on every normal exit',
                  f'{m.qualname(fn)} can return normally without reaching {what}' + (f' (via `{p[-2].text()}`)' if p and len(p) > 1 else '') +
                  ': the request is answered as a success but the cancellation is not recorded -- later jobs / sub-groups are accepted beneath the group and it keeps being scheduled',
                  m.path, fn.lineno)
    for m, fn, call in direct:
        must_pass(m, fn, call, 'the CALL of the cancel procedure')
        performing[fn.name] = (m, fn)
    # wrappers: a function whose name says it cancels and that calls a performing function (nested `cancel(tx)` helpers, *_in_db, route helpers)
    changed = True
    seen = set()
    while changed:
        changed = False
        for rel, m in mods.items():
            for q, fn in m.functions():
                if (rel, q) in seen or 'cancel' not in fn.name.lower():
                    continue
                calls = [c for c in pf.calls_in(fn) if (pf.dotted(c.func) or '').split('.')[-1] in performing and performing[(pf.dotted(c.func) or '').split('.')[-1]][1] is not fn]
                if not calls:
                    continue
                seen.add((rel, q))
                for c in calls:
                    if sr.enclosing_loops(m, c):
                        # a loop over several groups (e.g. the driver cancelling fast-failing groups): zero iterations are legitimate
                        ctx.ok('R6', f'{m.rel}::{m.qualname(fn)}::`{pf.nsrc(c.func)}(...)` per item of a loop', 'one request per iteration')
                        continue
                    must_pass(m, fn, c, f'`{pf.nsrc(c.func)}(...)`')
                if fn.name not in performing:
                    performing[fn.name] = (m, fn)
                    changed = True


# ------------------------------------------------------------------------------------------------------------------------------------
# R7: one value under any combination of cancelled groups
REQUEST_PROCEDURES = ('schedule_job', 'mark_job_started', 'mark_job_creating')
CANCEL_TABLE = 'job_groups_cancelled'


def _called_functions(prog: sf.SqlProgram, r: sf.Routine) -> List[str]:
    fns = {n.lower(): n for n, x in prog.routines.items() if x.kind == 'function'}
    out = []
    for n in sc.walk(r.ast.body):
        if n.kind == 'func' and n.name.lower() in fns and fns[n.name.lower()] not in out:
            out.append(fns[n.name.lower()])
    return out


def _marks_can_stack(prog: sf.SqlProgram) -> Tuple[Optional[bool], str]:
    """Can two groups of ONE ancestor chain both carry a cancellation mark?  True when the only test in front of the INSERT of a mark
    is the self-and-ancestors question about the group being cancelled (so cancelling a parent after its child adds a second mark on
    the child's chain) and nothing deletes the marks of descendants; None when the writers have another shape."""
    writers = []
    for name, r in prog.routines.items():
        for st, guard in sf.guarded_statements(r.ast.body):
            for t, how in sf.written_tables(st):
                if t.lower() == CANCEL_TABLE:
                    writers.append((name, r, st, guard, how))
    ins = [w for w in writers if w[2].kind == 'insert']
    if not ins or any(w[2].kind != 'insert' for w in writers):
        return None, f'writers of {CANCEL_TABLE}: {[(w[0], w[2].kind) for w in writers]} (an UPDATE / DELETE of marks is not modelled)'
    for name, r, st, guard, _ in ins:
        # the guard may mention only variables assigned from is_job_group_cancelled(<own batch>, <own group>) / is_batch_cancelled
        gvars = {c.parts[-1].lower() for g, _ in guard for c in sf.cols_in(g)}
        for v in gvars:
            defs = [d for d in sf.all_statements(r.ast.body) if d.kind == 'select' and d.into and v in [t.parts[0].lower() for t in d.into]]
            for d in defs:
                i = [t.parts[0].lower() for t in d.into].index(v)
                col = d.cols[i][0] if i < len(d.cols) else None
                if not (isinstance(col, N) and col.kind == 'func' and col.name.lower() in ('is_job_group_cancelled', 'is_batch_cancelled')):
                    # any other test (e.g. on descendants) could prevent stacking: not decided
                    if isinstance(col, N) and CANCEL_TABLE in text(col).lower():
                        return None, f'{name}: the mark is guarded by `{text(col)[:80]}`'
    fn = prog.routines.get('is_job_group_cancelled')
    if fn is None:
        return None, 'is_job_group_cancelled vanished'
    walks = [n for n in sc.walk(fn.ast.body) if n.kind == 'select' and CANCEL_TABLE in [t.lower() for t in sf.table_names(n.frm)]]
    if len(walks) != 1:
        return None, 'is_job_group_cancelled: shape not recognised'
    w = sr.ancestor_walk(walks[0])
    if w is None:
        return None, 'is_job_group_cancelled is not the self-and-ancestors walk'
    return True, ('cancel_job_group marks a group unless the group ITSELF or one of its ANCESTORS is marked; a descendant that was cancelled before keeps its mark, '
                  'so after "cancel sub-group g; cancel its parent (or the batch)" the chain of g carries two marks')


def _from_signature(sel: N) -> str:
    """The tables a SELECT ranges over, in FROM order, derived tables in brackets - no aliases, no column or variable names: the key of an
    R7 instance must not change when a later migration re-creates the routine with other aliases."""
    if sel.frm is None:
        return '(no FROM)'
    parts = []
    for t in sf.from_tables(sel.frm):
        if t.kind == 'table':
            parts.append(t.name.lower())
        elif t.kind == 'derived':
            parts.append('(' + _from_signature(t.select) + ')')
        else:
            parts.append('?')
    return ' x '.join(parts)


def r7(ctx: Ctx, prog: sf.SqlProgram) -> None:
    keys = sc.table_keys()
    routines: List[sf.Routine] = []
    for name in REQUEST_PROCEDURES:
        r = prog.routine(name)
        routines.append(r)
        for f in _called_functions(prog, r):
            if prog.routines[f] not in routines:
                routines.append(prog.routines[f])
    for f in ('is_job_cancelled', 'is_job_group_cancelled', 'is_batch_cancelled'):
        if prog.routine(f) not in routines:
            routines.append(prog.routine(f))
    stack: Optional[Tuple[Optional[bool], str]] = None
    for r in routines:
        scope = sc.Scope(sc.routine_consts(r), prog.tables)
        nsig: Dict[Tuple[str, str], int] = {}
        for u in sc.scalar_uses(r):
            over_marks = any(n.kind == 'table' and n.name.lower() == CANCEL_TABLE for n in sc.walk(u.sel))
            sig = _from_signature(u.sel)
            nsig[(u.how, sig)] = nsig.get((u.how, sig), 0) + 1
            cons = f'sql::{r.name}::{u.how}::rows of {sig}' + (f' #{nsig[(u.how, sig)]}' if nsig[(u.how, sig)] > 1 else '')
            v = sc.at_most_one(u.sel, scope, keys)
            if not over_marks:
                ctx.ok('R7', cons, {'cardinality': v[0], 'ranges over cancellation marks': False})
                continue
            if v[0] == 'one':
                ctx.ok('R7', cons, {'cardinality': 'at most one row', 'why': v[1]})
                continue
            ctx.need(v[0] == 'many', f'{r.name}: cannot bound the rows of `{text(u.sel)[:80]}`: {v[1] if len(v) > 1 else v}')
            _, alias, table, free = v
            if stack is None:
                stack = _marks_can_stack(prog)
            ctx.need(stack[0] is not None, f'{r.name}: `{text(u.sel)[:60]}` has one row per {", ".join(free)} of {table}; whether two marks can sit on one ancestor chain is not decided: {stack[1]}')
            ctx.bad('R7', cons, f'{r.name} evaluates `{text(u.sel)[:110]} ..` where MySQL requires a single value ({u.how}), but the query has one row per {", ".join(free)} of {table} '
                    f'(alias {alias}) joined to {CANCEL_TABLE}, i.e. one row per CANCELLED ANCESTOR of the job\'s group: no key of {table} is pinned, no LIMIT 1 / aggregate / EXISTS. '
                    f'{stack[1]}: the query then has two rows and the routine fails with ER_SUBQUERY_NO_1_ROW (1242) / ER_TOO_MANY_ROWS (1172) instead of answering - '
                    f'for every job of g, including always-run jobs, every schedule / creating / started request errors', r.file, r.line_of(u.stmt),
                    extra={'free_key_columns': list(free), 'table': table})


def run(ctx: Ctx) -> None:
    ctx.explanation = 'Classification of every consultation of job_groups_cancelled, truth table of is_job_cancelled, guard dominance in the scheduling procedures and driver selections.'
    ctx.rule('R1', 'every lookup of job_groups_cancelled is the canonical ancestor walk on one subject, a root lookup at a batch-level site, or a listed reporting-only site', 24)
    ctx.rule('R2', 'admission guards: trigger refuses jobs under cancelled groups (-> HTTP 400); sub-group under cancelled parent refused; update on cancelled batch refused', 5)
    ctx.rule('R3', 'all writes of cancel_job_group / cancel_batch happen only when not already cancelled', 6)
    ctx.rule('R4', 'is_job_cancelled truth table; state := Running|Creating requires NOT cancelled for the same job; procedures always answer', 8)
    ctx.rule('R6', 'an accepted cancel request is always recorded: the mark depends only on not-already-cancelled; every cancel entry point reaches the CALL on every normal exit', 5)
    ctx.rule('R5', 'driver selections: scheduler and canceller filters on always_run / cancelled / group walk', 8)
    ctx.rule('R7', 'single-value queries of the scheduling / creating / starting procedures yield at most one row under any combination of cancelled groups', 10)
    ctx.assume('job_group_self_and_ancestors contains exactly (group, ancestor) pairs including (g, g); maintained at group creation')
    prog = sf.load_program()
    fns = cf.group_cancel_functions(prog)
    roots = cf.root_cancel_functions(prog)
    del _DECLINES[:]
    if not fns:
        _defer('no stored function is recognised as "EXISTS(self-and-ancestors walk of (batch, group))" (is_job_group_cancelled): its callers are not decided')
    # every rule runs even when an earlier one meets a shape it cannot decide: a violation found with positive evidence by a later rule
    # is still reported (exit 1); otherwise the run ends as ANALYSIS-ERROR (exit 2) with all the undecided constructs listed
    for rule in (lambda: r1(ctx, prog, fns), lambda: r2(ctx, prog, fns, roots), lambda: r3(ctx, prog, fns, roots), lambda: r4(ctx, prog, fns, roots),
                 lambda: r5(ctx, fns), lambda: r6(ctx, prog, fns, roots), lambda: r7(ctx, prog)):
        try:
            rule()
        except AnchorRemoved:
            raise
        except AnalysisError as ex:
            _defer(str(ex))
    if _DECLINES:
        raise AnalysisError(' || '.join(_DECLINES))
