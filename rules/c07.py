"""C07 Cancellation stops work in the cancelled subtree only.

  R1  every SQL fragment that consults job_groups_cancelled is classified: (a) the canonical self-and-ancestors walk correlated on one
      subject's own (batch_id, job_group_id); (b) a root-group lookup for batch-level questions; (c) reporting-only deviations
      (frozen table, printed).  On behaviour-relevant sites anything else is a violation: a group would be treated as cancelled
      because a sibling is, or not cancelled although an ancestor is.
  R2  admission: jobs_before_insert refuses a job whose group (or an ancestor) is cancelled and the front end turns that into HTTP 400;
      _create_job_group refuses a cancelled parent before inserting; _create_batch_update refuses a cancelled batch
  R3  repeating a cancellation changes nothing: every write of both cancel procedures is under NOT cur_cancelled
  R4  is_job_cancelled == NOT always_run AND (cancelled OR group-cancelled) on all 8 valuations; in schedule_job / mark_job_started /
      mark_job_creating the write state := Running|Creating requires NOT cur_job_cancel computed for the procedure's own job, and the
      procedure still answers with a result row on every branch
  R5  driver selections: schedulers pick non-always-run Ready jobs only with cancelled = 0 under "group not cancelled"; always-run jobs
      are picked regardless; cancellers pick only always_run = 0 jobs, either from cancelled groups or with cancelled = 1
  R7  "answered normally under any combination of cancelled groups": every query of the scheduling / creating / starting procedures
      (and of the functions they call) that MySQL requires to yield one value (RETURN (SELECT ..), SELECT .. INTO, scalar sub-query) and
      whose rows range over cancellation marks yields at most one row however many groups of one ancestor chain are cancelled -
      functional-dependency closure from the declared table keys (engines/sqlcard.py); the writer side is checked too: the cancel
      procedure admits a mark on a group whose descendant already carries one, so two marks on one chain do occur
Not decided: histories / interleavings.
"""
from __future__ import annotations

import ast
import itertools
from typing import Dict, List, Optional, Tuple

from engines import pyfacts as pf
from engines import sqlcard as sc
from engines import sqlfront as sf
from engines import sqlrules as sr
from engines.common import AnalysisError, Ctx
from engines.sqlast import N, text
from engines.sqleval import UNKNOWN, ev, may

META = dict(
    category='other',
    text='Every consultation of the cancellation table is classified against the canonical ancestor walk (sibling agreement over ~30 hand-copied '
         'sub-queries), the cancellation predicate is decided by truth table, and the guards that keep cancelled work from starting are checked for '
         'dominance in the stored procedures and the driver queries.',
    note='Reporting-only sites are listed, not armed (C07 speaks about work being stopped). Trusted: SQL parser; data invariant that job_group_self_and_ancestors '
         'holds exactly the ancestor closure.',
    technique='static analysis: SQL sub-query classification (sibling agreement), truth table, guard dominance in routines and Python loops',
    design_ref='DESIGN.md §3 C07',
)

# functions whose use of the cancellation table only feeds what is displayed / estimated, with the reason
REPORTING_ONLY = {
    'notify_batch_job_complete': 'callback payload',
    'notify_job_group_on_job_complete': 'callback payload',
    'get_completed_batches_ordered_by_completed_time': 'billing listing',
    '_get_batch': 'GET batch (root group status)',
    '_get_job_group': 'GET job group',
    'parse_list_batches_query_v1': 'listing',
    'parse_list_batches_query_v2': 'listing',
    'parse_list_job_groups_query_v1': 'listing',
    'Pool.regions_to_ready_cores_mcpu_from_estimated_job_queue': 'autoscaler estimate, starts no job',
    'check_incremental.check': 'audit (decided under C01-R2)',
}
# batch-level admission questions: the root group stands for the batch
ROOT_LEVEL = {'_create_batch_update.update', 'commit_update', 'is_batch_cancelled'}


def _same_subject(b: N, g: N) -> Tuple[bool, str]:
    tb, tg = text(b).lower(), text(g).lower()
    if b.kind == 'col' and g.kind == 'col':
        qb = b.parts[-2].lower() if len(b.parts) > 1 else ''
        qg = g.parts[-2].lower() if len(g.parts) > 1 else ''
        ok = qb == qg and b.parts[-1].lower() in ('batch_id', 'id', 'in_batch_id') and g.parts[-1].lower() in ('job_group_id', 'in_job_group_id')
        return ok, f'({tb}, {tg})'
    if b.kind == 'param' and g.kind == 'param':
        return True, '(%s, %s)'
    return False, f'({tb}, {tg})'


def r1(ctx: Ctx, prog: sf.SqlProgram) -> None:
    n_sites = 0
    # stored routines
    for name, r in sorted(prog.routines.items()):
        for st in sf.all_statements(r.ast.body):
            for sel in sr.cancelled_sites(st):
                n_sites += 1
                cons = f'{r.file}::{name}::{text(sel)[:70]}'
                w = sr.ancestor_walk(sel)
                if w is not None:
                    ok, subj = _same_subject(w['batch'], w['group'])
                    ctx.check(ok, 'R1', cons, f'ancestor walk is correlated on {subj}, which is not one subject\'s own (batch_id, job_group_id)', r.file, r.line_of(st), detail='canonical ' + subj)
                    continue
                rl = sr.root_lookup(sel)
                if rl is not None and name in ROOT_LEVEL and text(rl['group']) == '0':
                    ctx.ok('R1', cons, 'root lookup')
                    continue
                ctx.bad('R1', cons, 'stored routine consults job_groups_cancelled neither through the self-and-ancestors walk nor as a root lookup in a batch-level routine: '
                        'cancelling an ancestor (or only a sibling) is seen wrongly here', r.file, r.line_of(st))
    # python
    for rel in pf.walk_py(['batch/batch']):
        m = pf.load(rel)
        if 'job_groups_cancelled' not in m.src:
            continue
        for t in sf.templates_in(m, ['job_groups_cancelled']):
            sts = t.stmts()
            if t.parse_error:
                raise AnalysisError(f'{rel}:{t.lineno}: SQL consulting job_groups_cancelled does not parse: {t.parse_error}')
            for st in sts:
                if st.kind == 'insert' and st.table.lower() == 'job_groups_cancelled':
                    ctx.bad('R1', f'{rel}::{t.qual}::INSERT INTO job_groups_cancelled', 'cancellation is recorded outside the cancel procedures', m.path, t.lineno)
                for sel in sr.cancelled_sites(st):
                    n_sites += 1
                    cons = f'{rel}::{t.qual}::{text(sel)[:70]}'
                    w = sr.ancestor_walk(sel)
                    rl = sr.root_lookup(sel)
                    reporting = t.qual in REPORTING_ONLY
                    if w is not None:
                        ok, subj = _same_subject(w['batch'], w['group'])
                        if ok and w['batch'].kind == 'param':
                            # bound python values must be (batch id, a job-group id) of one subject
                            emb = [e for e in sf.embedded_in(m) if e.call.args and any(t.node is x for x in ast.walk(e.call.args[0])) or (e.fn is t.fn and e.sql_text == t.sql_text)]
                            if emb:
                                e = emb[0]
                                elts = sr.args_tuple(e.fn, e.call.args[1] if len(e.call.args) > 1 else None)
                                params = sr.params_in_order(e.stmts()[0]) if e.stmts() else []
                                if elts is not None and len(elts) == len(params):
                                    bind = {p.pos: pf.nsrc(x) for p, x in zip(params, elts)}
                                    pb, pg = bind.get(w['batch'].pos), bind.get(w['group'].pos)
                                    ok = pb is not None and pg is not None and 'batch_id' in pb and 'job_group_id' in pg
                                    subj = f'({pb}, {pg})'
                        if ok or reporting:
                            ctx.ok('R1', cons, ('canonical ' if ok else 'reporting-only deviation ') + subj)
                            if not ok:
                                ctx.info(f'C07 reporting-only site {rel}::{t.qual} correlates the walk on {subj}')
                        else:
                            ctx.bad('R1', cons, f'ancestor walk is correlated on {subj}, which is not one subject\'s own (batch_id, job_group_id): groups would be treated as cancelled '
                                    'because of an unrelated group, or not although an ancestor is', m.path, t.lineno)
                        continue
                    if rl is not None and t.qual in ROOT_LEVEL:
                        ctx.ok('R1', cons, 'root lookup (batch-level admission)')
                        continue
                    if reporting:
                        ctx.ok('R1', cons, f'reporting-only: {REPORTING_ONLY[t.qual]}', nontrivial=False)
                        ctx.info(f'C07 reporting-only site {rel}::{t.qual} consults job_groups_cancelled without the ancestor walk ({REPORTING_ONLY[t.qual]})')
                        continue
                    ctx.bad('R1', cons, 'behaviour-relevant code consults job_groups_cancelled without the self-and-ancestors walk (or a root lookup at a batch-level site): '
                            'a job under a cancelled ancestor group is not seen as cancelled here', m.path, t.lineno)
    ctx.unit('cancellation_lookups_classified', n_sites)


def r2(ctx: Ctx, prog: sf.SqlProgram) -> None:
    r = prog.routine('jobs_before_insert')
    a = r.ast
    ok = a.rkind == 'trigger' and a.timing == 'BEFORE' and a.event == 'INSERT' and a.table.lower() == 'jobs'
    sig = [(st, g) for st, g in sf.guarded_statements(a.body) if st.kind == 'signal']
    good = False
    for st, g in sig:
        for c, pol in g:
            if pol and c.kind == 'func' and c.name == 'IS_JOB_GROUP_CANCELLED' and [text(x).lower() for x in c.args] == ['new.batch_id', 'new.job_group_id']:
                good = True
            if pol and sr.is_var(c):
                env = sr.inline_sets(a.body, sr.declared_vars(a))
                e = env.get(c.parts[0].lower())
                if e is not None and e.kind == 'exists':
                    w = sr.ancestor_walk(e.select)
                    good = w is not None and text(w['batch']).lower() == 'new.batch_id' and text(w['group']).lower() == 'new.job_group_id'
    ctx.check(ok and good, 'R2', f'{r.file}::jobs_before_insert', 'inserting a job is not refused (SIGNAL) when the job\'s own group or an ancestor is cancelled', r.file, r.line)
    m = pf.load('batch/batch/front_end/front_end.py')
    fn = m.func('_create_jobs.insert_jobs_into_db')
    h_ok = False
    for n in ast.walk(fn):
        if isinstance(n, ast.ExceptHandler) and n.type is not None and 'OperationalError' in pf.nsrc(n.type):
            for s in ast.walk(n):
                if isinstance(s, ast.If) and '1644' in pf.nsrc(s.test) and any(isinstance(x, ast.Raise) and 'HTTPBadRequest' in pf.nsrc(x) for x in s.body):
                    h_ok = True
    ctx.check(h_ok, 'R2', f'{m.rel}::_create_jobs.insert_jobs_into_db::error 1644', 'the trigger\'s refusal (MySQL error 1644) is not turned into HTTP 400 for the client', m.path, fn.lineno)
    # _create_job_group: walk on the parent, raise before the insert
    fn = m.func('_create_job_group')
    g = pf.cfg(fn)
    embs = [e for e in sf.embedded_in(m) if e.fn is fn]
    walk_e = None
    for e in embs:
        for st in e.stmts():
            for sel in sr.cancelled_sites(st):
                if sr.ancestor_walk(sel) is not None:
                    walk_e = e
    ins_e = [e for e in embs if any(st.kind == 'insert' and st.table.lower() == 'job_groups' for st in e.stmts())]
    ctx.need(walk_e is not None and len(ins_e) == 1, '_create_job_group: parent walk / insert not found')
    elts = sr.args_tuple(fn, walk_e.call.args[1])
    wst = walk_e.stmts()[0]
    wk = [sr.ancestor_walk(sel) for sel in sr.cancelled_sites(wst)][0]
    params = sr.params_in_order(wst)
    bind = {p_.pos: pf.nsrc(x) for p_, x in zip(params, elts or [])} if elts is not None and len(elts) == len(params) else {}
    key = (bind.get(getattr(wk['batch'], 'pos', None)), bind.get(getattr(wk['group'], 'pos', None)))
    ctx.check(key == ('batch_id', 'parent_job_group_id') and walk_e.receiver == 'tx', 'R2', f'{m.rel}::_create_job_group::parent walk key',
              f'the cancelled-ancestor test is keyed by {key}, expected (batch_id, parent_job_group_id) in the same transaction', m.path, walk_e.lineno)
    ins_nodes = g.node_of(ins_e[0].call)
    walk_nodes = g.node_of(walk_e.call)
    ctx.need(ins_nodes and walk_nodes, '_create_job_group: CFG nodes not found')
    var = None
    st_ = walk_nodes[0].ast
    if isinstance(st_, ast.Assign):
        var = pf.nsrc(st_.targets[0])
    tests = g.find(lambda n: n.kind == 'test' and var is not None and pf.nsrc(n.ast) == f'{var} is not None')
    refuses = bool(tests) and all(any(s.kind == 'raise' and 'HTTPBadRequest' in pf.nsrc(s.ast) for s, lab in t.succ if lab == 'T') for t in tests)
    reach = g.path_avoiding(g.entry, lambda n: n is ins_nodes[0], lambda n: False, edge_ok=lambda a_, b_, lab: not (a_ in tests and lab == 'F')) is None
    ctx.check(refuses and reach and g.dominated_by(ins_nodes[0], lambda n: n is walk_nodes[0]), 'R2', f'{m.rel}::_create_job_group::refuses cancelled parent',
              'a sub-group can be inserted without first finding that no self-or-ancestor of the parent is cancelled (HTTP 400 otherwise)', m.path, ins_e[0].lineno)
    # _create_batch_update refuses a cancelled batch
    fn = m.func('_create_batch_update.update')
    g = pf.cfg(fn)
    tests = g.find(lambda n: n.kind == 'test' and pf.nsrc(n.ast) == "record['cancelled']")
    ins = g.find(lambda n: any(pf.const_str(c.args[0]) is not None and 'INSERT INTO batch_updates' in pf.const_str(c.args[0]) for c in pf.node_calls(n) if c.args))
    ctx.need(ins, '_create_batch_update: INSERT INTO batch_updates not found')
    ok = bool(tests) and all(any(s.kind == 'raise' and 'HTTPBadRequest' in pf.nsrc(s.ast) for s, lab in t.succ if lab == 'T') for t in tests) and \
        g.path_avoiding(g.entry, lambda n: n is ins[0], lambda n: False, edge_ok=lambda a_, b_, lab: not (a_ in tests and lab == 'F')) is None
    ctx.check(ok, 'R2', f'{m.rel}::_create_batch_update.update::refuses cancelled batch', 'a new update can be opened on a cancelled batch', m.path, fn.lineno)


def r3(ctx: Ctx, prog: sf.SqlProgram) -> None:
    for name in ('cancel_job_group', 'cancel_batch'):
        r = prog.routine(name)
        n = 0
        for st, guard in sf.guarded_statements(r.ast.body):
            if sf.written_tables(st):
                n += 1
                ok = any(pol and any(text(x) == '(NOT cur_cancelled)' for x in sf.conjuncts(c)) for c, pol in guard)
                ctx.check(ok, 'R3', f'{r.file}::{name}::{st.kind} {sf.written_tables(st)[0][0]}', 'this write happens even when the group is already cancelled: repeating the cancellation is not a no-op',
                          r.file, r.line_of(st))
        ctx.need(n >= 3, f'{name}: fewer than three writes found')


def r4(ctx: Ctx, prog: sf.SqlProgram) -> None:
    r = prog.routine('is_job_cancelled')
    a = r.ast
    ctx.need(len(a.body) == 1 and a.body[0].kind == 'return', 'is_job_cancelled: body is not a single RETURN')
    e = a.body[0].value
    ctx.need(e.kind == 'subq', 'is_job_cancelled: RETURN is not a sub-select')
    sel = e.select
    lat = [t for t in sf.from_tables(sel.frm) if t.kind == 'derived']
    ctx.need(len(lat) == 1 and len(sel.cols) == 1, 'is_job_cancelled: shape not recognised')
    w = sr.ancestor_walk(lat[0].select)
    jal = [(t.alias or t.name).lower() for t in sf.from_tables(sel.frm) if t.kind == 'table' and t.name.lower() == 'jobs']
    ctx.need(len(jal) == 1, 'is_job_cancelled: jobs table not found')
    j = jal[0]
    ok_walk = w is not None and text(w['batch']).lower() == f'{j}.batch_id' and text(w['group']).lower() == f'{j}.job_group_id' and \
        sr.has_eq(sel.where, f'{j}.batch_id', 'batch_id', strip_qual=False) and sr.has_eq(sel.where, f'{j}.job_id', 'job_id', strip_qual=False)
    left = any(jn.jtype == 'LEFT' for jn in sel.frm.joins)
    ctx.check(ok_walk and left, 'R4', f'{r.file}::is_job_cancelled::group lookup', 'the group part of the predicate is not the ancestor walk of the job\'s own group LEFT JOINed to the job row', r.file, r.line)
    la = lat[0].alias.lower()
    expr = sel.cols[0][0]
    wrong = None
    for ar, canc, gc in itertools.product((0, 1), repeat=3):
        def env(c: N):
            t = text(c).lower()
            if t == f'{la}.cancelled':
                return 1 if gc else None
            return {'always_run': ar, 'cancelled': canc}[t.split('.')[-1]]
        got = ev(expr, env)
        want = int((not ar) and (canc or gc))
        if got != want:
            wrong = (ar, canc, gc, got, want)
            break
    ctx.check(wrong is None, 'R4', f'{r.file}::is_job_cancelled::predicate', f'for always_run={wrong[0]}, cancelled={wrong[1]}, group_cancelled={wrong[2]} the function returns {wrong[3]}, '
              f'the statement requires {wrong[4]}' if wrong else '', r.file, r.line, detail={'rows': 8})
    # dominance in the three procedures
    for name, target in (('schedule_job', 'Running'), ('mark_job_started', 'Running'), ('mark_job_creating', 'Creating')):
        rr = prog.routine(name)
        aa = rr.ast
        cvar = None
        for st in sf.all_statements(aa.body):
            if st.kind == 'select' and st.into and st.cols[0][0].kind == 'func' and st.cols[0][0].name == 'IS_JOB_CANCELLED':
                if [text(x).lower() for x in st.cols[0][0].args] == ['in_batch_id', 'in_job_id']:
                    cvar = st.into[0].parts[0].lower()
        cons = f'{rr.file}::{name}'
        ctx.check(cvar is not None, 'R4', cons + '::cancel flag', 'the procedure does not evaluate is_job_cancelled(in_batch_id, in_job_id)', rr.file, rr.line)
        if cvar is not None:
            # reaching definitions of the flag: on every path it must hold the value of is_job_cancelled for this job
            defs = []  # (statement, guard, is the canonical definition?)
            for st, guard in sf.guarded_statements(aa.body):
                if st.kind == 'select' and st.into:
                    names = [t.parts[0].lower() for t in st.into]
                    if cvar in names:
                        i = names.index(cvar)
                        col = st.cols[i][0] if i < len(st.cols) else None
                        canon = col is not None and col.kind == 'func' and col.name == 'IS_JOB_CANCELLED' and [text(x).lower() for x in col.args] == ['in_batch_id', 'in_job_id']
                        defs.append((st, guard, canon))
                elif st.kind == 'set' and any(text(c).lower() == cvar for c, _ in getattr(st, 'sets', []) or []):
                    defs.append((st, guard, False))
            canon_defs = [d for d in defs if d[2]]
            last = defs[-1] if defs else None
            ok_def = bool(canon_defs) and last is not None and last[2] and last[1] == ()
            why = ''
            if not ok_def and canon_defs:
                cd = canon_defs[-1]
                if cd[1] != ():
                    why = (f'is_job_cancelled is evaluated only under {[("" if p else "NOT ") + text(c) for c, p in cd[1]]}; on the other paths `{cvar}` keeps '
                           f'`{text(defs[0][0])[:80]}`, which does not look at the job group and its ancestors')
                else:
                    why = f'`{cvar}` is re-assigned after is_job_cancelled was evaluated (`{text(last[0])[:80]}`)'
            ctx.check(ok_def, 'R4', cons + '::cancel flag is is_job_cancelled on every path', why or 'no definition of the flag from is_job_cancelled',
                      rr.file, rr.line_of(canon_defs[-1][0]) if canon_defs else rr.line)
        found = False
        for st, guard in sf.guarded_statements(aa.body):
            if st.kind == 'update' and sf.table_names(st.frm)[:1] == ['jobs']:
                sv = [v for c, v in st.sets if c.kind == 'col' and c.parts[-1].lower() == 'state']
                if sv and text(sv[0]) == f"'{target}'":
                    found = True
                    # the guard must be unsatisfiable when the cancel flag is true
                    sat = all(pol in may(c, lambda n: 1 if (cvar and n.kind == 'col' and n.parts[-1].lower() == cvar) else UNKNOWN) for c, pol in guard)
                    ctx.check(not sat and cvar is not None, 'R4', cons + f'::state := {target}', f'a cancelled, non-always-run job can still be moved to {target} '
                              f'(path condition {[("" if p else "NOT ") + text(c) for c, p in guard]} does not exclude {cvar} = TRUE)', rr.file, rr.line_of(st))
        ctx.need(found, f'{name}: UPDATE jobs SET state = {target} not found')
        # answered normally: every leaf path of the top-level decision ends with a result SELECT
        leaves_ok = _always_answers(aa.body)
        ctx.check(leaves_ok, 'R4', cons + '::answers', 'some branch ends without returning a result row (the driver would get no answer for a job under a cancelled group)', rr.file, rr.line)


def _always_answers(body: List[N]) -> bool:
    if not body:
        return False
    last = body[-1]
    if last.kind == 'select' and not last.into:
        return True
    if last.kind == 'if':
        return all(_always_answers(b) for _, b in last.branches) and last.orelse is not None and _always_answers(last.orelse)
    return False


def r5(ctx: Ctx) -> None:
    for rel, funcs, role in (('batch/batch/driver/instance_collection/pool.py', ['PoolScheduler.schedule_loop_body.user_runnable_jobs'], 'scheduler'),
                             ('batch/batch/driver/instance_collection/job_private.py', ['JobPrivateInstanceManager.create_instances_loop_body.user_runnable_jobs'], 'scheduler'),
                             ('batch/batch/driver/canceller.py', ['Canceller.cancel_cancelled_ready_jobs_loop_body.user_cancelled_ready_jobs',
                                                                 'Canceller.cancel_cancelled_creating_jobs_loop_body.user_cancelled_creating_jobs',
                                                                 'Canceller.cancel_cancelled_running_jobs_loop_body.user_cancelled_running_jobs'], 'canceller')):
        m = pf.load(rel)
        for q in funcs:
            fn = m.func(q)
            embs = [e for e in sf.embedded_in(m) if e.fn is fn]
            gq = [e for e in embs if e.stmts() and e.stmts()[0].kind == 'select' and sf.table_names(e.stmts()[0].frm)[:1] == ['job_groups']]
            jq = [e for e in embs if e.stmts() and e.stmts()[0].kind == 'select' and sf.table_names(e.stmts()[0].frm)[:1] == ['jobs']]
            ctx.need(len(gq) == 1 and jq, f'{rel}::{q}: job-group / job queries not recognised')
            gsel = gq[0].stmts()[0]
            lat = [(j, j.ref) for j in gsel.frm.joins if j.ref.kind == 'derived']
            ctx.need(len(lat) == 1, f'{rel}::{q}: lateral cancelled lookup not found')
            jn, ref = lat[0]
            w = sr.ancestor_walk(ref.select)
            walk_ok = w is not None and text(w['batch']).lower() == 'job_groups.batch_id' and text(w['group']).lower() == 'job_groups.job_group_id'
            flag_col = None
            for c, al in gsel.cols:
                if al and text(c).lower() == f'({ref.alias.lower()}.cancelled is not null)':
                    flag_col = al
            only_cancelled_groups = jn.jtype == 'INNER'
            for e in jq:
                st = e.stmts()[0]
                conj = [text(c).lower().replace('jobs.', '') for c in sf.conjuncts(st.where)]
                cons = f'{rel}::{q}::{[c for c in conj if "state" in c][:1]} always_run={"1" if "(always_run = 1)" in conj else "0" if "(always_run = 0)" in conj else "?"}' \
                       f'{" cancelled=" + ("0" if "(cancelled = 0)" in conj else "1") if any(c.startswith("(cancelled") for c in conj) else ""}'
                # keyed by the job group of the enclosing loop
                elts = sr.args_tuple(e.fn, e.call.args[1] if len(e.call.args) > 1 else None)
                params = sr.params_in_order(st)
                bind = {p.pos: pf.nsrc(x) for p, x in zip(params, elts or [])}
                kb = kg = None
                for c in sf.conjuncts(st.where):
                    if c.kind == 'bin' and c.op == '=' and c.right.kind == 'param':
                        n_ = text(c.left).lower().split('.')[-1]
                        if n_ == 'batch_id':
                            kb = bind.get(c.right.pos)
                        if n_ == 'job_group_id':
                            kg = bind.get(c.right.pos)
                loops = sr.enclosing_loops(m, e.call)
                loop_var = pf.nsrc(loops[-1].target) if loops and any(gq[0].call is x for x in ast.walk(loops[-1].iter)) else None
                if loop_var is None and loops:
                    for lp in loops:
                        if any(gq[0].call is x for x in ast.walk(lp.iter)):
                            loop_var = pf.nsrc(lp.target)
                keyed = loop_var is not None and kb == f"{loop_var}['batch_id']" and kg == f"{loop_var}['job_group_id']"
                ifs = sr.enclosing_ifs(m, e.call, stop=fn)
                flag_tests = [(pf.nsrc(i.test), inb) for i, inb in ifs]
                under_not_cancelled = flag_col is not None and ((f"not {loop_var}['{flag_col}']", True) in flag_tests or (f"{loop_var}['{flag_col}']", False) in flag_tests)
                under_cancelled = flag_col is not None and ((f"{loop_var}['{flag_col}']", True) in flag_tests or (f"not {loop_var}['{flag_col}']", False) in flag_tests)
                if role == 'scheduler':
                    ready = "(state = 'ready')" in conj
                    if '(always_run = 1)' in conj:
                        okx = ready and not any(c.startswith('(cancelled') for c in conj) and not under_not_cancelled and not under_cancelled and keyed
                        ctx.check(okx, 'R5', cons, 'always-run jobs must be selected for every running group regardless of cancellation (no cancelled filter, not under a group-cancelled test), keyed by the loop\'s group',
                                  m.path, e.lineno)
                    else:
                        okx = ready and '(always_run = 0)' in conj and '(cancelled = 0)' in conj and under_not_cancelled and walk_ok and keyed
                        ctx.check(okx, 'R5', cons, 'non-always-run jobs are offered to the scheduler without all of: always_run = 0, cancelled = 0, executed only when the group\'s ancestor walk found no cancellation, keyed by that group'
                                  f' (conjuncts {conj}, guards {flag_tests}, walk_ok={walk_ok})', m.path, e.lineno)
                else:
                    base = '(always_run = 0)' in conj and keyed and walk_ok
                    if '(cancelled = 1)' in conj:
                        okx = base and (under_not_cancelled or not flag_col)
                        why = 'jobs individually marked cancelled'
                    else:
                        okx = base and (only_cancelled_groups or under_cancelled)
                        why = 'jobs of cancelled groups'
                    ctx.check(okx, 'R5', cons, f'the canceller selects jobs ({why}) without all of: always_run = 0, keyed by the loop\'s group, and restricted to groups whose own ancestor walk found a cancellation '
                              f'(or cancelled = 1): jobs of sibling/ancestor groups or always-run jobs would be cancelled (conjuncts {conj}, guards {flag_tests}, inner-join={only_cancelled_groups})', m.path, e.lineno)


def r6(ctx: Ctx, prog: sf.SqlProgram) -> None:
    """A cancel request that was accepted is always RECORDED: the mark in job_groups_cancelled is what refuses later jobs / sub-groups
    (R2) and what the driver filters on (R4, R5).  (a) SQL: in the cancel procedures the INSERT of the mark depends on nothing but
    "not already cancelled" -- in particular not on the group's state (a complete / still empty group can be cancelled and must then
    refuse additions).  (b) Python: every function that issues `CALL cancel_job_group` / `CALL cancel_batch` reaches that CALL on every
    normal exit (an early `return` -- "nothing left to cancel" -- answers 200 without recording anything), and so does every wrapper
    on the way up to the route handlers."""
    # only procedures that some Python site (or another procedure) actually CALLs are judged; a legacy procedure nobody calls is listed
    called = set()
    for rel in pf.walk_py(['batch/batch']):
        m0 = pf.load(rel)
        if 'CALL ' not in m0.src:
            continue
        for e in sf.embedded_in(m0):
            if e.sql_text is not None:
                called |= {st.name for st in e.stmts() if st.kind == 'call'}
    for rr in prog.routines.values():
        called |= {st.name for st in sf.all_statements(rr.ast.body) if st.kind == 'call'}
    for name in ('cancel_job_group', 'cancel_batch'):
        if name not in prog.routines:
            continue
        if name not in called:
            ctx.info(f'{name}: defined but never CALLed from batch/batch or another routine (legacy); not judged')
            continue
        r = prog.routine(name)
        marks = [(st, g) for st, g in sf.guarded_statements(r.ast.body) if st.kind == 'insert' and any(t.lower() == 'job_groups_cancelled' for t, _ in sf.written_tables(st))]
        if name == 'cancel_job_group':
            ctx.need(len(marks) >= 1, f'{name}: INSERT INTO job_groups_cancelled not found')
        for st, guard in marks:
            def known(n: N):
                return 0 if text(n).lower() == 'cur_cancelled' else UNKNOWN
            vals = set()
            ok = True
            for c, pol in guard:
                m = may(c, known)
                want = True if pol else False
                if m != {want}:
                    ok = False
                    vals.add(text(c))
            ctx.check(ok, 'R6', f'sql::{name}::cancellation mark recorded', f'the INSERT INTO job_groups_cancelled also depends on {sorted(vals)}: for some state of the group the cancellation is '
                      'accepted but not recorded, so jobs and sub-groups can still be added beneath the cancelled group and its Ready jobs are still scheduled', r.file, r.line_of(st))
    # Python side
    mods = {}
    direct = []   # (module, fn, call node)
    for rel in pf.walk_py(['batch/batch']):
        m = pf.load(rel)
        if 'CALL cancel_job_group' not in m.src and 'CALL cancel_batch' not in m.src and 'cancel_job_group_in_db' not in m.src:
            continue
        mods[rel] = m
        for e in sf.embedded_in(m):
            if e.sql_text is None or e.fn is None:
                continue
            if any(st.kind == 'call' and st.name in ('cancel_job_group', 'cancel_batch') for st in e.stmts()):
                direct.append((m, e.fn, e.call))
    ctx.need(len(direct) >= 2, f'only {len(direct)} Python sites issue CALL cancel_job_group / cancel_batch')
    performing = {}  # function name -> (module, fn)

    def must_pass(m: pf.Module, fn: pf.FuncDef, call: ast.AST, what: str) -> None:
        cfg = pf.cfg(fn)
        goals = cfg.node_of(call)
        ctx.need(bool(goals), f'{m.rel}::{m.qualname(fn)}: {what} not found in the CFG')
        p = cfg.path_avoiding(cfg.entry, lambda n: n is cfg.exit, lambda n: any(n is g for g in goals))
        ctx.check(p is None, 'R6', f'{m.rel}::{m.qualname(fn)}::{what} on every normal exit',
                  f'{m.qualname(fn)} can return normally without reaching {what}' + (f' (via `{p[-2].text()}`)' if p and len(p) > 1 else '') +
                  ': the request is answered as a success but the cancellation is not recorded -- later jobs / sub-groups are accepted beneath the group and it keeps being scheduled',
                  m.path, fn.lineno)
    for m, fn, call in direct:
        must_pass(m, fn, call, 'the CALL of the cancel procedure')
        performing[fn.name] = (m, fn)
    # wrappers: a function whose name says it cancels and that calls a performing function (nested `cancel(tx)` helpers, *_in_db, route helpers)
    changed = True
    seen = set()
    while changed:
        changed = False
        for rel, m in mods.items():
            for q, fn in m.functions():
                if (rel, q) in seen or 'cancel' not in fn.name.lower():
                    continue
                calls = [c for c in pf.calls_in(fn) if (pf.dotted(c.func) or '').split('.')[-1] in performing and performing[(pf.dotted(c.func) or '').split('.')[-1]][1] is not fn]
                if not calls:
                    continue
                seen.add((rel, q))
                for c in calls:
                    if sr.enclosing_loops(m, c):
                        # a loop over several groups (e.g. the driver cancelling fast-failing groups): zero iterations are legitimate
                        ctx.ok('R6', f'{m.rel}::{m.qualname(fn)}::`{pf.nsrc(c.func)}(...)` per item of a loop', 'one request per iteration')
                        continue
                    must_pass(m, fn, c, f'`{pf.nsrc(c.func)}(...)`')
                if fn.name not in performing:
                    performing[fn.name] = (m, fn)
                    changed = True


# ------------------------------------------------------------------------------------------------------------------------------------
# R7: one value under any combination of cancelled groups
REQUEST_PROCEDURES = ('schedule_job', 'mark_job_started', 'mark_job_creating')
CANCEL_TABLE = 'job_groups_cancelled'


def _called_functions(prog: sf.SqlProgram, r: sf.Routine) -> List[str]:
    fns = {n.lower(): n for n, x in prog.routines.items() if x.kind == 'function'}
    out = []
    for n in sc.walk(r.ast.body):
        if n.kind == 'func' and n.name.lower() in fns and fns[n.name.lower()] not in out:
            out.append(fns[n.name.lower()])
    return out


def _marks_can_stack(prog: sf.SqlProgram) -> Tuple[Optional[bool], str]:
    """Can two groups of ONE ancestor chain both carry a cancellation mark?  True when the only test in front of the INSERT of a mark
    is the self-and-ancestors question about the group being cancelled (so cancelling a parent after its child adds a second mark on
    the child's chain) and nothing deletes the marks of descendants; None when the writers have another shape."""
    writers = []
    for name, r in prog.routines.items():
        for st, guard in sf.guarded_statements(r.ast.body):
            for t, how in sf.written_tables(st):
                if t.lower() == CANCEL_TABLE:
                    writers.append((name, r, st, guard, how))
    ins = [w for w in writers if w[2].kind == 'insert']
    if not ins or any(w[2].kind != 'insert' for w in writers):
        return None, f'writers of {CANCEL_TABLE}: {[(w[0], w[2].kind) for w in writers]} (an UPDATE / DELETE of marks is not modelled)'
    for name, r, st, guard, _ in ins:
        # the guard may mention only variables assigned from is_job_group_cancelled(<own batch>, <own group>) / is_batch_cancelled
        gvars = {c.parts[-1].lower() for g, _ in guard for c in sf.cols_in(g)}
        for v in gvars:
            defs = [d for d in sf.all_statements(r.ast.body) if d.kind == 'select' and d.into and v in [t.parts[0].lower() for t in d.into]]
            for d in defs:
                i = [t.parts[0].lower() for t in d.into].index(v)
                col = d.cols[i][0] if i < len(d.cols) else None
                if not (isinstance(col, N) and col.kind == 'func' and col.name.lower() in ('is_job_group_cancelled', 'is_batch_cancelled')):
                    # any other test (e.g. on descendants) could prevent stacking: not decided
                    if isinstance(col, N) and CANCEL_TABLE in text(col).lower():
                        return None, f'{name}: the mark is guarded by `{text(col)[:80]}`'
    fn = prog.routines.get('is_job_group_cancelled')
    if fn is None:
        return None, 'is_job_group_cancelled vanished'
    walks = [n for n in sc.walk(fn.ast.body) if n.kind == 'select' and CANCEL_TABLE in [t.lower() for t in sf.table_names(n.frm)]]
    if len(walks) != 1:
        return None, 'is_job_group_cancelled: shape not recognised'
    w = sr.ancestor_walk(walks[0])
    if w is None:
        return None, 'is_job_group_cancelled is not the self-and-ancestors walk'
    return True, ('cancel_job_group marks a group unless the group ITSELF or one of its ANCESTORS is marked; a descendant that was cancelled before keeps its mark, '
                  'so after "cancel sub-group g; cancel its parent (or the batch)" the chain of g carries two marks')


def r7(ctx: Ctx, prog: sf.SqlProgram) -> None:
    keys = sc.table_keys()
    routines: List[sf.Routine] = []
    for name in REQUEST_PROCEDURES:
        r = prog.routine(name)
        routines.append(r)
        for f in _called_functions(prog, r):
            if prog.routines[f] not in routines:
                routines.append(prog.routines[f])
    for f in ('is_job_cancelled', 'is_job_group_cancelled', 'is_batch_cancelled'):
        if prog.routine(f) not in routines:
            routines.append(prog.routine(f))
    stack: Optional[Tuple[Optional[bool], str]] = None
    for r in routines:
        scope = sc.Scope(sc.routine_consts(r), prog.tables)
        for u in sc.scalar_uses(r):
            over_marks = any(n.kind == 'table' and n.name.lower() == CANCEL_TABLE for n in sc.walk(u.sel))
            cons = f'sql::{r.name}::{u.how}::{text(u.sel)[:70]}'
            v = sc.at_most_one(u.sel, scope, keys)
            if not over_marks:
                ctx.ok('R7', cons, {'cardinality': v[0], 'ranges over cancellation marks': False})
                continue
            if v[0] == 'one':
                ctx.ok('R7', cons, {'cardinality': 'at most one row', 'why': v[1]})
                continue
            ctx.need(v[0] == 'many', f'{r.name}: cannot bound the rows of `{text(u.sel)[:80]}`: {v[1] if len(v) > 1 else v}')
            _, alias, table, free = v
            if stack is None:
                stack = _marks_can_stack(prog)
            ctx.need(stack[0] is not None, f'{r.name}: `{text(u.sel)[:60]}` has one row per {", ".join(free)} of {table}; whether two marks can sit on one ancestor chain is not decided: {stack[1]}')
            ctx.bad('R7', cons, f'{r.name} evaluates `{text(u.sel)[:110]} ..` where MySQL requires a single value ({u.how}), but the query has one row per {", ".join(free)} of {table} '
                    f'(alias {alias}) joined to {CANCEL_TABLE}, i.e. one row per CANCELLED ANCESTOR of the job\'s group: no key of {table} is pinned, no LIMIT 1 / aggregate / EXISTS. '
                    f'{stack[1]}: the query then has two rows and the routine fails with ER_SUBQUERY_NO_1_ROW (1242) / ER_TOO_MANY_ROWS (1172) instead of answering - '
                    f'for every job of g, including always-run jobs, every schedule / creating / started request errors', r.file, r.line_of(u.stmt),
                    extra={'free_key_columns': list(free), 'table': table})


def run(ctx: Ctx) -> None:
    ctx.explanation = 'Classification of every consultation of job_groups_cancelled, truth table of is_job_cancelled, guard dominance in the scheduling procedures and driver selections.'
    ctx.rule('R1', 'every lookup of job_groups_cancelled is the canonical ancestor walk on one subject, a root lookup at a batch-level site, or a listed reporting-only site', 24)
    ctx.rule('R2', 'admission guards: trigger refuses jobs under cancelled groups (-> HTTP 400); sub-group under cancelled parent refused; update on cancelled batch refused', 5)
    ctx.rule('R3', 'all writes of cancel_job_group / cancel_batch happen only when not already cancelled', 6)
    ctx.rule('R4', 'is_job_cancelled truth table; state := Running|Creating requires NOT cancelled for the same job; procedures always answer', 14)
    ctx.rule('R6', 'an accepted cancel request is always recorded: the mark depends only on not-already-cancelled; every cancel entry point reaches the CALL on every normal exit', 5)
    ctx.rule('R5', 'driver selections: scheduler and canceller filters on always_run / cancelled / group walk', 8)
    ctx.rule('R7', 'single-value queries of the scheduling / creating / starting procedures yield at most one row under any combination of cancelled groups', 10)
    ctx.assume('job_group_self_and_ancestors contains exactly (group, ancestor) pairs including (g, g); maintained at group creation')
    prog = sf.load_program()
    r1(ctx, prog)
    r2(ctx, prog)
    r3(ctx, prog)
    r4(ctx, prog)
    r5(ctx)
    r6(ctx, prog)
    r7(ctx, prog)
