"""C08 Accepted job graphs can always finish.

  R1  the parent ids that are STORED in job_parents satisfy  1 <= parent  (or a foreign key job_parents(batch_id, parent_id) -> jobs exists)  and
      parent <= stored job id - 1  for both kinds of submitted parents (absolute_parent_ids, in_update_parent_ids), and the edges are stored under the
      job's own stored id.  Decided by abstract execution of the per-job loop of _create_jobs (module-level helpers inlined, plus the job-spec
      validator when every caller validates first) over SYMBOLIC linear values (engines/c08ids.py): every rejecting test that is executed for
      every job contributes the negation of its condition as a linear constraint; a bound holds when one constraint implies it for every valuation,
      it is violated when no test bounds the id at all or every test on it leaves a positive excess (off-by-one, comparison made in the wrong
      coordinates, only some parents checked); anything else is declined.
  R2  the job id that is STORED in jobs satisfies  start_job_id <= id <= start_job_id + n_jobs - 1  where start_job_id / n_jobs are the columns of
      the batch_updates row read for the very (batch_id, update_id) the job is stored under; `record[...]` values are resolved through the SELECT
      list (arithmetic done in SQL, e.g. `start_job_id + n_jobs AS end_job_id`, is seen as the linear form it is)
  R3  commit refuses a wrong job count: every write of commit_batch_update sits under staging_n_jobs = expected_n_jobs, the other
      branch rolls back and returns a non-zero rc, and the front end turns that into an error response
  R4  duplicate parents are rejected (ER_DUP_ENTRY on job_parents -> HTTP 400) and the job-spec validator demands contiguous job ids
      (current id - previous id != 1 rejects, compared as linear forms)
  R5  the id fields of the job spec are validated as integers: the comparisons of R1/R2 are made on the value that is stored
  R6  the staged job count that commit_batch_update compares with batch_updates.n_jobs is the number of job rows of the update: the staging insert is
      dominated by INSERT INTO jobs in the bunch transaction and is not reachable from its duplicate-key (replayed bunch) branch; one staged job per
      spec; the commit reads SUM(n_jobs) of the update's root staging rows and n_jobs of the update's own row
  R7  the recount of pending parents in commit_batch_update (updates after the first) contributes 0 for a dependency edge whose parent id has no jobs
      row: R1 only proves that a parent id lies in a reserved range, an abandoned earlier update leaves a hole there; decided from the contribution of
      the NULL row class to each aggregate of the derived table and linearity of the stored expressions
  R8  existence of parents below the update's own range: R1/R2/R6 make the ids of an update exist once THAT update is committed; for ids reserved by an
      earlier update some construct must establish existence (refusal to open or commit an update while an earlier one is uncommitted, look-up of the
      parents in jobs, foreign key).  None is present today: known finding (the acceptance clause is violated; R7 keeps such batches completable)
Not decided: anything about graphs once R1 holds (with parent < child the dependency relation is acyclic by construction).
"""
from __future__ import annotations

import ast
from typing import List, Optional, Set, Tuple

from engines import pyfacts as pf
from engines import sqlfront as sf
from engines import sqlrules as sr
from engines.common import AnalysisError, Ctx
from engines.sqlast import N, text

META = dict(
    category='other',
    text='The ids stored by the submission path are shown to lie in the ranges the property demands: abstract execution of the per-job loop over symbolic linear values, '
         'rejecting tests as linear constraints, implication decided by comparing normal forms (sources: request fields and the batch_updates row, resolved through the SELECT list; '
         'sinks: the tuples bound to the jobs / job_parents inserts). Plus the guard structure of the commit procedure and the integer-ness of the id fields.',
    note='One-constraint implications only (no elimination across several constraints: such shapes are declined). start_job_id >= 1 and n_jobs >= 0 are assumed for the update row. '
         'Schema constraints are read from the replayed migrations.',
    technique='static analysis: abstract execution over symbolic linear forms with helper inlining, comparison of linear normal forms (Python and SQL select list), guard dominance in the commit procedure',
    design_ref='DESIGN.md §3 C08',
)

FE = 'batch/batch/front_end/front_end.py'
VAL = 'batch/batch/front_end/validate.py'


def _raises(stmts: List[ast.stmt]) -> bool:
    for s in stmts:
        for n in ast.walk(s):
            if isinstance(n, ast.Raise) and n.exc is not None and any(k in pf.nsrc(n.exc) for k in ('HTTPBadRequest', 'ValidationError', 'HTTPUnprocessableEntity')):
                return True
    return False


def _rejecting_compares(fn: pf.FuncDef) -> List[Tuple[ast.Compare, ast.AST]]:
    """Compare nodes sitting in the test of an `if` whose body rejects the request (or in a loop under such an if)."""
    out = []
    for n in ast.walk(fn):
        if isinstance(n, ast.If) and _raises(n.body):
            for c in ast.walk(n.test):
                if isinstance(c, ast.Compare):
                    out.append((c, n))
    return out


# ---- R1 / R2: the ids that are STORED lie in the ranges the property demands ----------------------------------------------------------
#
# Decided by comparing linear normal forms (engines/c08ids.py): the per-job loop of _create_jobs (module-level helpers inlined) is executed
# abstractly over the symbols  rel_job_id (what the client sent), start_job_id / n_jobs (columns of the update's batch_updates row, resolved
# through the SELECT that feeds `record[...]`, so arithmetic done in SQL is seen), parent[absolute] / parent[in_update].  Every rejecting
# test that dominates the rest of the loop body contributes the negation of its condition as a constraint  L <= 0; the tuples appended to
# the jobs / job_parents argument lists give the stored ids.  A bound holds when one constraint implies it for every valuation of the
# symbols; it is VIOLATED when every constraint on that symbol leaves an excess that is positive for some valuation (off-by-one, wrong
# coordinates) or when no rejecting test bounds the symbol at all.

def _sql_lin(prog, st: N, e: N):
    """linear form of a SQL select-list expression over the columns of batch_updates (other columns: opaque symbols)."""
    from engines import linform as lf
    from engines import c08ids as ci
    if e.kind == 'lit' and isinstance(e.value, int) and not isinstance(e.value, bool):
        return lf.const(e.value)
    if e.kind == 'col':
        tabs = sf.from_tables(st.frm)
        col = e.parts[-1].lower()
        owner = None
        if len(e.parts) >= 2:
            q = e.parts[-2].lower()
            for t in tabs:
                if t.kind == 'table' and q in ((t.alias or '').lower(), t.name.lower()):
                    owner = t.name.lower()
        else:
            have = [t.name.lower() for t in tabs if t.kind == 'table' and col in [c.lower() for c in prog.tables.get(t.name, prog.tables.get(t.name.lower(), []))]]
            if len(have) == 1:
                owner = have[0]
        if owner == 'batch_updates' and col == 'start_job_id':
            return lf.sym(ci.S)
        if owner == 'batch_updates' and col == 'n_jobs':
            return lf.sym(ci.NJ)
        return lf.sym(f'sql:{owner or "?"}.{col}')
    if e.kind == 'bin' and e.op in ('+', '-'):
        a, b = _sql_lin(prog, st, e.left), _sql_lin(prog, st, e.right)
        return a + b if e.op == '+' else a - b
    if e.kind == 'bin' and e.op == '*':
        a, b = _sql_lin(prog, st, e.left), _sql_lin(prog, st, e.right)
        if a.is_const():
            return b.scale(a.const)
        if b.is_const():
            return a.scale(b.const)
    if e.kind == 'cast':
        return _sql_lin(prog, st, e.arg)
    return lf.sym(f'sql:{text(e)}')


def _stores(fn: pf.FuncDef, name: str) -> int:
    return sum(1 for n in ast.walk(fn) if isinstance(n, ast.Name) and n.id == name and isinstance(n.ctx, (ast.Store, ast.Del)))


def _row_reads(ctx: Ctx, prog, fn: pf.FuncDef, upto: int):
    """`rec = await db.select_and_fetchone(<SELECT ... FROM batch_updates ...>, args)` statements at the top level of fn before line `upto`:
    returns (env entries for rec['col'], [(rec, select stmt, python args)])."""
    from engines.sqlast import parse_statements, SqlParseError
    env = {}
    reads = []
    for st in fn.body:
        if st.lineno >= upto:
            break
        if not (isinstance(st, ast.Assign) and len(st.targets) == 1 and isinstance(st.targets[0], ast.Name)):
            continue
        v = st.value.value if isinstance(st.value, ast.Await) else st.value
        if not (isinstance(v, ast.Call) and isinstance(v.func, ast.Attribute) and v.func.attr in ('select_and_fetchone', 'execute_and_fetchone') and v.args):
            continue
        sql, holes, how = sf._sql_of_expr(fn, v.args[0])
        if sql is None:
            continue
        try:
            sts = parse_statements(sql)
        except SqlParseError as e:
            raise AnalysisError(f'{FE}::_create_jobs: SQL of `{st.targets[0].id} = ...` not parsed: {e}')
        if len(sts) != 1 or sts[0].kind != 'select' or 'batch_updates' not in [t.lower() for t in sf.table_names(sts[0].frm)]:
            continue
        rec = st.targets[0].id
        ctx.need(_stores(fn, rec) == 1, f'{FE}::_create_jobs: `{rec}` is assigned more than once')
        for c, al in sts[0].cols:
            name = al or (c.parts[-1] if c.kind == 'col' else None)
            if name is None:
                continue
            env[f'{rec}[{name!r}]'] = _sql_lin(prog, sts[0], c)
        reads.append((rec, sts[0], sr.args_tuple(fn, v.args[1]) if len(v.args) > 1 else None))
    return env, reads


def _pinned_arg(sel: N, args, column: str) -> Optional[ast.AST]:
    """the python expression compared for equality with batch_updates.<column> in the WHERE clause of the row read."""
    if args is None:
        return None
    params = sr.params_in_order(sel)
    for c in sf.conjuncts(sel.where):
        if c.kind == 'bin' and c.op == '=':
            for a, b in ((c.left, c.right), (c.right, c.left)):
                if a.kind == 'col' and a.parts[-1].lower() == column and (len(a.parts) == 1 or a.parts[-2].lower() in _aliases(sel, 'batch_updates')) and b.kind == 'param':
                    idx = [i for i, p in enumerate(params) if p is b]
                    if idx and idx[0] < len(args):
                        return args[idx[0]]
    return None


def _aliases(sel: N, table: str) -> Set[str]:
    out = set()
    for t in sf.from_tables(sel.frm):
        if t.kind == 'table' and t.name.lower() == table:
            out.add(table)
            if t.alias:
                out.add(t.alias.lower())
    return out


def _insert_sinks(ctx: Ctx, m: pf.Module):
    """argument lists of the INSERT INTO jobs / job_parents execute_many calls inside _create_jobs: list name -> (table, {column: tuple index})."""
    out = {}
    for e in sf.embedded_in(m):
        if not e.qual.startswith('_create_jobs') or e.method not in ('execute_many', 'executemany') or len(e.call.args) < 2:
            continue
        sts = e.stmts()
        if len(sts) != 1 or sts[0].kind != 'insert':
            continue
        tname = (sts[0].table if isinstance(sts[0].table, str) else getattr(sts[0].table, 'name', '')).lower()
        if tname not in ('jobs', 'job_parents'):
            continue
        ins, _dup, _uv = sr.insert_colmap(sts[0])
        params = sr.params_in_order(sts[0])
        idx = {}
        for col, ex in ins.items():
            if ex.kind == 'param':
                idx[col] = [i for i, p in enumerate(params) if p is ex][0]
        lst = e.call.args[1]
        ctx.need(isinstance(lst, ast.Name), f'{FE}::{e.qual}: rows of INSERT INTO {tname} are not passed as a named list')
        out[lst.id] = (tname, idx)  # type: ignore[union-attr]
    return out


def _excess(diff) -> str:
    return f'{diff}' if not diff.is_const() else f'{diff.const}'


def _spec_loop(ctx: Ctx, fn: pf.FuncDef, lists: Set[str], what: str):
    loops = [n for n in fn.body if isinstance(n, ast.For) and any(isinstance(c, ast.Call) and isinstance(c.func, ast.Attribute) and c.func.attr == 'append'
                                                                    and isinstance(c.func.value, ast.Name) and c.func.value.id in lists for c in ast.walk(n))]
    ctx.need(len(loops) == 1 and isinstance(loops[0].target, ast.Name) and not loops[0].orelse, f'{what}: the per-job loop that fills {sorted(lists)} was not recognised')
    return loops[0]


def _validator_constraints(ctx: Ctx, m: pf.Module):
    """Constraints the job-spec validator puts on the ids, usable when every caller of _create_jobs validates the same list first."""
    from engines import c08ids as ci
    from engines import inline
    from engines import linform as lf
    vm = pf.load(VAL)
    vm2, _il = inline.inline_functions(vm, 'validate_and_clean_jobs')
    vfn = vm2.func('validate_and_clean_jobs')
    loops = [n for n in vfn.body if isinstance(n, ast.For)]
    ctx.need(len(loops) == 1, f'{VAL}::validate_and_clean_jobs: per-job loop not recognised')
    lp = loops[0]
    tgt = lp.target
    if isinstance(tgt, ast.Tuple) and len(tgt.elts) == 2 and isinstance(lp.iter, ast.Call) and pf.dotted(lp.iter.func) == 'enumerate':
        tgt = tgt.elts[1]
    ctx.need(isinstance(tgt, ast.Name), f'{VAL}::validate_and_clean_jobs: loop variable not recognised')
    spec = tgt.id  # type: ignore[union-attr]
    fl = ci.IdFlow(ci.REL, spec, {f'{spec}[{"job_id"!r}]': lf.sym(ci.REL)}, {})
    fl.run(lp.body, VAL)
    # a validator that rewrites the id slots would change what _create_jobs reads
    for n in ast.walk(lp):
        if isinstance(n, ast.Subscript) and isinstance(n.ctx, ast.Store) and isinstance(n.value, ast.Name) and n.value.id == spec and pf.const_str(n.slice) in ('job_id', 'in_update_parent_ids'):
            raise AnalysisError(f'{VAL}::validate_and_clean_jobs rewrites {spec}[{pf.const_str(n.slice)!r}]')
    cons = [c for c in fl.cons if all(x in ci.BASE for x in c.le0.symbols())]
    und = list(fl.undecided)
    if not cons and not und:
        return [], [], []
    # every caller of _create_jobs must have validated the list it passes
    callers_ok = True
    for f in [n for n in m.tree.body if isinstance(n, (ast.FunctionDef, ast.AsyncFunctionDef))]:
        for c in pf.walk_shallow(f):
            if isinstance(c, ast.Call) and pf.dotted(c.func) == '_create_jobs':
                arg = c.args[1] if len(c.args) > 1 else None
                seen = any(isinstance(v, ast.Call) and pf.dotted(v.func) == 'validate_and_clean_jobs' and v.args and isinstance(arg, ast.Name) and isinstance(v.args[0], ast.Name)
                           and v.args[0].id == arg.id and v.lineno < c.lineno for v in pf.walk_shallow(f))
                callers_ok = callers_ok and seen
    if not callers_ok:
        return [], [(f'{VAL}: the validator constrains the ids but a caller of _create_jobs does not visibly validate the list it passes', frozenset(ci.BASE))] + und, []
    return cons, und, list(fl.neq)


def r1_r2(ctx: Ctx) -> None:
    from engines import c08ids as ci
    from engines import inline
    from engines import linform as lf
    m = pf.load(FE)
    prog = sf.load_program()
    m.func('_create_jobs')
    sinks_spec = _insert_sinks(ctx, m)
    tables = {v[0] for v in sinks_spec.values()}
    ctx.need(tables == {'jobs', 'job_parents'}, f'{FE}::_create_jobs: INSERT INTO jobs / job_parents argument lists not found (found {sorted(tables)})')
    for v in sinks_spec.values():
        ctx.need('job_id' in v[1] and (v[0] != 'job_parents' or 'parent_id' in v[1]), f'{FE}::_create_jobs: id columns of INSERT INTO {v[0]} are not bound to parameters')
    m2, il = inline.inline_functions(m, '_create_jobs')
    fn = m2.func('_create_jobs')
    for name in sinks_spec:
        ctx.need(_stores(fn, name) == 1, f'{FE}::_create_jobs: `{name}` is rebound after its initialisation')
    loop = _spec_loop(ctx, fn, set(sinks_spec), f'{FE}::_create_jobs')
    spec = loop.target.id  # type: ignore[union-attr]
    env, reads = _row_reads(ctx, prog, fn, loop.lineno)
    ctx.need(reads, f'{FE}::_create_jobs: the read of the update\'s batch_updates row was not recognised')
    env[f'{spec}[{"job_id"!r}]'] = lf.sym(ci.REL)
    fl = ci.IdFlow(ci.REL, spec, env, {k: (v[0], v[1]['job_id'], v[1].get('parent_id')) for k, v in sinks_spec.items()})
    fl.run([st for st in fn.body if st.lineno < loop.lineno], FE)
    fl.run(loop.body, FE)
    vcons, vund, vneq = _validator_constraints(ctx, m)
    cons = list(fl.cons) + vcons
    und = list(fl.undecided) + vund
    neq = list(fl.neq) + vneq
    ctx.unit('accepted-path constraints on submitted ids', len(cons))
    ctx.unit('helpers inlined into _create_jobs', len(il.inlined))
    jsinks = [s for s in fl.sinks if s.table == 'jobs']
    psinks = [s for s in fl.sinks if s.table == 'job_parents']
    ctx.need(jsinks and psinks, f'{FE}::_create_jobs: rows appended to the jobs / job_parents argument lists not found')

    def verdict(goal, var: str, what: str):
        """('ok'|'bad'|decline) for `goal <= 0` on every accepted request."""
        # a constraint obtained inside a loop over a parent list says nothing when that list is empty: only constraints over the goal's own
        # symbols (and the range columns) can bound it for every request
        allowed = {var, ci.REL, ci.S, ci.NJ}
        status, c, diff = ci.decide(goal, var, [k for k in cons if set(k.le0.symbols()) <= allowed])
        if status == 'ok':
            return True, f'{what}: implied by `{c.text}` ({c.file}:{c.line})'
        blockers = [t for t, at in und if var in at]
        # a test on this id against a value the analysis has no normal form for (a non-linear expression, a column of another table)
        blockers += [f'{k.file}:{k.line}: `{k.text}` compares with {sorted(set(k.le0.symbols()) - ci.BASE)}' for k in cons
                     if var in k.le0.symbols() and (k.le0.coef[var] > 0) == (goal.coef.get(var, 0) > 0) and not set(k.le0.symbols()) <= ci.BASE]
        if status == 'unknown' or blockers:
            raise AnalysisError(f'{FE}::_create_jobs: cannot decide `{what}`: ' + ('; '.join(blockers[:3]) if blockers else f'`{c.text}` leaves {diff} <= 0 to be shown'))
        if status == 'lenient':
            sharpen = [t for t, at in neq if var in at]
            if sharpen:
                raise AnalysisError(f'{FE}::_create_jobs: cannot decide `{what}`: `{c.text}` is too weak by {_excess(diff)} but {sharpen[0]} may sharpen it')
            return False, f'{what} is not enforced: the only rejecting test on it, `{c.text}` ({c.file}:{c.line}), lets through values that exceed the bound by {_excess(diff)}'
        return False, f'{what} is not enforced: no rejecting test executed for every job bounds it'

    # ---- R2: start_job_id <= stored job id <= start_job_id + n_jobs - 1 -------------------------------------------------------------------
    msgs = []
    good = []
    for s in jsinks:
        ctx.need(ci.REL in s.job.symbols(), f'{FE}::_create_jobs: the job id stored in `jobs` ({s.job}) is not a linear function of the submitted job_id')
        lo_ok, lo_t = verdict(lf.sym(ci.S) - s.job, ci.REL, f'stored job id ({s.job}) >= start_job_id')
        hi_ok, hi_t = verdict(s.job - lf.sym(ci.S) - lf.sym(ci.NJ) + lf.const(1), ci.REL, f'stored job id ({s.job}) <= start_job_id + n_jobs - 1')
        (good if lo_ok else msgs).append(lo_t)
        (good if hi_ok else msgs).append(hi_t)
    ctx.check(not msgs, 'R2', f'{FE}::_create_jobs::job id within reserved range',
              '; '.join(msgs) + '. A bunch may then place a job outside the ids start_job_id .. start_job_id + n_jobs - 1 its update reserved: only the COUNT of staged jobs is checked at commit, so an update '
              'reserving n ids can be committed with one id of its range missing and one foreign id present (e.g. n_jobs = 3, bunches [1, 2] and [4 with in_update_parent_ids [3]]: job 4 waits for a job 3 that '
              'never exists; the foreign id also collides with the neighbouring update\'s range)', m.path, jsinks[0].line, detail=good)
    # the range compared against is the one of the update the jobs are recorded under
    rec, sel, args = reads[0]
    jl = [k for k, v in sinks_spec.items() if v[0] == 'jobs'][0]
    tup = None
    for n in ast.walk(loop):
        if isinstance(n, ast.Call) and isinstance(n.func, ast.Attribute) and n.func.attr == 'append' and isinstance(n.func.value, ast.Name) and n.func.value.id == jl and n.args and isinstance(n.args[0], ast.Tuple):
            tup = n.args[0]
    ctx.need(tup is not None, f'{FE}::_create_jobs: jobs tuple not found')
    for col in ('batch_id', 'update_id'):
        pinned = _pinned_arg(sel, args, col)
        i = sinks_spec[jl][1].get(col)
        ctx.need(pinned is not None and i is not None and i < len(tup.elts), f'{FE}::_create_jobs: the row read `{text(sel)[:80]}...` is not pinned to batch_updates.{col} = <python value>')  # type: ignore[union-attr]
        stored = tup.elts[i]  # type: ignore[union-attr,index]
        ctx.need(isinstance(pinned, ast.Name) and isinstance(stored, ast.Name) and _stores(fn, pinned.id) == 0 and _stores(fn, stored.id) == 0,
                 f'{FE}::_create_jobs: {col} of the range read / of the stored job is not a plain parameter')
        ctx.check(pinned.id == stored.id, 'R2', f'{FE}::_create_jobs::reserved range read for the job\'s own {col}',  # type: ignore[union-attr]
                  f'the reserved range is read from the batch_updates row with {col} = {pf.nsrc(pinned)} but the jobs are stored with {col} = {pf.nsrc(stored)}: ids are checked against another update\'s range',
                  m.path, loop.lineno)

    # ---- R1: 1 <= stored parent id <= stored job id - 1, edges stored under the job's own id ----------------------------------------------------
    fk = _has_parent_fk(prog)
    cons_key = f'{FE}::_create_jobs::parent ids -> job_parents'
    up_msgs, up_good, lo_msgs, lo_good = [], [], [], []
    seen_sources = set()
    for s in psinks:
        ctx.need(s.source in ('abs', 'rel') and s.parent is not None, f'{FE}::_create_jobs: a row is appended to the job_parents arguments outside a loop over the submitted parent ids')
        seen_sources.add(s.source)
        var = ci.P_ABS if s.source == 'abs' else ci.P_REL
        key = 'absolute_parent_ids' if s.source == 'abs' else 'in_update_parent_ids'
        ctx.need(var in s.parent.symbols(), f'{FE}::_create_jobs: the parent id stored for {key} ({s.parent}) is not a linear function of the submitted id')
        ctx.check(any(s.job == j.job for j in jsinks), 'R1', f'{cons_key}::edge stored under the job\'s own id ({key})',
                  f'the job_parents row of a job is stored with job_id = {s.job} while the job itself is stored with job_id = {jsinks[0].job}: the dependency is attached to another job', m.path, s.line)
        ok, t = verdict(s.parent - s.job + lf.const(1), var, f'{key}: stored parent id ({s.parent}) < stored job id ({s.job})')
        (up_good if ok else up_msgs).append(t)
        if not fk:
            ok, t = verdict(lf.const(1) - s.parent, var, f'{key}: stored parent id ({s.parent}) >= 1')
            (lo_good if ok else lo_msgs).append(t)
    ctx.need(seen_sources == {'abs', 'rel'}, f'{FE}::_create_jobs: parent ids of kind {sorted({"abs", "rel"} - seen_sources)} never reach job_parents (flow not recognised)')
    ctx.check(not up_msgs, 'R1', cons_key + '::parent < child', '; '.join(up_msgs) + '. A job may then name itself or a later job as parent (for in-update ids the comparison must be made in the same coordinates as '
              'the ids that are stored); its n_pending_parents never reaches 0 and the committed batch can never complete', m.path, psinks[0].line, detail=up_good)
    ctx.check(fk or not lo_msgs, 'R1', cons_key + '::parent exists', '; '.join(lo_msgs) + '; and there is no foreign key job_parents(batch_id, parent_id) -> jobs. A job may depend on a job id that '
              'never exists (e.g. parent 0); n_pending_parents never reaches 0', m.path, psinks[0].line, detail={'foreign_key': fk, 'bounds': lo_good})


def r3(ctx: Ctx) -> None:
    prog = sf.load_program()
    r = prog.routine('commit_batch_update')
    n = 0
    for st, guard in sf.guarded_statements(r.ast.body):
        if sf.written_tables(st):
            n += 1
            ok = any(p and text(c) == '(staging_n_jobs = expected_n_jobs)' for c, p in guard)
            ctx.check(ok, 'R3', f'{r.file}::commit_batch_update::{st.kind} {sf.written_tables(st)[0][0]}', 'this write of the commit happens without the staged job count having been found equal to the expected one',
                      r.file, r.line_of(st))
    ctx.need(n >= 4, 'commit_batch_update: fewer than four writes found')
    # the refusing branch
    refuse = None
    for st, guard in sf.guarded_statements(r.ast.body):
        if st.kind == 'txn' and st.what == 'ROLLBACK' and any((not p) and text(c) == '(staging_n_jobs = expected_n_jobs)' for c, p in guard):
            refuse = guard
    rc_ok = False
    for st, guard in sf.guarded_statements(r.ast.body):
        if st.kind == 'select' and not st.into and guard == refuse:
            for c, al in st.cols:
                if (al or '').lower() == 'rc' and c.kind == 'lit' and c.value not in (0, None):
                    rc_ok = True
    ctx.check(refuse is not None and rc_ok, 'R3', f'{r.file}::commit_batch_update::refusal', 'a wrong job count does not roll back and answer with a non-zero rc', r.file, r.line)
    m = pf.load(FE)
    fn = m.func('_commit_update')
    uses_check = any(isinstance(n_, ast.Call) and isinstance(n_.func, ast.Attribute) and n_.func.attr == 'check_call_procedure' for n_ in ast.walk(fn))
    ctx.check(uses_check, 'R3', f'{FE}::_commit_update::rc checked', 'the front end does not check the rc of commit_batch_update (check_call_procedure raises on rc != 0)', m.path, fn.lineno)
    # INFO: rc mismatch
    for n_ in ast.walk(fn):
        if isinstance(n_, ast.Compare) and "e.rv['rc']" in pf.nsrc(n_.left):
            ctx.info(f'_commit_update tests `{pf.nsrc(n_)}` but the procedure answers rc = 1 for a wrong job count: the client gets a 500 instead of the intended 400 (still rejected)')


def r4(ctx: Ctx) -> None:
    m = pf.load(FE)
    fn = m.func('_create_jobs.insert_jobs_into_db')
    ok = False
    for n in ast.walk(fn):
        if isinstance(n, ast.Try) and any(isinstance(c, ast.Call) and c.args and pf.const_str(c.args[0]) and 'job_parents' in pf.const_str(c.args[0]) for b in n.body for c in ast.walk(b)):
            for h in n.handlers:
                if h.type is not None and 'IntegrityError' in pf.nsrc(h.type):
                    for s in ast.walk(h):
                        if isinstance(s, ast.If) and '1062' in pf.nsrc(s.test) and _raises(s.body):
                            ok = True
    ctx.check(ok, 'R4', f'{FE}::_create_jobs.insert_jobs_into_db::duplicate parents', 'a duplicated (job, parent) pair is not answered with HTTP 400', m.path, fn.lineno)
    vm = pf.load(VAL)
    vfn = vm.func('validate_and_clean_jobs')
    from engines import linform as lf
    cur = {t.id for n in ast.walk(vfn) if isinstance(n, ast.Assign) and isinstance(n.value, ast.Subscript) and pf.const_str(n.value.slice) == 'job_id' for t in n.targets if isinstance(t, ast.Name)}
    prev = {t.id for n in ast.walk(vfn) if isinstance(n, ast.Assign) and isinstance(n.value, ast.Name) and n.value.id in cur for t in n.targets if isinstance(t, ast.Name)}
    ctx.need(cur and prev, f'{VAL}::validate_and_clean_jobs: current / previous job id variables not recognised')
    contiguous = False
    weaker = []
    for c, ifn in _rejecting_compares(vfn):
        names = pf.names_in(c)
        if not (names & cur and names & prev):
            continue
        ctx.need(len(c.ops) == 1, f'{VAL}::validate_and_clean_jobs: chained comparison `{pf.nsrc(c)}` of consecutive job ids not recognised')
        try:
            d = lf.lin(c.left) - lf.lin(c.comparators[0])
        except AnalysisError:
            raise AnalysisError(f'{VAL}::validate_and_clean_jobs: comparison `{pf.nsrc(c)}` of consecutive job ids is not linear')
        a = [x for x in d.symbols() if x in cur]
        b = [x for x in d.symbols() if x in prev]
        ctx.need(len(d.symbols()) == 2 and len(a) == 1 and len(b) == 1 and d.coef[a[0]] == -d.coef[b[0]] and abs(d.coef[a[0]]) == 1,
                 f'{VAL}::validate_and_clean_jobs: comparison `{pf.nsrc(c)}` of consecutive job ids not recognised')
        gap = -d.const * d.coef[a[0]]           # the test reads  cur - prev  OP  gap
        if isinstance(c.ops[0], ast.NotEq) and gap == 1:
            contiguous = True
        elif isinstance(c.ops[0], (ast.NotEq, ast.Lt, ast.LtE, ast.Gt, ast.GtE)):
            weaker.append(pf.nsrc(c))
        else:
            raise AnalysisError(f'{VAL}::validate_and_clean_jobs: comparison `{pf.nsrc(c)}` of consecutive job ids not recognised')
    ctx.check(contiguous, 'R4', f'{VAL}::validate_and_clean_jobs::contiguous ids', 'job ids within a bunch are not required to be contiguous (id = previous id + 1)'
              + (f': the only test is `{weaker[0]}`' if weaker else ''), vm.path, vfn.lineno)


def r6(ctx: Ctx) -> None:
    """The existence of the ids start .. start + n - 1 of a committed update is never checked row by row: commit_batch_update compares the STAGED job count
    of the update with batch_updates.n_jobs, and with the range check (R2) and the primary key of jobs that pins the set of ids.  This only works when the
    staged count is the number of job rows: each bunch stages once per inserted row, in the transaction that inserted the rows, and a replayed bunch
    (duplicate key on jobs) stages nothing."""
    m = pf.load(FE)
    fn = m.func('_create_jobs.insert_jobs_into_db')
    cons = f'{FE}::_create_jobs.insert_jobs_into_db'
    g = pf.cfg(fn)
    jobs_e = stage_e = None
    for e in sorted([e for e in sf.embedded_in(m) if e.fn is fn], key=lambda e: e.lineno):
        for st in e.stmts():
            if st.kind == 'insert' and isinstance(st.table, str):
                if st.table.lower() == 'jobs':
                    jobs_e = (e, st)
                if st.table.lower() == 'job_groups_inst_coll_staging':
                    stage_e = (e, st)
    ctx.need(jobs_e is not None and stage_e is not None, f'{cons}: INSERT INTO jobs / job_groups_inst_coll_staging not found')
    jn, sn = g.node_of(jobs_e[0].call), g.node_of(stage_e[0].call)
    ctx.need(len(jn) == 1 and len(sn) == 1, f'{cons}: CFG nodes of the inserts not found')
    # a transaction that commits (normal return) after the staging insert must have completed INSERT INTO jobs normally: in the graph without the normal
    # out-edges of the jobs insert (only its exceptional exits remain) no path entry -> staging insert -> normal exit may exist
    def no_success(a, b, lab):
        return not (a is jn[0] and lab != 'exc')
    reach_stage = sn[0].id in g.reachable_from(g.entry, edge_ok=no_success)
    stage_to_exit = g.exit.id in g.reachable_from(sn[0], edge_ok=no_success)
    before = jn[0].id in g.reachable_from(sn[0])
    ctx.check(not (reach_stage and stage_to_exit), 'R6', cons + '::staged once per inserted bunch',
              ('the staging counters are written before INSERT INTO jobs and the transaction still completes normally when that insert fails with a duplicate key (replayed bunch)' if before else
               'the staging insert is reached on a path on which INSERT INTO jobs did not complete (its duplicate-key branch or a path around it)') +
              ': a re-sent bunch adds its job count to job_groups_inst_coll_staging again although it inserted no row. commit_batch_update only compares the staged count with batch_updates.n_jobs, so an update '
              'reserving n ids is committed with an id of its range missing (e.g. n_jobs = 4: bunch [1, 2] delivered twice, bunch [3, 4] never: staged 4 = 4): a later job naming the missing id as parent '
              'waits forever', m.path, stage_e[0].lineno)
    # one staged job per spec
    outer = m.func('_create_jobs')
    loops = [n for n in outer.body if isinstance(n, ast.For) and any(isinstance(c, ast.Call) and pf.dotted(c.func) == 'jobs_args.append' for c in ast.walk(n))]
    ctx.need(len(loops) == 1, f'{FE}::_create_jobs: per-job loop not found')
    incs = [n for n in ast.walk(loops[0]) if isinstance(n, ast.AugAssign) and isinstance(n.target, ast.Subscript) and pf.const_str(n.target.slice) == 'n_jobs']
    ins, _dup, _uv = sr.insert_colmap(stage_e[1])
    elts = sr.args_tuple(fn, stage_e[0].call.args[1]) if len(stage_e[0].call.args) > 1 else None
    params = sr.params_in_order(stage_e[1])
    ctx.need(elts is not None and len(elts) == len(params) and ins.get('n_jobs') is not None and ins['n_jobs'].kind == 'param', f'{cons}: cannot bind the n_jobs column of the staging insert')
    staged = elts[[i for i, p_ in enumerate(params) if p_ is ins['n_jobs']][0]]  # type: ignore[index]
    ok = len(incs) == 1 and incs[0] in loops[0].body and isinstance(incs[0].op, ast.Add) and isinstance(incs[0].value, ast.Constant) and incs[0].value.value == 1 \
        and isinstance(staged, ast.Subscript) and pf.const_str(staged.slice) == 'n_jobs'
    if not ok:
        ctx.need(len(incs) >= 1 and all(isinstance(i.value, ast.Constant) for i in incs) and isinstance(staged, ast.Subscript), f'{FE}::_create_jobs: staged job count `{pf.nsrc(staged)}` / its increments not recognised')
    ctx.check(ok, 'R6', f'{FE}::_create_jobs::one staged job per inserted job', f'the staged job count (`{pf.nsrc(staged)}`) is not incremented by exactly 1, unconditionally, for every job of the bunch '
              f'(increments: {[pf.nsrc(i) for i in incs]}): staged count and number of job rows differ and the commit check no longer pins the set of ids', m.path, loops[0].lineno)
    # what the commit compares
    prog = sf.load_program()
    r = prog.routine('commit_batch_update')
    exp = stg = None
    for st in sf.all_statements(r.ast.body):
        if st.kind == 'select' and st.into and st.frm is not None:
            tabs = [t.lower() for t in sf.table_names(st.frm)]
            for (c, _al), v in zip(st.cols, st.into):
                if text(v).lower() == 'expected_n_jobs':
                    exp = tabs == ['batch_updates'] and c.kind == 'col' and c.parts[-1].lower() == 'n_jobs' and sr.has_eq(st.where, 'batch_id', 'in_batch_id') and sr.has_eq(st.where, 'update_id', 'in_update_id')
                if text(v).lower() == 'staging_n_jobs':
                    sums = [n for n in c.walk() if n.kind == 'func' and n.name.upper() == 'SUM' and len(n.args) == 1 and n.args[0].kind == 'col' and n.args[0].parts[-1].lower() == 'n_jobs']
                    stg = tabs == ['job_groups_inst_coll_staging'] and len(sums) == 1 and sr.has_eq(st.where, 'batch_id', 'in_batch_id') and sr.has_eq(st.where, 'update_id', 'in_update_id') \
                        and sr.has_eq(st.where, 'job_group_id', '0') and len(sf.conjuncts(st.where)) == 3
    ctx.need(exp is not None and stg is not None, 'commit_batch_update: reads of expected_n_jobs / staging_n_jobs not found')
    ctx.check(bool(exp) and bool(stg), 'R6', f'sql::commit_batch_update::compares staged count of the update with its reserved count',
              'expected_n_jobs is not batch_updates.n_jobs of (in_batch_id, in_update_id), or staging_n_jobs is not SUM(n_jobs) of the root job group\'s staging rows of that update: '
              'the commit check does not compare the number of delivered jobs with the number reserved', r.file, r.line)



def r7(ctx: Ctx) -> None:
    """`1 <= parent < job id` (R1) proves that a parent id lies in a RESERVED range, not that the job row exists: an earlier update that reserved ids and was
    abandoned (its client crashed between updates/create and commit; later updates are still accepted) leaves a hole.  A dependency on an id in the hole can
    never be satisfied, so the commit's recount of pending parents must not count it: decided as the contribution of the row class "parent has no jobs row"
    (every column of the outer-joined jobs row is NULL - a NULL class, nothing else about the row matters) to each aggregate of the recount, and from there,
    by linearity, to the expressions stored in jobs.n_pending_parents and tested for jobs.state."""
    from engines.sqleval import ev
    from engines import linform as lf
    prog = sf.load_program()
    r = prog.routine('commit_batch_update')
    ups = [st for st in sf.all_statements(r.ast.body) if st.kind == 'update' and any(c.kind == 'col' and c.parts[-1].lower() in ('n_pending_parents',) for c, _ in st.sets)]
    ctx.need(len(ups) == 1, f'commit_batch_update: expected one UPDATE that recounts jobs.n_pending_parents, found {len(ups)}')
    st = ups[0]
    der = [j.ref for j in st.frm.joins if j.ref.kind == 'derived'] + ([st.frm.first] if st.frm.first.kind == 'derived' else [])
    der = [d for d in der if 'job_parents' in [t.lower() for t in sf.table_names(d.select.frm)]]
    ctx.need(len(der) == 1 and der[0].alias, 'commit_batch_update: derived table over job_parents not recognised')
    t_alias = der[0].alias.lower()
    sel = der[0].select
    frm = sel.frm
    ctx.need(frm.first.kind == 'table' and frm.first.name.lower() == 'job_parents' and len(frm.joins) == 1 and frm.joins[0].ref.kind == 'table' and frm.joins[0].ref.name.lower() == 'jobs',
             'commit_batch_update: recount is not `job_parents [LEFT] JOIN jobs`')
    j = frm.joins[0]
    on_ok = any(c.kind == 'bin' and c.op == '=' and {text(c.left).lower().split('.')[-1], text(c.right).lower().split('.')[-1]} == {'job_id', 'parent_id'} for c in sf.conjuncts(j.on))
    ctx.need(on_ok, 'commit_batch_update: the recount does not join jobs on job_parents.parent_id')
    outer = 'LEFT' in (j.jtype or '').upper()
    jq = {(j.ref.alias or j.ref.name).lower(), j.ref.name.lower()}
    pq = {(frm.first.alias or frm.first.name).lower(), 'job_parents'}
    jobs_cols = {c.lower() for c in prog.tables.get('jobs', [])}
    par_cols = {c.lower() for c in prog.tables.get('job_parents', [])}
    ctx.need(jobs_cols and par_cols, 'schema of jobs / job_parents not found')

    class _NotNullClass(Exception):
        pass

    def env(n: N):
        if n.kind == 'col':
            col = n.parts[-1].lower()
            if len(n.parts) >= 2:
                if n.parts[-2].lower() in jq:
                    return None
            elif col in jobs_cols and col not in par_cols:
                return None
        raise _NotNullClass(text(n))

    def agg_contrib(e: N) -> Optional[int]:
        """what ONE edge whose parent has no jobs row adds to the aggregate (None = not recognised)."""
        if e.kind == 'cast':
            return agg_contrib(e.arg)
        if e.kind == 'func' and e.name.upper() in ('COALESCE', 'IFNULL') and len(e.args) == 2 and e.args[1].kind == 'lit' and e.args[1].value == 0:
            return agg_contrib(e.args[0])
        if e.kind == 'func' and e.name.upper() in ('SUM', 'COUNT') and len(e.args) == 1 and not getattr(e, 'distinct', False):
            if not outer:
                return 0                       # inner join: the edge is not in the group at all
            a = e.args[0]
            if a.kind == 'star':
                return 1 if e.name.upper() == 'COUNT' else None
            try:
                v = ev(a, env)
            except _NotNullClass:
                return None
            if e.name.upper() == 'COUNT':
                return 0 if v is None else 1
            if v is None:
                return 0                       # SUM skips NULL
            return int(v) if isinstance(v, (int, bool)) else None
        return None

    contrib = {}
    for c, al in sel.cols:
        if al is None:
            continue
        contrib[al.lower()] = agg_contrib(c)

    def lin(e: N):
        if e.kind == 'lit' and isinstance(e.value, int) and not isinstance(e.value, bool):
            return lf.const(e.value)
        if e.kind == 'cast':
            return lin(e.arg)
        if e.kind == 'func' and e.name.upper() in ('COALESCE', 'IFNULL') and len(e.args) == 2 and e.args[1].kind == 'lit' and e.args[1].value == 0:
            return lin(e.args[0])
        if e.kind == 'col' and len(e.parts) == 2 and e.parts[0].lower() == t_alias and e.parts[1].lower() in contrib:
            return lf.sym(e.parts[1].lower())
        if e.kind == 'bin' and e.op in ('+', '-'):
            a, b = lin(e.left), lin(e.right)
            return a + b if e.op == '+' else a - b
        raise AnalysisError(f'commit_batch_update: `{text(e)[:80]}` is not a linear combination of the recount\'s aggregates')

    def missing_part(e: N, what: str) -> int:
        le = lin(e)
        tot = 0
        for x, k in le.coef.items():
            ctx.need(contrib.get(x) is not None, f'commit_batch_update: aggregate `{x}` of the recount not recognised (needed for {what})')
            tot += k * contrib[x]
        return tot

    cons = 'sql::commit_batch_update::recount'
    hist = ('History: update 1 of a batch (batches/create, n_jobs = 2) reserves job ids 1-2 and is abandoned by its client; update 2 (updates/create) gets start_job_id 3; its job 3 names '
            'absolute_parent_ids [2]: 1 <= 2 < 3 passes the front-end check although job 2 has no row; update 2 is committed')
    for c, v in st.sets:
        if c.kind != 'col':
            continue
        col = c.parts[-1].lower()
        tq = c.parts[-2].lower() if len(c.parts) >= 2 else 'jobs'
        if tq != 'jobs':
            continue
        if col == 'n_pending_parents':
            k = missing_part(v, 'jobs.n_pending_parents')
            ctx.check(k == 0, 'R7', cons + '::missing parent is not pending (n_pending_parents)',
                      f'`n_pending_parents = {text(v)[:100]}` counts {k} for a dependency edge whose parent id has no jobs row (aggregates per such edge: '
                      f'{ {a: b for a, b in contrib.items()} }). {hist}: job 3 gets n_pending_parents = {k}; no job 2 will ever complete and decrement it, job 3 stays Pending, the batch never completes',
                      r.file, r.line_of(st))
        if col == 'state':
            ok_shape = v.kind == 'func' and v.name.upper() == 'IF' and len(v.args) == 3 and v.args[0].kind == 'bin' and v.args[0].op == '=' and \
                any(x.kind == 'lit' and x.value == 0 for x in (v.args[0].left, v.args[0].right)) and text(v.args[1]).strip("'") == 'Ready'
            ctx.need(ok_shape, f'commit_batch_update: `jobs.state = {text(v)[:80]}` is not IF(<count> = 0, \'Ready\', ..)')
            e = v.args[0].right if (v.args[0].left.kind == 'lit') else v.args[0].left
            k = missing_part(e, 'jobs.state')
            ctx.check(k == 0, 'R7', cons + '::missing parent is not pending (state)',
                      f'`state = {text(v)[:100]}` keeps a job Pending for a dependency edge whose parent id has no jobs row (the tested count gets {k} per such edge). {hist}: job 3 stays Pending forever',
                      r.file, r.line_of(st))



def _has_parent_fk(prog) -> bool:
    import re
    from engines.common import read_repo
    for s_ in prog.scripts:
        if s_.endswith('.sql'):
            src = read_repo(f'batch/sql/{s_}')
            if 'job_parents' in src and 'parent_id' in src and re.search(r'FOREIGN\s+KEY\s*\(\s*`?batch_id`?\s*,\s*`?parent_id`?\s*\)\s*REFERENCES\s+`?jobs`?', src, re.I):
                return True
    return False


def r8(ctx: Ctx) -> None:
    """R1 bounds a parent id by the job's own id; R2 + R6 + the primary key make the ids of an update exist once THAT update is committed.  A parent id below
    the update's own range therefore exists only if the earlier update that reserved it was committed (or is still going to be).  Some construct has to
    establish that: a refusal to open (or to commit) an update while an earlier one is uncommitted, a look-up of the named parents in `jobs`, or a foreign
    key.  The rule looks for the ingredients of each; none at all is a violation, an ingredient it cannot verify is declined."""
    m = pf.load(FE)
    prog = sf.load_program()
    cons = f'{FE}::_create_jobs::parent ids -> job_parents::parent row exists (ids reserved by earlier updates)'
    if _has_parent_fk(prog):
        ctx.ok('R8', cons, 'foreign key job_parents(batch_id, parent_id) -> jobs')
        return
    # (g1) opening an update looks at the committed flag of the previous one
    fn = m.func('_create_batch_update.update')
    g1 = []
    for e in [e for e in sf.embedded_in(m) if e.fn is fn]:
        for st in e.stmts():
            if st.kind != 'select' or 'batch_updates' not in [t.lower() for t in sf.table_names(st.frm)]:
                continue
            mentioned = [n for c, _ in st.cols for n in c.walk()] + (list(st.where.walk()) if st.where is not None else [])
            if any(n.kind == 'col' and n.parts[-1].lower() == 'committed' for n in mentioned) or any(n.kind == 'star' for c, _ in st.cols for n in c.walk()):
                g1.append(e)
    # (g2) committing an update looks at other updates of the batch
    r = prog.routine('commit_batch_update')
    g2 = []
    for st in sf.all_statements(r.ast.body):
        for n in st.walk():
            if n.kind == 'select' and n.frm is not None and 'batch_updates' in [t.lower() for t in sf.table_names(n.frm)]:
                for c in sf.conjuncts(n.where):
                    if c.kind == 'bin' and c.op in ('<', '<=', '!=', '<>', '>', '>=') and any(x.kind == 'col' and x.parts[-1].lower() == 'update_id' for x in (c.left, c.right)):
                        g2.append(text(n)[:80])
    # (g3) the bunch handler looks the named parents up
    g3 = []
    for e in sf.embedded_in(m):
        if e.qual.startswith('_create_jobs'):
            for st in e.stmts():
                if st.kind == 'select' and [t.lower() for t in sf.table_names(st.frm)] == ['jobs']:
                    g3.append(text(st)[:80])
    ingredients = [f'_create_batch_update reads batch_updates.committed (line {e.lineno})' for e in g1] + [f'commit_batch_update compares update ids: {t}' for t in g2] + \
                  [f'_create_jobs reads jobs: {t}' for t in g3]
    ctx.need(not ingredients, f'{cons}: a construct that may establish the existence of earlier updates\' jobs is present but not verified: ' + '; '.join(ingredients[:3]))
    ctx.bad('R8', cons, 'nothing establishes that a parent id below the update\'s own range names an existing job: `1 <= parent < job id` only places it in a reserved range, a new update is opened '
            'without looking at the committed flag of the earlier ones, the commit does not look at other updates, the parents are not looked up in `jobs` and job_parents.parent_id has no foreign key. '
            'History: POST batches/create {n_jobs: 2} reserves ids 1-2 as update 1 and the client dies; POST updates/create {n_jobs: 1} opens update 2 with start_job_id 3; its bunch '
            '[{job_id: 1, absolute_parent_ids: [2]}] is accepted (1 <= 2 < 3) and inserts job 3 with a job_parents row (3, 2) although job 2 does not exist: a submission naming a missing dependency is '
            'not rejected. (The commit\'s recount then finds no row for parent 2, counts it as not pending and not succeeded, so job 3 is marked cancelled instead of hanging - R7.)',
            m.path, m.func('_create_jobs').lineno)



ID_KEYS = ('job_id', 'parent_ids', 'absolute_parent_ids', 'in_update_parent_ids')


def _accepted_types(vm: pf.Module, e: ast.AST, depth: int = 5) -> Optional[Set[str]]:
    """Python types a hailtop.utils.validate validator expression lets through (element types for listof); None = not recognised."""
    if depth <= 0:
        return None
    if isinstance(e, ast.Name):
        table = {'int_type': {'int'}, 'str_type': {'str'}, 'bool_type': {'bool'}, 'non_empty_str_type': {'str'}}
        if e.id in table:
            return table[e.id]
        try:
            return _accepted_types(vm, vm.global_assign(e.id), depth - 1)
        except AnalysisError:
            return None
    if isinstance(e, ast.Call):
        f = (pf.dotted(e.func) or '').split('.')[-1]
        if f in ('listof', 'nullable') and len(e.args) == 1:
            inner = _accepted_types(vm, e.args[0], depth - 1)
            return None if inner is None else (inner | {'None'} if f == 'nullable' else inner)
        if f == 'numeric':
            return {'int', 'float'}
        if f == 'TypedValidator' and len(e.args) == 1:
            t = e.args[0]
            if isinstance(t, ast.Name):
                return {t.id}
            if isinstance(t, ast.Tuple) and all(isinstance(x, ast.Name) for x in t.elts):
                return {x.id for x in t.elts}  # type: ignore[attr-defined]
        if f in ('anyof', 'MultipleValidator'):
            return None
    return None


def r5(ctx: Ctx) -> None:
    """The ids of the dependency graph are integers at the API boundary: a fractional JSON number passes `parent < child` / `>= 1` as a
    float and is then rounded by the INT column (1.6 -> 2), so the stored edge is not the edge that was validated (self / forward edge)."""
    vm = pf.load(VAL)
    jv = vm.global_assign('job_validator')
    d = jv.args[0] if isinstance(jv, ast.Call) and jv.args and isinstance(jv.args[0], ast.Dict) else (jv if isinstance(jv, ast.Dict) else None)
    ctx.need(isinstance(d, ast.Dict), f'{VAL}::job_validator is not keyed(<dict literal>)')
    seen = set()
    for k, v in zip(d.keys, d.values):  # type: ignore[union-attr]
        key = pf.const_str(k.args[0]) if isinstance(k, ast.Call) and (pf.dotted(k.func) or '').split('.')[-1] == 'required' and k.args else pf.const_str(k) if k is not None else None
        if key not in ID_KEYS:
            continue
        seen.add(key)
        ts = _accepted_types(vm, v)
        ctx.need(ts is not None, f'{VAL}::job_validator[{key!r}]: validator `{pf.nsrc(v)}` not recognised')
        ctx.check(ts <= {'int'}, 'R5', f'{VAL}::job_validator::{key} is an integer', f'`{pf.nsrc(v)}` lets {sorted(ts - {"int"})} values through for {key}: e.g. parent id 1.6 on job 2 satisfies '  # type: ignore[operator]
                  '1 <= parent < child as a float and is stored as 2 by the INT column of job_parents -- a self dependency that never resolves', vm.path, getattr(v, 'lineno', 0))
    ctx.need(seen >= {'job_id', 'absolute_parent_ids', 'in_update_parent_ids'}, f'{VAL}::job_validator: id keys found: {sorted(seen)}')


def run(ctx: Ctx) -> None:
    ctx.explanation = 'Linear-normal-form implication between the rejecting tests of the job submission path and the id ranges the property demands, plus guard structure of commit_batch_update.'
    ctx.rule('R1', 'stored parent ids satisfy 1 <= parent < stored job id for absolute and in-update parents; edges stored under the job\'s own id', 4)
    ctx.rule('R2', 'stored job id lies in start_job_id .. start_job_id + n_jobs - 1 of the batch_updates row of the job\'s own (batch_id, update_id)', 3)
    ctx.rule('R3', 'commit refuses a wrong job count: all writes under the equality guard; refusal rolls back with rc != 0; front end checks rc', 7)
    ctx.rule('R4', 'duplicate parents rejected; contiguous job ids demanded', 2)
    ctx.rule('R5', 'job ids and parent ids are validated as integers (no fractional ids rounded by the INT columns after validation)', 4)
    ctx.rule('R6', 'the staged job count the commit compares is the number of inserted job rows: staged after INSERT INTO jobs, never by a replayed bunch, 1 per job; commit compares it with batch_updates.n_jobs', 3)
    ctx.rule('R7', 'the commit\'s recount of pending parents gives 0 for a dependency whose parent id has no jobs row (hole of an abandoned update), in n_pending_parents and in the state decision', 2)
    ctx.rule('R8', 'something establishes that a parent id reserved by an EARLIER update names an existing job (earlier updates committed before a new one is opened / committed, parents looked up, or a foreign key)', 1)
    # the rules are independent: a shape one of them cannot analyse must not hide the verdicts of the others
    declined: List[str] = []
    for rule in (r1_r2, r3, r4, r5, r6, r7, r8):
        try:
            rule(ctx)
        except AnalysisError as e:
            if type(e) is not AnalysisError:
                raise                      # AnchorRemoved and friends keep their own handling
            declined.append(str(e))
    ctx.need(not declined, ' | '.join(declined))
