"""C08 Accepted job graphs can always finish.

  R1  must-validate: the parent ids of a submitted job (request keys absolute_parent_ids / in_update_parent_ids, or anything derived
      from them) reach the job_parents / jobs inserts only after a comparison with the job's own id whose failing side rejects the
      request (HTTP 400 / ValidationError): (a) parent < child (no self / later dependency), (b) parent >= 1 or an existence guarantee
      (foreign key on job_parents.parent_id) (no missing dependency)
  R2  must-validate: the job id of a submitted job is compared with the update's reserved range before it is inserted
  R3  commit refuses a wrong job count: every write of commit_batch_update sits under staging_n_jobs = expected_n_jobs, the other
      branch rolls back and returns a non-zero rc, and the front end turns that into an error response
  R4  duplicate parents are rejected (ER_DUP_ENTRY on job_parents -> HTTP 400) and the job-spec validator demands contiguous job ids
  R5  the id fields of the job spec are validated as integers: the comparisons of R1/R2 are made on the value that is stored
Not decided: anything about graphs once R1 holds (with parent < child the dependency relation is acyclic by construction).
"""
from __future__ import annotations

import ast
from typing import List, Optional, Set, Tuple

from engines import pyfacts as pf
from engines import sqlfront as sf
from engines import sqlrules as sr
from engines.common import AnalysisError, Ctx
from engines.sqlast import N, text

META = dict(
    category='other',
    text='A must-validate taint rule over the submission path: sources are the parent-id / job-id request fields, sinks are the job_parents and jobs inserts, '
         'validators are comparisons against the job\'s own id / the reserved range whose failing branch rejects. Plus the guard structure of the commit procedure.',
    note='The rule demands that some rejecting comparison exists on the path; it does not prove the comparison is the right one beyond its operands and direction. '
         'Schema constraints are read from the replayed migrations.',
    technique='static analysis: source/sink/validator taint rule on the AST + guard dominance in the commit procedure',
    design_ref='DESIGN.md §3 C08',
)

FE = 'batch/batch/front_end/front_end.py'
VAL = 'batch/batch/front_end/validate.py'
PARENT_KEYS = {'absolute_parent_ids', 'in_update_parent_ids', 'parent_ids'}


def _raises(stmts: List[ast.stmt]) -> bool:
    for s in stmts:
        for n in ast.walk(s):
            if isinstance(n, ast.Raise) and n.exc is not None and any(k in pf.nsrc(n.exc) for k in ('HTTPBadRequest', 'ValidationError', 'HTTPUnprocessableEntity')):
                return True
    return False


def _tainted_names(fn: pf.FuncDef, seeds: Set[str]) -> Set[str]:
    """Names that (transitively) hold values derived from the seed names / request keys."""
    tainted = set(seeds)
    changed = True
    while changed:
        changed = False
        for n in pf.walk_shallow(fn):
            targets: List[str] = []
            value: Optional[ast.AST] = None
            if isinstance(n, ast.Assign):
                value = n.value
                for t in n.targets:
                    targets += [x.id for x in ast.walk(t) if isinstance(x, ast.Name)]
            elif isinstance(n, (ast.For, ast.AsyncFor)):
                value = n.iter
                targets = [x.id for x in ast.walk(n.target) if isinstance(x, ast.Name)]
            elif isinstance(n, ast.comprehension):
                value = n.iter
                targets = [x.id for x in ast.walk(n.target) if isinstance(x, ast.Name)]
            if value is None:
                continue
            src_names = pf.names_in(value)
            keys = {pf.const_str(s.slice) for s in ast.walk(value) if isinstance(s, ast.Subscript)} | \
                   {pf.const_str(c.args[0]) for c in ast.walk(value) if isinstance(c, ast.Call) and c.args and isinstance(c.func, ast.Attribute) and c.func.attr in ('pop', 'get')}
            if (src_names & tainted) or (keys & seeds):
                for t in targets:
                    if t not in tainted:
                        tainted.add(t)
                        changed = True
    # comprehension variables inside expressions
    for n in ast.walk(fn):
        if isinstance(n, ast.comprehension) and (pf.names_in(n.iter) & tainted):
            for x in ast.walk(n.target):
                if isinstance(x, ast.Name):
                    tainted.add(x.id)
    return tainted


def _rejecting_compares(fn: pf.FuncDef) -> List[Tuple[ast.Compare, ast.AST]]:
    """Compare nodes sitting in the test of an `if` whose body rejects the request (or in a loop under such an if)."""
    out = []
    for n in ast.walk(fn):
        if isinstance(n, ast.If) and _raises(n.body):
            for c in ast.walk(n.test):
                if isinstance(c, ast.Compare):
                    out.append((c, n))
    return out


def _mentions(e: ast.AST, names: Set[str], keys: Set[str] = frozenset()) -> bool:
    if pf.names_in(e) & names:
        return True
    for s in ast.walk(e):
        if isinstance(s, ast.Subscript) and pf.const_str(s.slice) in keys:
            return True
    return False


def r1_r2(ctx: Ctx) -> None:
    m = pf.load(FE)
    fn = m.func('_create_jobs')
    vm = pf.load(VAL)
    vfn = vm.func('validate_and_clean_jobs')
    helpers = [vm.func(n) for n in ('handle_job_backwards_compatibility',) if vm.has_func(n)]
    # sinks must exist
    sinks = [n for n in pf.walk_shallow(fn) if isinstance(n, ast.Call) and pf.dotted(n.func) == 'job_parents_args.append']
    ctx.need(len(sinks) == 1, '_create_jobs: job_parents sink not found')
    parents = _tainted_names(fn, set(PARENT_KEYS))
    ctx.need('parent_ids' in parents and 'parent_id' in parents, '_create_jobs: parent id flow not recognised')
    own = {'job_id'}
    found_upper = found_lower = False
    sites = []
    for c, ifn in _rejecting_compares(fn):
        if ifn.lineno > sinks[0].lineno:
            continue
        sides = [c.left] + list(c.comparators)
        if any(_mentions(s, parents) for s in sides) and any(_mentions(s, own | {'update_start_job_id'}, {'job_id'}) for s in sides):
            found_upper = True
            sites.append(f'{m.rel}:{c.lineno} {pf.nsrc(c)}')
        if any(_mentions(s, parents) for s in sides) and any(isinstance(s, ast.Constant) and s.value in (0, 1) for s in sides):
            found_lower = True
            sites.append(f'{m.rel}:{c.lineno} {pf.nsrc(c)}')
    for f2 in [vfn] + helpers:
        vp = _tainted_names(f2, set(PARENT_KEYS))
        for c, ifn in _rejecting_compares(f2):
            sides = [c.left] + list(c.comparators)
            if any(_mentions(s, vp, PARENT_KEYS) for s in sides) and any(_mentions(s, {'job_id'}, {'job_id'}) for s in sides):
                found_upper = True
                sites.append(f'{vm.rel}:{c.lineno} {pf.nsrc(c)}')
            if any(_mentions(s, vp, PARENT_KEYS) for s in sides) and any(isinstance(s, ast.Constant) and s.value in (0, 1) for s in sides):
                found_lower = True
                sites.append(f'{vm.rel}:{c.lineno} {pf.nsrc(c)}')
    prog = sf.load_program()
    fk = False
    for s in prog.scripts:
        if s.endswith('.sql'):
            from engines.common import read_repo
            src = read_repo(f'batch/sql/{s}')
            if 'job_parents' in src and 'parent_id' in src:
                import re
                if re.search(r'FOREIGN\s+KEY\s*\(\s*`?batch_id`?\s*,\s*`?parent_id`?\s*\)\s*REFERENCES\s+`?jobs`?', src, re.I):
                    fk = True
    cons = f'{FE}::_create_jobs::parent ids -> job_parents'
    ctx.check(found_upper, 'R1', cons + '::parent < child', 'no comparison of a submitted parent id with the job\'s own id rejects the request before the job_parents insert (neither in _create_jobs nor in the '
              'job-spec validator): a job may name itself or a later job as parent; its n_pending_parents then never reaches 0 and the committed batch can never complete', m.path, sinks[0].lineno,
              detail=sites)
    ctx.check(found_lower or fk, 'R1', cons + '::parent exists', 'a submitted parent id is neither bounded below (>= 1) with parent < child, nor protected by a foreign key job_parents(batch_id, parent_id) -> jobs: '
              'a job may depend on a job that does not exist; n_pending_parents never reaches 0', m.path, sinks[0].lineno, detail={'foreign_key': fk, 'sites': sites})
    # R2: job id range
    jsink = [n for n in pf.walk_shallow(fn) if isinstance(n, ast.Call) and pf.dotted(n.func) == 'jobs_args.append']
    ctx.need(len(jsink) == 1, '_create_jobs: jobs sink not found')
    rng = False
    range_names = {'update_n_jobs', 'n_jobs', 'update_end_job_id', 'end_job_id'}
    for c, ifn in _rejecting_compares(fn):
        if ifn.lineno > jsink[0].lineno:
            continue
        sides = [c.left] + list(c.comparators)
        if any(_mentions(s, {'job_id'}, {'job_id'}) for s in sides) and any(_mentions(s, range_names, {'n_jobs'}) for s in sides):
            rng = True
    ctx.check(rng, 'R2', f'{FE}::_create_jobs::job id within reserved range', 'the submitted job_id is never compared with the update\'s reserved range (start_job_id .. start_job_id + n_jobs - 1) before the insert: '
              'a bunch may place jobs outside the range its update reserved (only the COUNT of jobs is checked at commit), colliding with ids a later update reserves', m.path, jsink[0].lineno)


def r3(ctx: Ctx) -> None:
    prog = sf.load_program()
    r = prog.routine('commit_batch_update')
    n = 0
    for st, guard in sf.guarded_statements(r.ast.body):
        if sf.written_tables(st):
            n += 1
            ok = any(p and text(c) == '(staging_n_jobs = expected_n_jobs)' for c, p in guard)
            ctx.check(ok, 'R3', f'{r.file}::commit_batch_update::{st.kind} {sf.written_tables(st)[0][0]}', 'this write of the commit happens without the staged job count having been found equal to the expected one',
                      r.file, r.line_of(st))
    ctx.need(n >= 4, 'commit_batch_update: fewer than four writes found')
    # the refusing branch
    refuse = None
    for st, guard in sf.guarded_statements(r.ast.body):
        if st.kind == 'txn' and st.what == 'ROLLBACK' and any((not p) and text(c) == '(staging_n_jobs = expected_n_jobs)' for c, p in guard):
            refuse = guard
    rc_ok = False
    for st, guard in sf.guarded_statements(r.ast.body):
        if st.kind == 'select' and not st.into and guard == refuse:
            for c, al in st.cols:
                if (al or '').lower() == 'rc' and c.kind == 'lit' and c.value not in (0, None):
                    rc_ok = True
    ctx.check(refuse is not None and rc_ok, 'R3', f'{r.file}::commit_batch_update::refusal', 'a wrong job count does not roll back and answer with a non-zero rc', r.file, r.line)
    m = pf.load(FE)
    fn = m.func('_commit_update')
    uses_check = any(isinstance(n_, ast.Call) and isinstance(n_.func, ast.Attribute) and n_.func.attr == 'check_call_procedure' for n_ in ast.walk(fn))
    ctx.check(uses_check, 'R3', f'{FE}::_commit_update::rc checked', 'the front end does not check the rc of commit_batch_update (check_call_procedure raises on rc != 0)', m.path, fn.lineno)
    # INFO: rc mismatch
    for n_ in ast.walk(fn):
        if isinstance(n_, ast.Compare) and "e.rv['rc']" in pf.nsrc(n_.left):
            ctx.info(f'_commit_update tests `{pf.nsrc(n_)}` but the procedure answers rc = 1 for a wrong job count: the client gets a 500 instead of the intended 400 (still rejected)')


def r4(ctx: Ctx) -> None:
    m = pf.load(FE)
    fn = m.func('_create_jobs.insert_jobs_into_db')
    ok = False
    for n in ast.walk(fn):
        if isinstance(n, ast.Try) and any(isinstance(c, ast.Call) and c.args and pf.const_str(c.args[0]) and 'job_parents' in pf.const_str(c.args[0]) for b in n.body for c in ast.walk(b)):
            for h in n.handlers:
                if h.type is not None and 'IntegrityError' in pf.nsrc(h.type):
                    for s in ast.walk(h):
                        if isinstance(s, ast.If) and '1062' in pf.nsrc(s.test) and _raises(s.body):
                            ok = True
    ctx.check(ok, 'R4', f'{FE}::_create_jobs.insert_jobs_into_db::duplicate parents', 'a duplicated (job, parent) pair is not answered with HTTP 400', m.path, fn.lineno)
    vm = pf.load(VAL)
    vfn = vm.func('validate_and_clean_jobs')
    contiguous = False
    for c, ifn in _rejecting_compares(vfn):
        if pf.nsrc(c) in ('job_id != prev_job_id + 1', 'prev_job_id + 1 != job_id'):
            contiguous = True
    ctx.check(contiguous, 'R4', f'{VAL}::validate_and_clean_jobs::contiguous ids', 'job ids within a bunch are not required to be contiguous', vm.path, vfn.lineno)


ID_KEYS = ('job_id', 'parent_ids', 'absolute_parent_ids', 'in_update_parent_ids')


def _accepted_types(vm: pf.Module, e: ast.AST, depth: int = 5) -> Optional[Set[str]]:
    """Python types a hailtop.utils.validate validator expression lets through (element types for listof); None = not recognised."""
    if depth <= 0:
        return None
    if isinstance(e, ast.Name):
        table = {'int_type': {'int'}, 'str_type': {'str'}, 'bool_type': {'bool'}, 'non_empty_str_type': {'str'}}
        if e.id in table:
            return table[e.id]
        try:
            return _accepted_types(vm, vm.global_assign(e.id), depth - 1)
        except AnalysisError:
            return None
    if isinstance(e, ast.Call):
        f = (pf.dotted(e.func) or '').split('.')[-1]
        if f in ('listof', 'nullable') and len(e.args) == 1:
            inner = _accepted_types(vm, e.args[0], depth - 1)
            return None if inner is None else (inner | {'None'} if f == 'nullable' else inner)
        if f == 'numeric':
            return {'int', 'float'}
        if f == 'TypedValidator' and len(e.args) == 1:
            t = e.args[0]
            if isinstance(t, ast.Name):
                return {t.id}
            if isinstance(t, ast.Tuple) and all(isinstance(x, ast.Name) for x in t.elts):
                return {x.id for x in t.elts}  # type: ignore[attr-defined]
        if f in ('anyof', 'MultipleValidator'):
            return None
    return None


def r5(ctx: Ctx) -> None:
    """The ids of the dependency graph are integers at the API boundary: a fractional JSON number passes `parent < child` / `>= 1` as a
    float and is then rounded by the INT column (1.6 -> 2), so the stored edge is not the edge that was validated (self / forward edge)."""
    vm = pf.load(VAL)
    jv = vm.global_assign('job_validator')
    d = jv.args[0] if isinstance(jv, ast.Call) and jv.args and isinstance(jv.args[0], ast.Dict) else (jv if isinstance(jv, ast.Dict) else None)
    ctx.need(isinstance(d, ast.Dict), f'{VAL}::job_validator is not keyed(<dict literal>)')
    seen = set()
    for k, v in zip(d.keys, d.values):  # type: ignore[union-attr]
        key = pf.const_str(k.args[0]) if isinstance(k, ast.Call) and (pf.dotted(k.func) or '').split('.')[-1] == 'required' and k.args else pf.const_str(k) if k is not None else None
        if key not in ID_KEYS:
            continue
        seen.add(key)
        ts = _accepted_types(vm, v)
        ctx.need(ts is not None, f'{VAL}::job_validator[{key!r}]: validator `{pf.nsrc(v)}` not recognised')
        ctx.check(ts <= {'int'}, 'R5', f'{VAL}::job_validator::{key} is an integer', f'`{pf.nsrc(v)}` lets {sorted(ts - {"int"})} values through for {key}: e.g. parent id 1.6 on job 2 satisfies '  # type: ignore[operator]
                  '1 <= parent < child as a float and is stored as 2 by the INT column of job_parents -- a self dependency that never resolves', vm.path, getattr(v, 'lineno', 0))
    ctx.need(seen >= {'job_id', 'absolute_parent_ids', 'in_update_parent_ids'}, f'{VAL}::job_validator: id keys found: {sorted(seen)}')


def run(ctx: Ctx) -> None:
    ctx.explanation = 'Must-validate taint rule over the job submission path plus guard structure of commit_batch_update.'
    ctx.rule('R1', 'parent ids are validated against the job\'s own id (parent < child, parent exists) before reaching job_parents', 2)
    ctx.rule('R2', 'job id is validated against the update\'s reserved range before reaching jobs', 1)
    ctx.rule('R3', 'commit refuses a wrong job count: all writes under the equality guard; refusal rolls back with rc != 0; front end checks rc', 7)
    ctx.rule('R4', 'duplicate parents rejected; contiguous job ids demanded', 2)
    ctx.rule('R5', 'job ids and parent ids are validated as integers (no fractional ids rounded by the INT columns after validation)', 4)
    r1_r2(ctx)
    r3(ctx)
    r4(ctx)
    r5(ctx)
