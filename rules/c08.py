"""C08 Accepted job graphs can always finish.

  R1  the parent ids that are STORED in job_parents satisfy  1 <= parent  (or a foreign key job_parents(batch_id, parent_id) -> jobs exists)  and
      parent <= stored job id - 1  for both kinds of submitted parents (absolute_parent_ids, in_update_parent_ids), and the edges are stored under the
      job's own stored id.  Decided by abstract execution of the per-job loop of _create_jobs (module-level helpers inlined, plus the job-spec
      validator when every caller validates first) over SYMBOLIC linear values (engines/c08ids.py): every rejecting test that is executed for
      every job contributes the negation of its condition as a linear constraint; a bound holds when one constraint implies it for every valuation,
      it is violated when no test bounds the id at all or every test on it leaves a positive excess (off-by-one, comparison made in the wrong
      coordinates, only some parents checked); anything else is declined.
  R2  the job id that is STORED in jobs satisfies  start_job_id <= id <= start_job_id + n_jobs - 1  where start_job_id / n_jobs are the columns of
      the batch_updates row read for the very (batch_id, update_id) the job is stored under; `record[...]` values are resolved through the SELECT
      list (arithmetic done in SQL, e.g. `start_job_id + n_jobs AS end_job_id`, is seen as the linear form it is)
  R3  commit refuses a wrong job count: every write of commit_batch_update sits under staging_n_jobs = expected_n_jobs, the other
      branch rolls back and returns a non-zero rc, and the front end turns that into an error response
  R4  duplicate parents are rejected (ER_DUP_ENTRY on job_parents -> HTTP 400) and the job-spec validator demands contiguous job ids
      (current id - previous id != 1 rejects, compared as linear forms)
  R5  the id fields of the job spec are validated as integers: the comparisons of R1/R2 are made on the value that is stored
  R6  the staged job count that commit_batch_update compares with batch_updates.n_jobs is the number of job rows of the update: the staging insert is
      dominated by INSERT INTO jobs in the bunch transaction and is not reachable from its duplicate-key (replayed bunch) branch; one staged job per
      spec; the commit reads SUM(n_jobs) of the update's root staging rows and n_jobs of the update's own row
  R7  the recount of pending parents in commit_batch_update (updates after the first) contributes 0 for a dependency edge whose parent id has no jobs
      row: R1 only proves that a parent id lies in a reserved range, an abandoned earlier update leaves a hole there; decided from the contribution of
      the NULL row class to each aggregate of the derived table and linearity of the stored expressions
  R8  existence of parents below the update's own range: R1/R2/R6 make the ids of an update exist once THAT update is committed; for ids reserved by an
      earlier update some construct must establish existence (refusal to open or commit an update while an earlier one is uncommitted, look-up of the
      parents in jobs, foreign key).  None is present today: known finding (the acceptance clause is violated; R7 keeps such batches completable)
  R9  jobs.n_pending_parents never exceeds the number of job_parents rows stored for the job (mark_job_complete decrements once per row; no recount at the commit
      of the first update): cardinality normal forms of the list the count is taken of and of the lists the rows are built from (|L| / distinct(X) symbols,
      distinct(X) = |X| - dup(X)); rows repeating a key are refused by the primary key (R4)
  Call-site specialisation (R1/R2): option parameters of _create_jobs that callers bind to literals are propagated and the tests folded; the job-spec validator is
      analysed with each caller's arguments; a bound against a number the request states is no bound when the update it lands on may be an existing one
      (token replay returns the stored row without comparing n_jobs)
Not decided: anything about graphs once R1 holds (with parent < child the dependency relation is acyclic by construction).
"""
from __future__ import annotations

import ast
from typing import List, Optional, Set, Tuple

from engines import pyfacts as pf
from engines import sqlfront as sf
from engines import sqlrules as sr
from engines.common import AnalysisError, Ctx
from engines.sqlast import N, text

META = dict(
    category='other',
    text='The ids stored by the submission path are shown to lie in the ranges the property demands: abstract execution of the per-job loop over symbolic linear values, '
         'rejecting tests as linear constraints, implication decided by comparing normal forms (sources: request fields and the batch_updates row, resolved through the SELECT list; '
         'sinks: the tuples bound to the jobs / job_parents inserts). Plus the guard structure of the commit procedure and the integer-ness of the id fields.',
    note='Call sites of _create_jobs that bind its option parameters to literals are analysed separately (literal propagation + folding); hailtop.utils.validate validators are trusted not to rewrite the spec. '
         'One-constraint implications only (no elimination across several constraints: such shapes are declined). start_job_id >= 1 and n_jobs >= 0 are assumed for the update row. '
         'Schema constraints are read from the replayed migrations.',
    technique='static analysis: abstract execution over symbolic linear forms with helper inlining, comparison of linear normal forms (Python and SQL select list), guard dominance in the commit procedure, call-site specialisation, cardinality normal forms of list expressions',
    design_ref='DESIGN.md §3 C08',
)

FE = 'batch/batch/front_end/front_end.py'
VAL = 'batch/batch/front_end/validate.py'


def _raises(stmts: List[ast.stmt]) -> bool:
    for s in stmts:
        for n in ast.walk(s):
            if isinstance(n, ast.Raise) and n.exc is not None and any(k in pf.nsrc(n.exc) for k in ('HTTPBadRequest', 'ValidationError', 'HTTPUnprocessableEntity')):
                return True
    return False


def _rejecting_compares(fn: pf.FuncDef) -> List[Tuple[ast.Compare, ast.AST]]:
    """Compare nodes sitting in the test of an `if` whose body rejects the request (or in a loop under such an if)."""
    out = []
    for n in ast.walk(fn):
        if isinstance(n, ast.If) and _raises(n.body):
            for c in ast.walk(n.test):
                if isinstance(c, ast.Compare):
                    out.append((c, n))
    return out


# ---- R1 / R2: the ids that are STORED lie in the ranges the property demands ----------------------------------------------------------
#
# Decided by comparing linear normal forms (engines/c08ids.py): the per-job loop of _create_jobs (module-level helpers inlined) is executed
# abstractly over the symbols  rel_job_id (what the client sent), start_job_id / n_jobs (columns of the update's batch_updates row, resolved
# through the SELECT that feeds `record[...]`, so arithmetic done in SQL is seen), parent[absolute] / parent[in_update].  Every rejecting
# test that dominates the rest of the loop body contributes the negation of its condition as a constraint  L <= 0; the tuples appended to
# the jobs / job_parents argument lists give the stored ids.  A bound holds when one constraint implies it for every valuation of the
# symbols; it is VIOLATED when every constraint on that symbol leaves an excess that is positive for some valuation (off-by-one, wrong
# coordinates) or when no rejecting test bounds the symbol at all.

def _sql_lin(prog, st: N, e: N):
    """linear form of a SQL select-list expression over the columns of batch_updates (other columns: opaque symbols)."""
    from engines import linform as lf
    from engines import c08ids as ci
    if e.kind == 'lit' and isinstance(e.value, int) and not isinstance(e.value, bool):
        return lf.const(e.value)
    if e.kind == 'col':
        tabs = sf.from_tables(st.frm)
        col = e.parts[-1].lower()
        owner = None
        if len(e.parts) >= 2:
            q = e.parts[-2].lower()
            for t in tabs:
                if t.kind == 'table' and q in ((t.alias or '').lower(), t.name.lower()):
                    owner = t.name.lower()
        else:
            have = [t.name.lower() for t in tabs if t.kind == 'table' and col in [c.lower() for c in prog.tables.get(t.name, prog.tables.get(t.name.lower(), []))]]
            if len(have) == 1:
                owner = have[0]
        if owner == 'batch_updates' and col == 'start_job_id':
            return lf.sym(ci.S)
        if owner == 'batch_updates' and col == 'n_jobs':
            return lf.sym(ci.NJ)
        return lf.sym(f'sql:{owner or "?"}.{col}')
    if e.kind == 'bin' and e.op in ('+', '-'):
        a, b = _sql_lin(prog, st, e.left), _sql_lin(prog, st, e.right)
        return a + b if e.op == '+' else a - b
    if e.kind == 'bin' and e.op == '*':
        a, b = _sql_lin(prog, st, e.left), _sql_lin(prog, st, e.right)
        if a.is_const():
            return b.scale(a.const)
        if b.is_const():
            return a.scale(b.const)
    if e.kind == 'cast':
        return _sql_lin(prog, st, e.arg)
    return lf.sym(f'sql:{text(e)}')


def _stores(fn: pf.FuncDef, name: str) -> int:
    return sum(1 for n in ast.walk(fn) if isinstance(n, ast.Name) and n.id == name and isinstance(n.ctx, (ast.Store, ast.Del)))


def _row_reads(ctx: Ctx, prog, fn: pf.FuncDef, upto: int):
    """`rec = await db.select_and_fetchone(<SELECT ... FROM batch_updates ...>, args)` statements at the top level of fn before line `upto`:
    returns (env entries for rec['col'], [(rec, select stmt, python args)])."""
    from engines.sqlast import parse_statements, SqlParseError
    env = {}
    reads = []
    for st in fn.body:
        if st.lineno >= upto:
            break
        if not (isinstance(st, ast.Assign) and len(st.targets) == 1 and isinstance(st.targets[0], ast.Name)):
            continue
        v = st.value.value if isinstance(st.value, ast.Await) else st.value
        if not (isinstance(v, ast.Call) and isinstance(v.func, ast.Attribute) and v.func.attr in ('select_and_fetchone', 'execute_and_fetchone') and v.args):
            continue
        sql, holes, how = sf._sql_of_expr(fn, v.args[0])
        if sql is None:
            continue
        try:
            sts = parse_statements(sql)
        except SqlParseError as e:
            raise AnalysisError(f'{FE}::_create_jobs: SQL of `{st.targets[0].id} = ...` not parsed: {e}')
        if len(sts) != 1 or sts[0].kind != 'select' or 'batch_updates' not in [t.lower() for t in sf.table_names(sts[0].frm)]:
            continue
        rec = st.targets[0].id
        ctx.need(_stores(fn, rec) == 1, f'{FE}::_create_jobs: `{rec}` is assigned more than once')
        for c, al in sts[0].cols:
            name = al or (c.parts[-1] if c.kind == 'col' else None)
            if name is None:
                continue
            env[f'{rec}[{name!r}]'] = _sql_lin(prog, sts[0], c)
        reads.append((rec, sts[0], sr.args_tuple(fn, v.args[1]) if len(v.args) > 1 else None))
    return env, reads


def _pinned_arg(sel: N, args, column: str) -> Optional[ast.AST]:
    """the python expression compared for equality with batch_updates.<column> in the WHERE clause of the row read."""
    if args is None:
        return None
    params = sr.params_in_order(sel)
    for c in sf.conjuncts(sel.where):
        if c.kind == 'bin' and c.op == '=':
            for a, b in ((c.left, c.right), (c.right, c.left)):
                if a.kind == 'col' and a.parts[-1].lower() == column and (len(a.parts) == 1 or a.parts[-2].lower() in _aliases(sel, 'batch_updates')) and b.kind == 'param':
                    idx = [i for i, p in enumerate(params) if p is b]
                    if idx and idx[0] < len(args):
                        return args[idx[0]]
    return None


def _aliases(sel: N, table: str) -> Set[str]:
    out = set()
    for t in sf.from_tables(sel.frm):
        if t.kind == 'table' and t.name.lower() == table:
            out.add(table)
            if t.alias:
                out.add(t.alias.lower())
    return out


def _insert_sinks(ctx: Ctx, m: pf.Module):
    """argument lists of the INSERT INTO jobs / job_parents execute_many calls inside _create_jobs: list name -> (table, {column: tuple index})."""
    out = {}
    for e in sf.embedded_in(m):
        if not e.qual.startswith('_create_jobs') or e.method not in ('execute_many', 'executemany') or len(e.call.args) < 2:
            continue
        sts = e.stmts()
        if len(sts) != 1 or sts[0].kind != 'insert':
            continue
        tname = (sts[0].table if isinstance(sts[0].table, str) else getattr(sts[0].table, 'name', '')).lower()
        if tname not in ('jobs', 'job_parents'):
            continue
        ins, _dup, _uv = sr.insert_colmap(sts[0])
        params = sr.params_in_order(sts[0])
        idx = {}
        for col, ex in ins.items():
            if ex.kind == 'param':
                idx[col] = [i for i, p in enumerate(params) if p is ex][0]
        lst = e.call.args[1]
        ctx.need(isinstance(lst, ast.Name), f'{FE}::{e.qual}: rows of INSERT INTO {tname} are not passed as a named list')
        out[lst.id] = (tname, idx)  # type: ignore[union-attr]
    return out


def _excess(diff) -> str:
    return f'{diff}' if not diff.is_const() else f'{diff.const}'


def _spec_loop(ctx: Ctx, fn: pf.FuncDef, lists: Set[str], what: str):
    loops = [n for n in fn.body if isinstance(n, ast.For) and any(isinstance(c, ast.Call) and isinstance(c.func, ast.Attribute) and c.func.attr in ('append', 'extend')
                                                                    and isinstance(c.func.value, ast.Name) and c.func.value.id in lists for c in ast.walk(n))]
    ctx.need(len(loops) == 1 and isinstance(loops[0].target, ast.Name) and not loops[0].orelse, f'{what}: the per-job loop that fills {sorted(lists)} was not recognised')
    return loops[0]


# ---- call-site specialisation ------------------------------------------------------------------------------------------------------------
#
# `_create_jobs(..., job_ids_checked=True)`: a check that is switched off for SOME callers must be judged for those callers, with what they do instead.
# Parameters that have a default and are bound to a literal at a call site are replaced by that literal and the tests are folded (constant
# propagation over literals only); the job-spec validator is analysed with the arguments each caller gives it (a literal is propagated, any other
# argument becomes a symbol of its own: `caller:<expression>`; `<param> is None` on such a parameter is a case split, both cases are analysed).

def _bind(fdef: pf.FuncDef, call: ast.Call) -> Optional[Dict[str, ast.expr]]:
    a = fdef.args
    if a.vararg or a.kwarg or any(isinstance(x, ast.Starred) for x in call.args) or any(k.arg is None for k in call.keywords):
        return None
    pos = [x.arg for x in a.posonlyargs + a.args]
    params = pos + [x.arg for x in a.kwonlyargs]
    if len(call.args) > len(pos):
        return None
    out: Dict[str, ast.expr] = dict(zip(pos, call.args))
    for k in call.keywords:
        if k.arg in out or k.arg not in params:
            return None
        out[k.arg] = k.value  # type: ignore[index]
    defaults = dict(zip(pos[len(pos) - len(a.defaults):], a.defaults))
    defaults.update({x.arg: d for x, d in zip(a.kwonlyargs, a.kw_defaults) if d is not None})
    for p_ in params:
        if p_ not in out:
            if p_ not in defaults:
                return None
            out[p_] = defaults[p_]
    return out


def _with_default(fdef: pf.FuncDef) -> Set[str]:
    a = fdef.args
    pos = [x.arg for x in a.posonlyargs + a.args]
    return set(pos[len(pos) - len(a.defaults):]) | {x.arg for x, d in zip(a.kwonlyargs, a.kw_defaults) if d is not None}


def _is_lit(e: ast.AST) -> bool:
    return isinstance(e, ast.Constant) and (e.value is None or isinstance(e.value, (bool, int, str)))


class _Fold(ast.NodeTransformer):
    """substitute literals for names and fold the boolean structure around them (literals only; nothing else is evaluated)."""

    def __init__(self, consts: Dict[str, ast.Constant], none_case: Dict[str, bool]):
        self.consts = consts
        self.none_case = none_case          # parameter -> is it None in this case

    def visit_Name(self, n: ast.Name):
        if isinstance(n.ctx, ast.Load) and n.id in self.consts:
            return ast.copy_location(ast.Constant(value=self.consts[n.id].value), n)
        return n

    def visit_Compare(self, n: ast.Compare):
        if len(n.ops) == 1 and isinstance(n.ops[0], (ast.Is, ast.IsNot)) and isinstance(n.left, ast.Name) and n.left.id in self.none_case \
                and isinstance(n.comparators[0], ast.Constant) and n.comparators[0].value is None:
            v = self.none_case[n.left.id]
            return ast.copy_location(ast.Constant(value=v if isinstance(n.ops[0], ast.Is) else not v), n)
        self.generic_visit(n)
        if len(n.ops) == 1 and isinstance(n.left, ast.Constant) and isinstance(n.comparators[0], ast.Constant) and isinstance(n.ops[0], (ast.Is, ast.IsNot, ast.Eq, ast.NotEq)):
            a, b = n.left.value, n.comparators[0].value
            same = (a is b) if (a is None or b is None or isinstance(a, bool) or isinstance(b, bool)) else (type(a) is type(b) and a == b)
            return ast.copy_location(ast.Constant(value=same if isinstance(n.ops[0], (ast.Is, ast.Eq)) else not same), n)
        return n

    def visit_UnaryOp(self, n: ast.UnaryOp):
        self.generic_visit(n)
        if isinstance(n.op, ast.Not) and isinstance(n.operand, ast.Constant) and (n.operand.value is None or isinstance(n.operand.value, bool)):
            return ast.copy_location(ast.Constant(value=not n.operand.value), n)
        return n

    def visit_BoolOp(self, n: ast.BoolOp):
        self.generic_visit(n)
        is_and = isinstance(n.op, ast.And)
        vals = []
        for v in n.values:
            if isinstance(v, ast.Constant) and (v.value is None or isinstance(v.value, bool)):
                if bool(v.value) != is_and:
                    return ast.copy_location(ast.Constant(value=not is_and), n)      # False in an `and`, True in an `or`
                continue
            vals.append(v)
        if not vals:
            return ast.copy_location(ast.Constant(value=is_and), n)
        if len(vals) == 1:
            return vals[0]
        n.values = vals
        return n

    def visit_IfExp(self, n: ast.IfExp):
        self.generic_visit(n)
        if isinstance(n.test, ast.Constant) and (n.test.value is None or isinstance(n.test.value, bool)):
            return n.body if n.test.value else n.orelse
        return n

    def visit_If(self, n: ast.If):
        self.generic_visit(n)
        if isinstance(n.test, ast.Constant) and (n.test.value is None or isinstance(n.test.value, bool)):
            out = n.body if n.test.value else n.orelse
            return out if out else ast.copy_location(ast.Pass(), n)
        return n


def _specialise(fn: pf.FuncDef, consts: Dict[str, ast.Constant], none_case: Optional[Dict[str, bool]] = None) -> pf.FuncDef:
    import copy
    consts = {k: v for k, v in consts.items() if _stores(fn, k) == 0}
    if not consts and not none_case:
        return fn
    f2 = copy.deepcopy(fn)
    f2.body = [x for st in f2.body for x in (lambda r: r if isinstance(r, list) else [r])(_Fold(consts, none_case or {}).visit(st))]
    ast.fix_missing_locations(f2)
    return f2


class _Group:
    """callers of _create_jobs that bind its option parameters and the validator's parameters alike."""

    def __init__(self, flags: Dict[str, ast.Constant], vbind: Optional[Dict[str, ast.expr]]):
        self.flags = flags
        self.vbind = vbind                   # validator parameter -> argument (None: the caller does not visibly validate the list it passes)
        self.callers: List[Tuple[pf.FuncDef, ast.Call, Optional[ast.Call]]] = []

    def label(self) -> str:
        return ', '.join(sorted({f.name for f, _c, _v in self.callers}))


def _caller_groups(ctx: Ctx, m: pf.Module, vm: pf.Module) -> List[_Group]:
    create = m.func('_create_jobs')
    vdef = vm.func('validate_and_clean_jobs')
    opt = _with_default(create)
    vopt = [x.arg for x in vdef.args.posonlyargs + vdef.args.args + vdef.args.kwonlyargs][1:]
    groups: Dict[str, _Group] = {}
    for f in [n for n in m.tree.body if isinstance(n, (ast.FunctionDef, ast.AsyncFunctionDef))]:
        for c in pf.walk_shallow(f):
            if not (isinstance(c, ast.Call) and pf.dotted(c.func) == '_create_jobs'):
                continue
            b = _bind(create, c)
            ctx.need(b is not None, f'{FE}::{f.name}: arguments of the _create_jobs call not recognised')
            flags = {}
            for p_ in sorted(opt):
                v = pf.expand_locals(f, b[p_]) if not _is_lit(b[p_]) else b[p_]  # type: ignore[index]
                ctx.need(_is_lit(v), f'{FE}::{f.name}: option `{p_}={pf.nsrc(b[p_])}` of _create_jobs is not a literal: the checks it switches are not decided')  # type: ignore[index]
                flags[p_] = v
            arg = b.get('job_specs') if 'job_specs' in b else (c.args[1] if len(c.args) > 1 else None)  # type: ignore[union-attr]
            vcall = None
            for v in pf.walk_shallow(f):
                if isinstance(v, ast.Call) and pf.dotted(v.func) == 'validate_and_clean_jobs' and v.args and isinstance(arg, ast.Name) and isinstance(v.args[0], ast.Name) \
                        and v.args[0].id == arg.id and v.lineno < c.lineno:
                    vcall = v
            vbind = None
            if vcall is not None:
                vb = _bind(vdef, vcall)
                ctx.need(vb is not None, f'{FE}::{f.name}: arguments of the validate_and_clean_jobs call not recognised')
                vbind = {p_: (vb[p_] if _is_lit(vb[p_]) else pf.expand_locals(f, vb[p_])) for p_ in vopt}  # type: ignore[index]
            key = repr(sorted((k, v.value) for k, v in flags.items())) + '|' + (repr(sorted((k, pf.nsrc(v)) for k, v in vbind.items())) if vbind is not None else 'no validation')
            g = groups.setdefault(key, _Group(flags, vbind))
            g.callers.append((f, c, vcall))
    ctx.need(groups, f'{FE}: no caller of _create_jobs found')
    return list(groups.values())


def _validator_constraints(ctx: Ctx, vm: pf.Module, vbind: Optional[Dict[str, ast.expr]], none_case: Dict[str, bool]):
    """Constraints the job-spec validator puts on the ids, for callers that validate the list first with the given arguments."""
    from engines import c08ids as ci
    from engines import inline
    from engines import linform as lf
    vm2, _il = inline.inline_functions(ci.slice_module(vm, 'validate_and_clean_jobs'), 'validate_and_clean_jobs')
    vfn = vm2.func('validate_and_clean_jobs')
    consts = {k: v for k, v in (vbind or {}).items() if _is_lit(v)}
    syms = {k: lf.sym('caller:' + pf.nsrc(v)) for k, v in (vbind or {}).items() if not _is_lit(v)}
    vfn = _specialise(vfn, consts, none_case)  # type: ignore[arg-type]
    loops = [n for n in vfn.body if isinstance(n, ast.For)]
    ctx.need(len(loops) == 1, f'{VAL}::validate_and_clean_jobs: per-job loop not recognised')
    lp = loops[0]
    tgt = lp.target
    if isinstance(tgt, ast.Tuple) and len(tgt.elts) == 2 and isinstance(lp.iter, ast.Call) and pf.dotted(lp.iter.func) == 'enumerate':
        tgt = tgt.elts[1]
    ctx.need(isinstance(tgt, ast.Name), f'{VAL}::validate_and_clean_jobs: loop variable not recognised')
    spec = tgt.id  # type: ignore[union-attr]
    env = {f'{spec}[{"job_id"!r}]': lf.sym(ci.REL)}
    for k, v in syms.items():
        ctx.need(_stores(vfn, k) == 0, f'{VAL}::validate_and_clean_jobs: parameter `{k}` is reassigned')
        env[k] = v
    fl = ci.IdFlow(ci.REL, spec, env, {})
    fl.run(lp.body, VAL)
    # a validator that rewrites the id slots would change what _create_jobs reads
    for n in ast.walk(lp):
        if isinstance(n, ast.Subscript) and isinstance(n.ctx, ast.Store) and isinstance(n.value, ast.Name) and n.value.id == spec and pf.const_str(n.slice) in ('job_id', 'in_update_parent_ids'):
            raise AnalysisError(f'{VAL}::validate_and_clean_jobs rewrites {spec}[{pf.const_str(n.slice)!r}]')
    ok_syms = set(ci.BASE) | {next(iter(v.coef)) for v in syms.values()}
    cons = [c for c in fl.cons if all(x in ok_syms for x in c.le0.symbols())]
    und = list(fl.undecided)
    if vbind is None:
        if cons or und:
            return [], [(f'{VAL}: the validator constrains the ids but a caller of _create_jobs does not visibly validate the list it passes', frozenset(ci.BASE))] + und, []
        return [], [], []
    return cons, und, list(fl.neq)


def _unrelated_to_reservation(ctx: Ctx, m: pf.Module, grp: _Group, symbol: str) -> Optional[str]:
    """`caller:<E>`: the validator compared the job ids with the caller's expression E.  Is E provably NOT tied to batch_updates.n_jobs of the update the
    jobs are stored under?  Shown when, for every caller of the group: the update id comes from a module-level function G that receives E as a parameter p,
    G stores p as n_jobs when it INSERTs the batch_updates row, and G has a return path that neither passes that INSERT nor a test mentioning p while its
    look-up of an existing row does not even read n_jobs (a replayed token answers with the existing update, whatever n_jobs the request states).
    Returns the history (a violation text) or None (not decided)."""
    create = m.func('_create_jobs')
    texts = []
    for f, c, vcall in grp.callers:
        b = _bind(create, c)
        uid = b.get('update_id') if b else None
        if not isinstance(uid, ast.Name):
            return None
        srcs = [n for n in pf.walk_shallow(f) if isinstance(n, ast.Assign) and any(isinstance(x, ast.Name) and x.id == uid.id and isinstance(x.ctx, ast.Store) for t in n.targets for x in ast.walk(t))]
        if len(srcs) != 1:
            return None
        v = srcs[0].value.value if isinstance(srcs[0].value, ast.Await) else srcs[0].value
        if not (isinstance(v, ast.Call) and isinstance(v.func, ast.Name) and m.has_func(v.func.id)):
            return None
        gdef = m.func(v.func.id)
        gb = _bind(gdef, v)
        if gb is None:
            return None
        want = symbol[len('caller:'):]
        ps = [p_ for p_, a in gb.items() if pf.nsrc(pf.expand_locals(f, a)) == want]
        if len(ps) != 1:
            return None
        p_ = ps[0]
        holders = [h for h in ast.walk(gdef) if isinstance(h, (ast.FunctionDef, ast.AsyncFunctionDef))]
        ins = []
        looks = []
        for e in sf.embedded_in(m):
            if e.fn not in holders or e.sql_text is None:
                continue
            for st in e.stmts():
                if st.kind == 'insert' and isinstance(st.table, str) and st.table.lower() == 'batch_updates':
                    ins.append((e, st))
                if st.kind == 'select' and st.frm is not None and 'batch_updates' in [t.lower() for t in sf.table_names(st.frm)] and not st.order:
                    looks.append((e, st))
        if len(ins) != 1:
            return None
        ie, ist = ins[0]
        elts = sr.args_tuple(ie.fn, ie.call.args[1]) if len(ie.call.args) > 1 else None
        if elts is None or ist.cols is None or len(elts) != len(ist.cols):
            return None
        stored = dict(zip([c_.lower() for c_ in ist.cols], elts)).get('n_jobs')
        if not (isinstance(stored, ast.Name) and stored.id == p_ and all(_stores(h, p_) == 0 for h in holders)):
            return None
        # a look-up of an existing row that reads n_jobs (or *) could be what ties the two numbers: not verified here
        for le, lst_ in looks:
            if le.fn is ie.fn and any(n.kind == 'star' or (n.kind == 'col' and n.parts[-1].lower() == 'n_jobs') for c_, _al in lst_.cols for n in c_.walk()):
                return None
        if not any(le.fn is ie.fn for le, _ in looks):
            return None
        g = pf.cfg(ie.fn)
        inode = g.node_of(ie.call)
        if len(inode) != 1:
            return None
        mentions = lambda n: n.kind == 'test' and n.ast is not None and p_ in pf.names_in(n.ast)  # noqa: E731
        path = g.path_avoiding(g.entry, lambda n: n.kind == 'return', lambda n: n is inode[0] or mentions(n), edge_ok=lambda a, b_, lab: lab != 'exc')
        if path is None:
            return None
        texts.append(f'{f.name} validates the ids against `{want}` (a number the request states) and takes its update id from {gdef.name}(.., {p_}={want}, ..), which stores {p_} as batch_updates.n_jobs '
                     f'only when it INSERTs the row: on its path `{" -> ".join(x.text()[:40] for x in path if x.kind in ("test", "return"))}` it answers with an EXISTING update of the same token without '
                     'comparing n_jobs')
    if not texts:
        return None
    return '; '.join(texts) + ('. History: POST updates/create {token U, n_jobs 2} reserves ids s, s+1. POST update-fast {token U, n_jobs 4, bunch = in-update job ids 3, 4}: ids 3, 4 pass the '
                               'validator (<= 4); the look-up returns the update that reserved 2 ids; jobs s+2, s+3 are stored under it; 2 jobs staged = 2 expected, so the commit succeeds with both '
                               'jobs outside the reservation - they occupy the next update\'s ids, whose own bunch is then taken for a replay (duplicate key) and can never be committed')


def r1_r2(ctx: Ctx) -> None:
    from engines import c08ids as ci
    from engines import inline
    m = pf.load(FE)
    vm = pf.load(VAL)
    prog = sf.load_program()
    m.func('_create_jobs')
    sinks_spec = _insert_sinks(ctx, m)
    tables = {v[0] for v in sinks_spec.values()}
    ctx.need(tables == {'jobs', 'job_parents'}, f'{FE}::_create_jobs: INSERT INTO jobs / job_parents argument lists not found (found {sorted(tables)})')
    for v in sinks_spec.values():
        ctx.need('job_id' in v[1] and (v[0] != 'job_parents' or 'parent_id' in v[1]), f'{FE}::_create_jobs: id columns of INSERT INTO {v[0]} are not bound to parameters')
    m2, il = inline.inline_functions(ci.slice_module(m, '_create_jobs'), '_create_jobs')
    fn0 = m2.func('_create_jobs')
    ctx.unit('helpers inlined into _create_jobs', len(il.inlined))
    groups = _caller_groups(ctx, m, vm)
    ctx.unit('caller specialisations of _create_jobs', len(groups))
    for grp in groups:
        _r1_r2_group(ctx, m, vm, prog, sinks_spec, fn0, grp, f' [callers: {grp.label()}]' if len(groups) > 1 else '')


def _r1_r2_group(ctx: Ctx, m: pf.Module, vm: pf.Module, prog, sinks_spec, fn0: pf.FuncDef, grp: _Group, tag: str) -> None:
    from engines import c08ids as ci
    from engines import linform as lf
    import itertools
    fn = _specialise(fn0, grp.flags)
    for name in sinks_spec:
        ctx.need(_stores(fn, name) == 1, f'{FE}::_create_jobs: `{name}` is rebound after its initialisation')
    loop = _spec_loop(ctx, fn, set(sinks_spec), f'{FE}::_create_jobs')
    spec = loop.target.id  # type: ignore[union-attr]
    env, reads = _row_reads(ctx, prog, fn, loop.lineno)
    ctx.need(reads, f'{FE}::_create_jobs: the read of the update\'s batch_updates row was not recognised')
    env[f'{spec}[{"job_id"!r}]'] = lf.sym(ci.REL)
    fl = ci.IdFlow(ci.REL, spec, env, {k: (v[0], v[1]['job_id'], v[1].get('parent_id')) for k, v in sinks_spec.items()})
    fl.run([st for st in fn.body if st.lineno < loop.lineno], FE)
    fl.run(loop.body, FE)
    # the validator, with this group's arguments; `<param> is None` on a non-literal argument: both cases
    split = sorted(k for k, v in (grp.vbind or {}).items() if not _is_lit(v))
    cases = []
    for vals in itertools.product((False, True), repeat=len(split)):
        nc = dict(zip(split, vals))
        vcons, vund, vneq = _validator_constraints(ctx, vm, grp.vbind, nc)
        cases.append((nc, list(fl.cons) + vcons, list(fl.undecided) + vund, list(fl.neq) + vneq))
    # cases that do not differ are one case
    uniq = []
    for c in cases:
        sig = (sorted((k.text, k.line) for k in c[1]), sorted(t for t, _ in c[2]))
        if not any(sig == u[0] for u in uniq):
            uniq.append((sig, c))
    cases = [c for _s, c in uniq]
    ctx.unit('accepted-path constraints on submitted ids', max(len(c[1]) for c in cases))
    jsinks = [s for s in fl.sinks if s.table == 'jobs']
    psinks = [s for s in fl.sinks if s.table == 'job_parents']
    ctx.need(jsinks and psinks, f'{FE}::_create_jobs: rows appended to the jobs / job_parents argument lists not found')
    indep_cache: Dict[str, Optional[str]] = {}

    def unrelated(symbol: str) -> Optional[str]:
        if symbol not in indep_cache:
            indep_cache[symbol] = _unrelated_to_reservation(ctx, m, grp, symbol) if symbol.startswith('caller:') else None
        return indep_cache[symbol]

    def verdict_case(case, goal, var: str, what: str):
        """(True | False | None = not decided, text) for `goal <= 0` on every accepted request."""
        _nc, cons, und, neq = case
        # a constraint obtained inside a loop over a parent list says nothing when that list is empty: only constraints over the goal's own
        # symbols (and the range columns) can bound it for every request
        allowed = {var, ci.REL, ci.S, ci.NJ}
        status, c, diff = ci.decide(goal, var, [k for k in cons if set(k.le0.symbols()) <= allowed])
        if status == 'ok':
            return True, f'{what}: implied by `{c.text}` ({c.file}:{c.line})'
        blockers = [t for t, at in und if var in at]
        # a test on this id against a value the analysis has no normal form for (a non-linear expression, a column of another table) - unless that value is
        # shown to be unrelated to the reservation (a number stated by the request, never compared with the row)
        notes = []
        for k in cons:
            if var in k.le0.symbols() and (k.le0.coef[var] > 0) == (goal.coef.get(var, 0) > 0) and not set(k.le0.symbols()) <= ci.BASE:
                foreign = sorted(set(k.le0.symbols()) - ci.BASE)
                hist = [unrelated(x) for x in foreign]
                if all(h is not None for h in hist):
                    notes.append(f'`{k.text}` ({k.file}:{k.line}) bounds it by {foreign[0][len("caller:"):]} only, which is not the reservation: {hist[0]}')
                else:
                    blockers.append(f'{k.file}:{k.line}: `{k.text}` compares with {foreign}')
        if status == 'unknown' or blockers:
            return None, f'cannot decide `{what}`: ' + ('; '.join(blockers[:3]) if blockers else f'`{c.text}` leaves {diff} <= 0 to be shown')
        if status == 'lenient':
            sharpen = [t for t, at in neq if var in at]
            if sharpen:
                return None, f'cannot decide `{what}`: `{c.text}` is too weak by {_excess(diff)} but {sharpen[0]} may sharpen it'
            return False, f'{what} is not enforced: the only rejecting test on it, `{c.text}` ({c.file}:{c.line}), lets through values that exceed the bound by {_excess(diff)}' + ''.join('; ' + n for n in notes)
        return False, f'{what} is not enforced: no rejecting test executed for every job bounds it by the reservation' + (' (' + '; '.join(notes) + ')' if notes else '')

    def verdict(goal, var: str, what: str):
        res = [verdict_case(c, goal, var, what) for c in cases]
        und_ = [r for r in res if r[0] is None]
        if und_:
            return und_[0]
        if all(r[0] for r in res):
            return res[0]
        if not any(r[0] for r in res):
            return max(res, key=lambda r: len(r[1]))
        return None, f'`{what}` depends on whether {split} is None at the validator call'

    def settle(results, rule_what: str):
        """results: [(True|False|None, text)] of the conjuncts of one rule instance -> (violated texts, holding texts); declines when nothing is violated and something is undecided."""
        bad_ = [t for v, t in results if v is False]
        und_ = [t for v, t in results if v is None]
        if not bad_ and und_:
            raise AnalysisError(f'{FE}::_create_jobs{tag}: {rule_what}: ' + ' | '.join(und_[:3]))
        return bad_ + [f'(not decided: {t})' for t in und_[:2]] if bad_ else [], [t for v, t in results if v]

    # ---- R2: start_job_id <= stored job id <= start_job_id + n_jobs - 1 -------------------------------------------------------------------
    res2 = []
    for s in jsinks:
        ctx.need(ci.REL in s.job.symbols(), f'{FE}::_create_jobs: the job id stored in `jobs` ({s.job}) is not a linear function of the submitted job_id')
        res2.append(verdict(lf.sym(ci.S) - s.job, ci.REL, f'stored job id ({s.job}) >= start_job_id'))
        res2.append(verdict(s.job - lf.sym(ci.S) - lf.sym(ci.NJ) + lf.const(1), ci.REL, f'stored job id ({s.job}) <= start_job_id + n_jobs - 1'))
    msgs, good = settle(res2, 'job id within reserved range')
    ctx.check(not msgs, 'R2', f'{FE}::_create_jobs::job id within reserved range{tag}',
              (f'for the calls from {grp.label()} (options {({k: v.value for k, v in grp.flags.items()})}): ' if tag else '') + '; '.join(msgs) +
              '. A bunch may then place a job outside the ids start_job_id .. start_job_id + n_jobs - 1 its update reserved: only the COUNT of staged jobs is checked at commit, so an update '
              'reserving n ids can be committed with one id of its range missing and one foreign id present (e.g. n_jobs = 3, bunches [1, 2] and [4 with in_update_parent_ids [3]]: job 4 waits for a job 3 that '
              'never exists; the foreign id also collides with the neighbouring update\'s range)', m.path, jsinks[0].line, detail=good)
    # the range compared against is the one of the update the jobs are recorded under
    rec, sel, args = reads[0]
    jl = [k for k, v in sinks_spec.items() if v[0] == 'jobs'][0]
    tup = None
    for n in ast.walk(loop):
        if isinstance(n, ast.Call) and isinstance(n.func, ast.Attribute) and n.func.attr == 'append' and isinstance(n.func.value, ast.Name) and n.func.value.id == jl and n.args and isinstance(n.args[0], ast.Tuple):
            tup = n.args[0]
    ctx.need(tup is not None, f'{FE}::_create_jobs: jobs tuple not found')
    for col in ('batch_id', 'update_id'):
        pinned = _pinned_arg(sel, args, col)
        i = sinks_spec[jl][1].get(col)
        ctx.need(pinned is not None and i is not None and i < len(tup.elts), f'{FE}::_create_jobs: the row read `{text(sel)[:80]}...` is not pinned to batch_updates.{col} = <python value>')  # type: ignore[union-attr]
        stored = tup.elts[i]  # type: ignore[union-attr,index]
        ctx.need(isinstance(pinned, ast.Name) and isinstance(stored, ast.Name) and _stores(fn, pinned.id) == 0 and _stores(fn, stored.id) == 0,
                 f'{FE}::_create_jobs: {col} of the range read / of the stored job is not a plain parameter')
        ctx.check(pinned.id == stored.id, 'R2', f'{FE}::_create_jobs::reserved range read for the job\'s own {col}{tag}',  # type: ignore[union-attr]
                  f'the reserved range is read from the batch_updates row with {col} = {pf.nsrc(pinned)} but the jobs are stored with {col} = {pf.nsrc(stored)}: ids are checked against another update\'s range',
                  m.path, loop.lineno)

    # ---- R1: 1 <= stored parent id <= stored job id - 1, edges stored under the job's own id ----------------------------------------------------
    fk = _has_parent_fk(prog)
    cons_key = f'{FE}::_create_jobs::parent ids -> job_parents'
    up_res, lo_res = [], []
    seen_sources = set()
    for s in psinks:
        ctx.need(s.source in ('abs', 'rel') and s.parent is not None, f'{FE}::_create_jobs: a row is appended to the job_parents arguments outside a loop over the submitted parent ids')
        seen_sources.add(s.source)
        var = ci.P_ABS if s.source == 'abs' else ci.P_REL
        key = 'absolute_parent_ids' if s.source == 'abs' else 'in_update_parent_ids'
        ctx.need(var in s.parent.symbols(), f'{FE}::_create_jobs: the parent id stored for {key} ({s.parent}) is not a linear function of the submitted id')
        ctx.check(any(s.job == j.job for j in jsinks), 'R1', f'{cons_key}::edge stored under the job\'s own id ({key}){tag}',
                  f'the job_parents row of a job is stored with job_id = {s.job} while the job itself is stored with job_id = {jsinks[0].job}: the dependency is attached to another job', m.path, s.line)
        up_res.append(verdict(s.parent - s.job + lf.const(1), var, f'{key}: stored parent id ({s.parent}) < stored job id ({s.job})'))
        if not fk:
            lo_res.append(verdict(lf.const(1) - s.parent, var, f'{key}: stored parent id ({s.parent}) >= 1'))
    up_msgs, up_good = settle(up_res, 'parent < child')
    lo_msgs, lo_good = settle(lo_res, 'parent exists')
    ctx.need(seen_sources == {'abs', 'rel'}, f'{FE}::_create_jobs: parent ids of kind {sorted({"abs", "rel"} - seen_sources)} never reach job_parents (flow not recognised)')
    ctx.check(not up_msgs, 'R1', cons_key + '::parent < child' + tag, '; '.join(up_msgs) + '. A job may then name itself or a later job as parent (for in-update ids the comparison must be made in the same coordinates as '
              'the ids that are stored); its n_pending_parents never reaches 0 and the committed batch can never complete', m.path, psinks[0].line, detail=up_good)
    ctx.check(fk or not lo_msgs, 'R1', cons_key + '::parent exists' + tag, '; '.join(lo_msgs) + '; and there is no foreign key job_parents(batch_id, parent_id) -> jobs. A job may depend on a job id that '
              'never exists (e.g. parent 0); n_pending_parents never reaches 0', m.path, psinks[0].line, detail={'foreign_key': fk, 'bounds': lo_good})


def _count_vars(r) -> Tuple[Optional[str], Optional[str]]:
    """(variable holding batch_updates.n_jobs of the update, variable holding SUM(n_jobs) of its staging rows) in commit_batch_update - by what they are read from, not by name."""
    exp = stg = None
    for st in sf.all_statements(r.ast.body):
        if st.kind == 'select' and st.into and st.frm is not None:
            tabs = [t.lower() for t in sf.table_names(st.frm)]
            for (c, _al), v in zip(st.cols, st.into):
                if not sr.is_var(v):
                    continue
                if tabs == ['batch_updates'] and c.kind == 'col' and c.parts[-1].lower() == 'n_jobs':
                    exp = text(v).lower()
                if tabs == ['job_groups_inst_coll_staging'] and any(n.kind == 'func' and n.name.upper() == 'SUM' and len(n.args) == 1 and n.args[0].kind == 'col' and n.args[0].parts[-1].lower() == 'n_jobs'
                                                                     for n in c.walk()):
                    stg = text(v).lower()
    return exp, stg


def _count_guard(c: N, exp: str, stg: str) -> Optional[bool]:
    """True: the condition holds exactly when staged = expected; False: exactly when they differ; None: something else."""
    if c.kind == 'bin' and c.op in ('=', '<=>', '!=', '<>') and {text(c.left).lower(), text(c.right).lower()} == {exp, stg}:
        return c.op in ('=', '<=>')
    if c.kind == 'un' and c.op.upper() == 'NOT':
        v = _count_guard(c.arg, exp, stg)
        return None if v is None else not v
    return None


def r3(ctx: Ctx) -> None:
    prog = sf.load_program()
    r = prog.routine('commit_batch_update')
    exp, stg = _count_vars(r)
    ctx.need(exp is not None and stg is not None, 'commit_batch_update: the reads of the expected job count (batch_updates.n_jobs) / the staged job count (SUM(n_jobs) of the staging rows) were not found')

    def under_equal(guard) -> bool:
        return any(_count_guard(c, exp, stg) is not None and _count_guard(c, exp, stg) == p for c, p in guard)

    def under_unequal(guard) -> bool:
        return any(_count_guard(c, exp, stg) is not None and _count_guard(c, exp, stg) != p for c, p in guard)
    n = 0
    seen: Dict[str, int] = {}
    for st, guard in sf.guarded_statements(r.ast.body):
        if sf.written_tables(st):
            n += 1
            role = f'{st.kind} {sf.written_tables(st)[0][0]}'
            seen[role] = seen.get(role, 0) + 1
            ctx.check(under_equal(guard), 'R3', f'sql::commit_batch_update::{role}' + (f' #{seen[role]}' if seen[role] > 1 else ''),
                      f'this write of the commit happens without the staged job count ({stg}) having been found equal to the expected one ({exp}): guards {[(text(c)[:40], p) for c, p in guard]}',
                      r.file, r.line_of(st))
    ctx.need(n >= 4, 'commit_batch_update: fewer than four writes found')
    # the refusing branch
    refuse = None
    for st, guard in sf.guarded_statements(r.ast.body):
        if st.kind == 'txn' and st.what == 'ROLLBACK' and under_unequal(guard):
            refuse = guard
    rc_ok = None
    for st, guard in sf.guarded_statements(r.ast.body):
        if st.kind == 'select' and not st.into and guard == refuse and refuse is not None:
            for c, al in st.cols:
                if (al or '').lower() == 'rc' and c.kind == 'lit':
                    rc_ok = c.value not in (0, None)
    if refuse is None or rc_ok is None:
        # no ROLLBACK under "counts differ" / no literal rc there: a LEAVE-style guard clause, a handler or a SIGNAL may do the refusing - not an alarm
        signals = [st for st, guard in sf.guarded_statements(r.ast.body) if st.kind in ('signal', 'leave', 'resignal') and under_unequal(guard)]
        ctx.need(False, 'commit_batch_update: the branch taken when staged and expected job counts differ was not recognised (no ROLLBACK + SELECT <literal> AS rc under that guard'
                 + (f'; it contains {signals[0].kind.upper()}' if signals else '') + ')')
    ctx.check(bool(rc_ok), 'R3', 'sql::commit_batch_update::refusal', 'a wrong job count rolls back but answers with rc = 0: the front end takes the commit for done', r.file, r.line)
    m = pf.load(FE)
    fn = m.func('_commit_update')
    calls = [e.call for e in sf.embedded_in(m) if e.fn is fn and any(st.kind == 'call' and st.name.lower() == 'commit_batch_update' for st in e.stmts())]
    ctx.need(calls, f'{FE}::_commit_update: the CALL of commit_batch_update was not found')
    uses_check = all(c.func.attr == 'check_call_procedure' for c in calls)
    if not uses_check:
        # the rc may be tested by hand: only when the result of the call is bound to a name
        par = m.parents()
        for c in calls:
            if c.func.attr == 'check_call_procedure':
                continue
            up = par.get(c)
            while isinstance(up, (ast.Await,)):
                up = par.get(up)
            bound = up.targets[0].id if isinstance(up, ast.Assign) and len(up.targets) == 1 and isinstance(up.targets[0], ast.Name) else None
            if bound is not None or not isinstance(up, ast.Expr):
                raise AnalysisError(f'{FE}::_commit_update: the result of commit_batch_update is read with {c.func.attr} and kept (`{pf.nsrc(up)[:60]}`): whether its rc is looked at is not analysed')
    ctx.check(uses_check, 'R3', f'{FE}::_commit_update::rc checked', f'the front end calls commit_batch_update through {[c.func.attr for c in calls if c.func.attr != "check_call_procedure"][:1]} and discards the result: '
              'its rc is never looked at (check_call_procedure raises on rc != 0), a refused commit is reported as done', m.path, fn.lineno)
    # INFO: rc mismatch
    for n_ in ast.walk(fn):
        if isinstance(n_, ast.Compare) and "e.rv['rc']" in pf.nsrc(n_.left):
            ctx.info(f'_commit_update tests `{pf.nsrc(n_)}` but the procedure answers rc = 1 for a wrong job count: the client gets a 500 instead of the intended 400 (still rejected)')


def _and_conjuncts(t: ast.AST) -> List[ast.AST]:
    if isinstance(t, ast.BoolOp) and isinstance(t.op, ast.And):
        return [c for v in t.values for c in _and_conjuncts(v)]
    return [t]


def r4(ctx: Ctx) -> None:
    from engines import c08ids as ci
    from engines import inline
    from engines import linform as lf
    m = pf.load(FE)
    ci.resolve_module_sql(m)
    fn = m.func('_create_jobs.insert_jobs_into_db')
    cons = f'{FE}::_create_jobs.insert_jobs_into_db::duplicate parents'
    # ---- a duplicated (job, parent) pair must not be swallowed: the primary key of job_parents refuses it and the error must leave the transaction function ----
    target = None
    for e in sf.embedded_in(m):
        if e.fn is fn:
            for st in e.stmts():
                if st.kind == 'insert' and isinstance(st.table, str) and st.table.lower() == 'job_parents':
                    target = (e, st)
    ctx.need(target is not None, f'{cons}: INSERT INTO job_parents not found in insert_jobs_into_db')
    e, st = target  # type: ignore[misc]
    plain = not (st.ignore or st.replace or st.on_dup)
    ctx.check(plain, 'R4', cons + '::plain insert', 'job_parents is written with INSERT IGNORE / REPLACE / ON DUPLICATE KEY UPDATE: a parent named twice is silently stored once while the job\'s '
              'n_pending_parents counts it twice; the job never becomes Ready', m.path, e.lineno)
    par = m.parents()
    node: Optional[ast.AST] = e.call
    tr = None
    while node is not None and node is not fn:
        up = par.get(node)
        if isinstance(up, ast.Try) and any(node is x for x in up.body):
            tr = up
            break
        node = up
    verdict = None          # True: refused, False: swallowed
    why = ''
    if tr is None:
        verdict, why = True, 'not inside a try: the IntegrityError propagates and the transaction is rolled back'
    else:
        catching = [h for h in tr.handlers if h.type is None or any(k in pf.nsrc(h.type) for k in ('IntegrityError', 'MySQLError', 'Exception', 'DatabaseError', 'Error'))]
        if not catching:
            verdict, why = True, 'no handler catches pymysql.err.IntegrityError: it propagates'
        else:
            h = catching[0]
            br = ci.error_code_branch(m, h, 1062)
            ctx.need(br is not None, f'{cons}: the handler `except {pf.nsrc(h.type) if h.type is not None else ""}` around INSERT INTO job_parents does not test err.args[0] against 1062 in a recognised way')
            ends = br[-1] if br else None
            if isinstance(ends, ast.Raise):
                verdict, why = True, f'ER_DUP_ENTRY branch ends in `{pf.nsrc(ends)[:60]}`'
            elif br is not None and not any(isinstance(x, (ast.Raise,)) for s_ in br for x in ast.walk(s_)):
                verdict, why = False, ('ER_DUP_ENTRY branch `' + '; '.join(pf.nsrc(s_)[:40] for s_ in br) + '` does not raise') if br else 'ER_DUP_ENTRY branch is empty: the error is swallowed'
            else:
                raise AnalysisError(f'{cons}: the ER_DUP_ENTRY branch of the handler raises only on some paths')
    ctx.check(bool(verdict), 'R4', cons, f'a duplicated (job, parent) pair is not refused: {why}. The insert of the bunch\'s dependency edges fails as a whole, the handler goes on and the transaction commits: '
              'jobs with n_pending_parents > 0 and no job_parents rows, which never become Ready', m.path, e.lineno, detail=why)
    # ---- contiguous job ids within a bunch -----------------------------------------------------------------------------------------------------
    vm = pf.load(VAL)
    vm2, _il = inline.inline_functions(ci.slice_module(vm, 'validate_and_clean_jobs'), 'validate_and_clean_jobs')
    vfn = vm2.func('validate_and_clean_jobs')
    cur = {t.id for n in ast.walk(vfn) if isinstance(n, ast.Assign) and isinstance(n.value, ast.Subscript) and pf.const_str(n.value.slice) == 'job_id' for t in n.targets if isinstance(t, ast.Name)}
    prev = {t.id for n in ast.walk(vfn) if isinstance(n, ast.Assign) and isinstance(n.value, ast.Name) and n.value.id in cur for t in n.targets if isinstance(t, ast.Name)}
    ctx.need(cur and prev, f'{VAL}::validate_and_clean_jobs: current / previous job id variables not recognised')
    contiguous = False
    weaker = []
    relevant = 0
    for n in ast.walk(vfn):
        if not isinstance(n, ast.If):
            continue
        cmps = [c for c in ast.walk(n.test) if isinstance(c, ast.Compare) and pf.names_in(c) & cur and pf.names_in(c) & prev]
        if not cmps:
            continue
        relevant += 1
        # the comparison must reject on its own (a conjunct of the test of an `if` whose body always rejects; the other conjuncts only say "there is a previous id")
        tops = _and_conjuncts(n.test)
        ctx.need(len(cmps) == 1 and any(cmps[0] is t for t in tops) and ci._always_rejects(n.body) and
                 all(t is cmps[0] or (isinstance(t, ast.Name) and t.id in prev) or (isinstance(t, ast.Compare) and pf.names_in(t) <= prev) for t in tops),
                 f'{VAL}::validate_and_clean_jobs: test `{pf.nsrc(n.test)[:80]}` on consecutive job ids not recognised')
        c = cmps[0]
        ctx.need(len(c.ops) == 1, f'{VAL}::validate_and_clean_jobs: chained comparison `{pf.nsrc(c)}` of consecutive job ids not recognised')
        try:
            d = lf.lin(c.left) - lf.lin(c.comparators[0])
        except AnalysisError:
            raise AnalysisError(f'{VAL}::validate_and_clean_jobs: comparison `{pf.nsrc(c)}` of consecutive job ids is not linear')
        a = [x for x in d.symbols() if x in cur]
        b = [x for x in d.symbols() if x in prev]
        ctx.need(len(d.symbols()) == 2 and len(a) == 1 and len(b) == 1 and d.coef[a[0]] == -d.coef[b[0]] and abs(d.coef[a[0]]) == 1,
                 f'{VAL}::validate_and_clean_jobs: comparison `{pf.nsrc(c)}` of consecutive job ids not recognised')
        gap = -d.const * d.coef[a[0]]           # the test reads  cur - prev  OP  gap
        if isinstance(c.ops[0], ast.NotEq) and gap == 1:
            contiguous = True
        elif isinstance(c.ops[0], (ast.NotEq, ast.Lt, ast.LtE, ast.Gt, ast.GtE)):
            weaker.append(pf.nsrc(c))
        else:
            raise AnalysisError(f'{VAL}::validate_and_clean_jobs: comparison `{pf.nsrc(c)}` of consecutive job ids not recognised')
    # also a nested form: `if prev: if cur != prev + 1: raise`  (the inner `if` is the one found above; its body rejects)
    if not contiguous and not weaker:
        # no test on consecutive ids at all: either the check is gone or it is written in a way this rule does not see (a helper that is not inlined, a set comparison ...)
        calls = [pf.dotted(c.func) or pf.nsrc(c.func) for c in ast.walk(vfn) if isinstance(c, ast.Call) and any(isinstance(x, ast.Name) and x.id in cur for x in c.args)
                 and any(isinstance(x, ast.Name) and x.id in prev for x in c.args)]
        ctx.need(not calls, f'{VAL}::validate_and_clean_jobs: consecutive job ids are handed to {calls}, which is not analysed')
    ctx.check(contiguous, 'R4', f'{VAL}::validate_and_clean_jobs::contiguous ids', 'job ids within a bunch are not required to be contiguous (id = previous id + 1)'
              + (f': the only test is `{weaker[0]}`' if weaker else ': the current and the previous job id are tracked but never compared'), vm.path, vfn.lineno)


def r6(ctx: Ctx) -> None:
    """The existence of the ids start .. start + n - 1 of a committed update is never checked row by row: commit_batch_update compares the STAGED job count
    of the update with batch_updates.n_jobs, and with the range check (R2) and the primary key of jobs that pins the set of ids.  This only works when the
    staged count is the number of job rows: each bunch stages once per inserted row, in the transaction that inserted the rows, and a replayed bunch
    (duplicate key on jobs) stages nothing."""
    m = pf.load(FE)
    fn = m.func('_create_jobs.insert_jobs_into_db')
    cons = f'{FE}::_create_jobs.insert_jobs_into_db'
    g = pf.cfg(fn)
    jobs_e = stage_e = None
    for e in sorted([e for e in sf.embedded_in(m) if e.fn is fn], key=lambda e: e.lineno):
        for st in e.stmts():
            if st.kind == 'insert' and isinstance(st.table, str):
                if st.table.lower() == 'jobs':
                    jobs_e = (e, st)
                if st.table.lower() == 'job_groups_inst_coll_staging':
                    stage_e = (e, st)
    ctx.need(jobs_e is not None and stage_e is not None, f'{cons}: INSERT INTO jobs / job_groups_inst_coll_staging not found')
    jn, sn = g.node_of(jobs_e[0].call), g.node_of(stage_e[0].call)
    ctx.need(len(jn) == 1 and len(sn) == 1, f'{cons}: CFG nodes of the inserts not found')
    # a transaction that commits (normal return) after the staging insert must have completed INSERT INTO jobs normally: in the graph without the normal
    # out-edges of the jobs insert (only its exceptional exits remain) no path entry -> staging insert -> normal exit may exist
    def no_success(a, b, lab):
        return not (a is jn[0] and lab != 'exc')
    reach_stage = sn[0].id in g.reachable_from(g.entry, edge_ok=no_success)
    stage_to_exit = g.exit.id in g.reachable_from(sn[0], edge_ok=no_success)
    before = jn[0].id in g.reachable_from(sn[0])
    ctx.check(not (reach_stage and stage_to_exit), 'R6', cons + '::staged once per inserted bunch',
              ('the staging counters are written before INSERT INTO jobs and the transaction still completes normally when that insert fails with a duplicate key (replayed bunch)' if before else
               'the staging insert is reached on a path on which INSERT INTO jobs did not complete (its duplicate-key branch or a path around it)') +
              ': a re-sent bunch adds its job count to job_groups_inst_coll_staging again although it inserted no row. commit_batch_update only compares the staged count with batch_updates.n_jobs, so an update '
              'reserving n ids is committed with an id of its range missing (e.g. n_jobs = 4: bunch [1, 2] delivered twice, bunch [3, 4] never: staged 4 = 4): a later job naming the missing id as parent '
              'waits forever', m.path, stage_e[0].lineno)
    # one staged job per spec
    outer = m.func('_create_jobs')
    jl_ = [k for k, v_ in _insert_sinks(ctx, m).items() if v_[0] == 'jobs']
    ctx.need(len(jl_) == 1, f'{FE}::_create_jobs: argument list of INSERT INTO jobs not found')
    loops = [n for n in outer.body if isinstance(n, ast.For) and any(isinstance(c, ast.Call) and pf.dotted(c.func) in (f'{jl_[0]}.append', f'{jl_[0]}.extend') for c in ast.walk(n))]
    ctx.need(len(loops) == 1, f'{FE}::_create_jobs: per-job loop not found')
    incs = [n for n in ast.walk(loops[0]) if isinstance(n, ast.AugAssign) and isinstance(n.target, ast.Subscript) and pf.const_str(n.target.slice) == 'n_jobs']
    ins, _dup, _uv = sr.insert_colmap(stage_e[1])
    elts = sr.args_tuple(fn, stage_e[0].call.args[1]) if len(stage_e[0].call.args) > 1 else None
    params = sr.params_in_order(stage_e[1])
    ctx.need(elts is not None and len(elts) == len(params) and ins.get('n_jobs') is not None and ins['n_jobs'].kind == 'param', f'{cons}: cannot bind the n_jobs column of the staging insert')
    staged = elts[[i for i, p_ in enumerate(params) if p_ is ins['n_jobs']][0]]  # type: ignore[index]
    ok = len(incs) == 1 and incs[0] in loops[0].body and isinstance(incs[0].op, ast.Add) and isinstance(incs[0].value, ast.Constant) and incs[0].value.value == 1 \
        and isinstance(staged, ast.Subscript) and pf.const_str(staged.slice) == 'n_jobs'
    if not ok:
        ctx.need(len(incs) >= 1 and all(isinstance(i.value, ast.Constant) for i in incs) and isinstance(staged, ast.Subscript), f'{FE}::_create_jobs: staged job count `{pf.nsrc(staged)}` / its increments not recognised')
    ctx.check(ok, 'R6', f'{FE}::_create_jobs::one staged job per inserted job', f'the staged job count (`{pf.nsrc(staged)}`) is not incremented by exactly 1, unconditionally, for every job of the bunch '
              f'(increments: {[pf.nsrc(i) for i in incs]}): staged count and number of job rows differ and the commit check no longer pins the set of ids', m.path, loops[0].lineno)
    # what the commit compares
    prog = sf.load_program()
    r = prog.routine('commit_batch_update')
    exp = stg = None
    ev, sv = _count_vars(r)

    locals_ = {p_[1].lower() for p_ in r.ast.params} | {n_.lower() for st_ in sf.all_statements(r.ast.body) if st_.kind == 'declare' for n_ in st_.names}

    def keyed(where: Optional[N], want: Dict[str, str], what: str) -> Tuple[bool, str]:
        """every conjunct is `col = value`; the wanted equalities are among them.  (ok, missing) - declines on a WHERE that is not a plain conjunction of equalities."""
        got: Dict[str, str] = {}
        for c in sf.conjuncts(where):
            ctx.need(c.kind == 'bin' and c.op in ('=', '<=>') and {c.left.kind, c.right.kind} <= {'col', 'lit'} and 'col' in (c.left.kind, c.right.kind),
                     f'commit_batch_update: WHERE of the read of {what} has a conjunct `{text(c)[:60]}` that is not a plain equality')
            def is_local(x: N) -> bool:
                return x.kind == 'lit' or (x.kind == 'col' and len(x.parts) == 1 and x.parts[0].lower() in locals_)
            a, b = (c.left, c.right) if is_local(c.right) and not is_local(c.left) else (c.right, c.left)
            ctx.need(a.kind == 'col' and is_local(b) and not is_local(a), f'commit_batch_update: conjunct `{text(c)[:60]}` of the read of {what} is not <column> = <variable or literal>')
            got[a.parts[-1].lower()] = text(b).lower()
        extra = set(got) - set(want)
        ctx.need(not extra, f'commit_batch_update: the read of {what} is further restricted by {sorted(extra)}: not judged')
        missing = [f'{k} = {v}' for k, v in want.items() if got.get(k) != v]
        return not missing, ', '.join(missing)
    why6 = []
    for st in sf.all_statements(r.ast.body):
        if st.kind == 'select' and st.into and st.frm is not None:
            tabs = [t.lower() for t in sf.table_names(st.frm)]
            for (c, _al), v in zip(st.cols, st.into):
                if ev is not None and text(v).lower() == ev and tabs == ['batch_updates']:
                    exp, miss = keyed(st.where, {'batch_id': 'in_batch_id', 'update_id': 'in_update_id'}, 'batch_updates.n_jobs')
                    if not exp:
                        why6.append(f'the expected count is read from batch_updates without `{miss}`')
                if sv is not None and text(v).lower() == sv and tabs == ['job_groups_inst_coll_staging']:
                    sums = [n for n in c.walk() if n.kind == 'func' and n.name.upper() == 'SUM' and len(n.args) == 1 and n.args[0].kind == 'col' and n.args[0].parts[-1].lower() == 'n_jobs']
                    ctx.need(len(sums) == 1, 'commit_batch_update: the staged count is not one SUM(n_jobs)')
                    stg, miss = keyed(st.where, {'batch_id': 'in_batch_id', 'update_id': 'in_update_id', 'job_group_id': '0'}, 'the staged job count')
                    if not stg:
                        why6.append(f'the staged count sums job_groups_inst_coll_staging.n_jobs without `{miss}` (every job is staged once per ancestor group: only the root group\'s rows of this update count each job once)')
    ctx.need(exp is not None and stg is not None, 'commit_batch_update: reads of expected_n_jobs / staging_n_jobs not found')
    ctx.check(bool(exp) and bool(stg), 'R6', f'sql::commit_batch_update::compares staged count of the update with its reserved count',
              '; '.join(why6) + ': the commit check does not compare the number of delivered jobs with the number reserved', r.file, r.line)



def r7(ctx: Ctx) -> None:
    """`1 <= parent < job id` (R1) proves that a parent id lies in a RESERVED range, not that the job row exists: an earlier update that reserved ids and was
    abandoned (its client crashed between updates/create and commit; later updates are still accepted) leaves a hole.  A dependency on an id in the hole can
    never be satisfied, so the commit's recount of pending parents must not count it: decided as the contribution of the row class "parent has no jobs row"
    (every column of the outer-joined jobs row is NULL - a NULL class, nothing else about the row matters) to each aggregate of the recount, and from there,
    by linearity, to the expressions stored in jobs.n_pending_parents and tested for jobs.state."""
    from engines.sqleval import ev
    from engines import linform as lf
    prog = sf.load_program()
    r = prog.routine('commit_batch_update')
    ups = [st for st in sf.all_statements(r.ast.body) if st.kind == 'update' and any(c.kind == 'col' and c.parts[-1].lower() in ('n_pending_parents',) for c, _ in st.sets)]
    ctx.need(len(ups) == 1, f'commit_batch_update: expected one UPDATE that recounts jobs.n_pending_parents, found {len(ups)}')
    st = ups[0]
    der = [j.ref for j in st.frm.joins if j.ref.kind == 'derived'] + ([st.frm.first] if st.frm.first.kind == 'derived' else [])
    der = [d for d in der if 'job_parents' in [t.lower() for t in sf.table_names(d.select.frm)]]
    ctx.need(len(der) == 1 and der[0].alias, 'commit_batch_update: derived table over job_parents not recognised')
    t_alias = der[0].alias.lower()
    sel = der[0].select
    frm = sel.frm
    ctx.need(frm.first.kind == 'table' and frm.first.name.lower() == 'job_parents' and len(frm.joins) == 1 and frm.joins[0].ref.kind == 'table' and frm.joins[0].ref.name.lower() == 'jobs',
             'commit_batch_update: recount is not `job_parents [LEFT] JOIN jobs`')
    j = frm.joins[0]
    on_ok = any(c.kind == 'bin' and c.op == '=' and {text(c.left).lower().split('.')[-1], text(c.right).lower().split('.')[-1]} == {'job_id', 'parent_id'} for c in sf.conjuncts(j.on))
    ctx.need(on_ok, 'commit_batch_update: the recount does not join jobs on job_parents.parent_id')
    outer = 'LEFT' in (j.jtype or '').upper()
    jq = {(j.ref.alias or j.ref.name).lower(), j.ref.name.lower()}
    pq = {(frm.first.alias or frm.first.name).lower(), 'job_parents'}
    jobs_cols = {c.lower() for c in prog.tables.get('jobs', [])}
    par_cols = {c.lower() for c in prog.tables.get('job_parents', [])}
    ctx.need(jobs_cols and par_cols, 'schema of jobs / job_parents not found')

    class _NotNullClass(Exception):
        pass

    def env(n: N):
        if n.kind == 'col':
            col = n.parts[-1].lower()
            if len(n.parts) >= 2:
                if n.parts[-2].lower() in jq:
                    return None
            elif col in jobs_cols and col not in par_cols:
                return None
        raise _NotNullClass(text(n))

    def agg_contrib(e: N) -> Optional[int]:
        """what ONE edge whose parent has no jobs row adds to the aggregate (None = not recognised)."""
        if e.kind == 'cast':
            return agg_contrib(e.arg)
        if e.kind == 'func' and e.name.upper() in ('COALESCE', 'IFNULL') and len(e.args) == 2 and e.args[1].kind == 'lit' and e.args[1].value == 0:
            return agg_contrib(e.args[0])
        if e.kind == 'func' and e.name.upper() in ('SUM', 'COUNT') and len(e.args) == 1 and not getattr(e, 'distinct', False):
            if not outer:
                return 0                       # inner join: the edge is not in the group at all
            a = e.args[0]
            if a.kind == 'star':
                return 1 if e.name.upper() == 'COUNT' else None
            try:
                v = ev(a, env)
            except _NotNullClass:
                return None
            if e.name.upper() == 'COUNT':
                return 0 if v is None else 1
            if v is None:
                return 0                       # SUM skips NULL
            return int(v) if isinstance(v, (int, bool)) else None
        return None

    contrib = {}
    for c, al in sel.cols:
        if al is None:
            continue
        contrib[al.lower()] = agg_contrib(c)

    def lin(e: N):
        if e.kind == 'lit' and isinstance(e.value, int) and not isinstance(e.value, bool):
            return lf.const(e.value)
        if e.kind == 'cast':
            return lin(e.arg)
        if e.kind == 'func' and e.name.upper() in ('COALESCE', 'IFNULL') and len(e.args) == 2 and e.args[1].kind == 'lit' and e.args[1].value == 0:
            return lin(e.args[0])
        if e.kind == 'col' and len(e.parts) == 2 and e.parts[0].lower() == t_alias and e.parts[1].lower() in contrib:
            return lf.sym(e.parts[1].lower())
        if e.kind == 'bin' and e.op in ('+', '-'):
            a, b = lin(e.left), lin(e.right)
            return a + b if e.op == '+' else a - b
        raise AnalysisError(f'commit_batch_update: `{text(e)[:80]}` is not a linear combination of the recount\'s aggregates')

    def missing_part(e: N, what: str) -> int:
        le = lin(e)
        tot = 0
        for x, k in le.coef.items():
            ctx.need(contrib.get(x) is not None, f'commit_batch_update: aggregate `{x}` of the recount not recognised (needed for {what})')
            tot += k * contrib[x]
        return tot

    cons = 'sql::commit_batch_update::recount'
    hist = ('History: update 1 of a batch (batches/create, n_jobs = 2) reserves job ids 1-2 and is abandoned by its client; update 2 (updates/create) gets start_job_id 3; its job 3 names '
            'absolute_parent_ids [2]: 1 <= 2 < 3 passes the front-end check although job 2 has no row; update 2 is committed')
    for c, v in st.sets:
        if c.kind != 'col':
            continue
        col = c.parts[-1].lower()
        tq = c.parts[-2].lower() if len(c.parts) >= 2 else 'jobs'
        if tq != 'jobs':
            continue
        if col == 'n_pending_parents':
            k = missing_part(v, 'jobs.n_pending_parents')
            ctx.check(k == 0, 'R7', cons + '::missing parent is not pending (n_pending_parents)',
                      f'`n_pending_parents = {text(v)[:100]}` counts {k} for a dependency edge whose parent id has no jobs row (aggregates per such edge: '
                      f'{ {a: b for a, b in contrib.items()} }). {hist}: job 3 gets n_pending_parents = {k}; no job 2 will ever complete and decrement it, job 3 stays Pending, the batch never completes',
                      r.file, r.line_of(st))
        if col == 'state':
            ok_shape = v.kind == 'func' and v.name.upper() == 'IF' and len(v.args) == 3 and v.args[0].kind == 'bin' and v.args[0].op == '=' and \
                any(x.kind == 'lit' and x.value == 0 for x in (v.args[0].left, v.args[0].right)) and text(v.args[1]).strip("'") == 'Ready'
            ctx.need(ok_shape, f'commit_batch_update: `jobs.state = {text(v)[:80]}` is not IF(<count> = 0, \'Ready\', ..)')
            e = v.args[0].right if (v.args[0].left.kind == 'lit') else v.args[0].left
            k = missing_part(e, 'jobs.state')
            ctx.check(k == 0, 'R7', cons + '::missing parent is not pending (state)',
                      f'`state = {text(v)[:100]}` keeps a job Pending for a dependency edge whose parent id has no jobs row (the tested count gets {k} per such edge). {hist}: job 3 stays Pending forever',
                      r.file, r.line_of(st))



def _has_parent_fk(prog) -> bool:
    import re
    from engines.common import read_repo
    for s_ in prog.scripts:
        if s_.endswith('.sql'):
            src = read_repo(f'batch/sql/{s_}')
            if 'job_parents' in src and 'parent_id' in src and re.search(r'FOREIGN\s+KEY\s*\(\s*`?batch_id`?\s*,\s*`?parent_id`?\s*\)\s*REFERENCES\s+`?jobs`?', src, re.I):
                return True
    return False


def r8(ctx: Ctx) -> None:
    """R1 bounds a parent id by the job's own id; R2 + R6 + the primary key make the ids of an update exist once THAT update is committed.  A parent id below
    the update's own range therefore exists only if the earlier update that reserved it was committed (or is still going to be).  Some construct has to
    establish that: a refusal to open (or to commit) an update while an earlier one is uncommitted, a look-up of the named parents in `jobs`, or a foreign
    key.  The rule looks for the ingredients of each; none at all is a violation, an ingredient it cannot verify is declined."""
    m = pf.load(FE)
    prog = sf.load_program()
    cons = f'{FE}::_create_jobs::parent ids -> job_parents::parent row exists (ids reserved by earlier updates)'
    if _has_parent_fk(prog):
        ctx.ok('R8', cons, 'foreign key job_parents(batch_id, parent_id) -> jobs')
        return
    # (g1) opening an update looks at the committed flag of the previous one
    fn = m.func('_create_batch_update.update')
    g1 = []
    for e in [e for e in sf.embedded_in(m) if e.fn is fn]:
        for st in e.stmts():
            if st.kind != 'select' or 'batch_updates' not in [t.lower() for t in sf.table_names(st.frm)]:
                continue
            mentioned = [n for c, _ in st.cols for n in c.walk()] + (list(st.where.walk()) if st.where is not None else [])
            if any(n.kind == 'col' and n.parts[-1].lower() == 'committed' for n in mentioned) or any(n.kind == 'star' for c, _ in st.cols for n in c.walk()):
                g1.append(e)
    # (g2) committing an update looks at other updates of the batch
    r = prog.routine('commit_batch_update')
    g2 = []
    for st in sf.all_statements(r.ast.body):
        for n in st.walk():
            if n.kind == 'select' and n.frm is not None and 'batch_updates' in [t.lower() for t in sf.table_names(n.frm)]:
                for c in sf.conjuncts(n.where):
                    if c.kind == 'bin' and c.op in ('<', '<=', '!=', '<>', '>', '>=') and any(x.kind == 'col' and x.parts[-1].lower() == 'update_id' for x in (c.left, c.right)):
                        g2.append(text(n)[:80])
    # (g3) the bunch handler looks the named parents up
    g3 = []
    for e in sf.embedded_in(m):
        if e.qual.startswith('_create_jobs'):
            for st in e.stmts():
                if st.kind == 'select' and [t.lower() for t in sf.table_names(st.frm)] == ['jobs']:
                    g3.append(text(st)[:80])
    ingredients = [f'_create_batch_update reads batch_updates.committed (line {e.lineno})' for e in g1] + [f'commit_batch_update compares update ids: {t}' for t in g2] + \
                  [f'_create_jobs reads jobs: {t}' for t in g3]
    ctx.need(not ingredients, f'{cons}: a construct that may establish the existence of earlier updates\' jobs is present but not verified: ' + '; '.join(ingredients[:3]))
    ctx.bad('R8', cons, 'nothing establishes that a parent id below the update\'s own range names an existing job: `1 <= parent < job id` only places it in a reserved range, a new update is opened '
            'without looking at the committed flag of the earlier ones, the commit does not look at other updates, the parents are not looked up in `jobs` and job_parents.parent_id has no foreign key. '
            'History: POST batches/create {n_jobs: 2} reserves ids 1-2 as update 1 and the client dies; POST updates/create {n_jobs: 1} opens update 2 with start_job_id 3; its bunch '
            '[{job_id: 1, absolute_parent_ids: [2]}] is accepted (1 <= 2 < 3) and inserts job 3 with a job_parents row (3, 2) although job 2 does not exist: a submission naming a missing dependency is '
            'not rejected. (The commit\'s recount then finds no row for parent 2, counts it as not pending and not succeeded, so job 3 is marked cancelled instead of hanging - R7.)',
            m.path, m.func('_create_jobs').lineno)



def r9(ctx: Ctx) -> None:
    """A job of the first update becomes Ready when mark_job_complete has decremented jobs.n_pending_parents once per job_parents row of the job: the count stored by
    the bunch insert must not exceed the number of rows stored for the job (commit_batch_update recounts only for later updates).  Compared as cardinality
    normal forms (engines/c08card.py): |list| symbols for the request's parent lists, distinct(X) for de-duplicated ones; rows that repeat a key are refused
    by the primary key of job_parents (R4), so un-deduplicated row lists are duplicate-free on every accepted request."""
    from engines import c08card as cc
    from engines import c08ids as ci
    from engines import inline
    m = pf.load(FE)
    sinks_spec = _insert_sinks(ctx, m)
    jl = [k for k, v in sinks_spec.items() if v[0] == 'jobs']
    pl = [k for k, v in sinks_spec.items() if v[0] == 'job_parents']
    ctx.need(len(jl) == 1 and len(pl) == 1, f'{FE}::_create_jobs: argument lists of the jobs / job_parents inserts not found')
    ni = sinks_spec[jl[0]][1].get('n_pending_parents')
    ctx.need(ni is not None, f'{FE}::_create_jobs: n_pending_parents is not a parameter of INSERT INTO jobs')
    m2, _il = inline.inline_functions(ci.slice_module(m, '_create_jobs'), '_create_jobs')
    fn = m2.func('_create_jobs')
    loop = _spec_loop(ctx, fn, set(sinks_spec), f'{FE}::_create_jobs')
    card = cc.Card(loop, loop.target.id)  # type: ignore[union-attr]
    cons = f'{FE}::_create_jobs::n_pending_parents = number of job_parents rows'

    def adds(n: ast.AST, lst: str) -> Optional[ast.Call]:
        if isinstance(n, ast.Expr) and isinstance(n.value, ast.Call) and isinstance(n.value.func, ast.Attribute) and n.value.func.attr in ('append', 'extend', 'insert') \
                and isinstance(n.value.func.value, ast.Name) and n.value.func.value.id == lst:
            return n.value
        return None
    # the jobs row: once per job, at the top level of the loop body
    jrows = [adds(st, jl[0]) for st in loop.body if adds(st, jl[0]) is not None]
    all_j = [n for n in ast.walk(loop) if isinstance(n, ast.stmt) and adds(n, jl[0]) is not None]
    ctx.need(len(jrows) == 1 and len(all_j) == 1 and jrows[0].func.attr == 'append' and len(jrows[0].args) == 1 and isinstance(jrows[0].args[0], ast.Tuple) and ni < len(jrows[0].args[0].elts),  # type: ignore[union-attr]
             f'{FE}::_create_jobs: the jobs row is not appended exactly once per job at the top level of the loop')
    count_e = jrows[0].args[0].elts[ni]  # type: ignore[union-attr]
    # the job_parents rows
    rows = None
    raw: List[str] = []
    texts = []
    all_p = [n for n in ast.walk(loop) if isinstance(n, ast.stmt) and adds(n, pl[0]) is not None]
    seen = 0
    try:
        count = card.count(count_e)
        from engines import linform as lf
        rows = lf.const(0)
        for st in loop.body:
            it = None
            if isinstance(st, ast.For) and not st.orelse and len(st.body) == 1 and adds(st.body[0], pl[0]) is not None and adds(st.body[0], pl[0]).func.attr == 'append':  # type: ignore[union-attr]
                it = st.iter
                seen += 1
            elif adds(st, pl[0]) is not None and adds(st, pl[0]).func.attr == 'extend' and len(adds(st, pl[0]).args) == 1:  # type: ignore[union-attr]
                a = adds(st, pl[0]).args[0]  # type: ignore[union-attr]
                if isinstance(a, (ast.GeneratorExp, ast.ListComp)):
                    it = a
                    seen += 1
            if it is None:
                continue
            rows = rows + card.card(it)
            c_ = card.canon(it)
            texts.append(pf.nsrc(it)[:80])
            if not c_.startswith('distinct('):
                raw.append(c_)
        ctx.need(seen == len(all_p) and seen >= 1, f'{FE}::_create_jobs: rows are added to `{pl[0]}` other than by one unconditional `for p in <list>: {pl[0]}.append(..)` per list at the top level of the per-job loop')
        how, why = cc.compare(card, count, rows, raw)
    except AnalysisError as e:
        raise AnalysisError(f'{cons}: {e}')
    ctx.need(how != 'unknown', f'{cons}: `{pf.nsrc(count_e)}` (= {count}) against the rows built from {texts} (= {rows}): {why}')
    ctx.check(how != 'more', 'R9', cons, f'jobs.n_pending_parents is stored as `{pf.nsrc(count_e)}` = {count} while the job_parents rows of the job are built from {texts} = {rows}: {why}. ' +
              ('A job that names the same parent twice (e.g. parent_ids [1, 1], or the same job once by its absolute and once by its in-update id) is accepted with more pending parents than edges; '
               if 'dup(' in why else 'A job is accepted with more pending parents than dependency edges (some of the parents it names get no job_parents row); ') +
              'mark_job_complete decrements once per edge, so in the first update (no recount at commit) the job stays Pending with n_pending_parents > 0 after all its parents finished and the '
              'committed batch never completes', m.path, jrows[0].lineno, detail={'count': str(count), 'rows': str(rows), 'relation': how, 'why': why})


ID_KEYS = ('job_id', 'parent_ids', 'absolute_parent_ids', 'in_update_parent_ids')


def _accepted_types(vm: pf.Module, e: ast.AST, depth: int = 5) -> Optional[Set[str]]:
    """Python types a hailtop.utils.validate validator expression lets through (element types for listof); None = not recognised."""
    if depth <= 0:
        return None
    if isinstance(e, ast.Name):
        table = {'int_type': {'int'}, 'str_type': {'str'}, 'bool_type': {'bool'}, 'non_empty_str_type': {'str'}}
        if e.id in table:
            return table[e.id]
        try:
            return _accepted_types(vm, vm.global_assign(e.id), depth - 1)
        except AnalysisError:
            return None
    if isinstance(e, ast.Call):
        f = (pf.dotted(e.func) or '').split('.')[-1]
        if f in ('listof', 'nullable') and len(e.args) == 1:
            inner = _accepted_types(vm, e.args[0], depth - 1)
            return None if inner is None else (inner | {'None'} if f == 'nullable' else inner)
        if f == 'numeric':
            return {'int', 'float'}
        if f == 'TypedValidator' and len(e.args) == 1:
            t = e.args[0]
            if isinstance(t, ast.Name):
                return {t.id}
            if isinstance(t, ast.Tuple) and all(isinstance(x, ast.Name) for x in t.elts):
                return {x.id for x in t.elts}  # type: ignore[attr-defined]
        if f in ('anyof', 'MultipleValidator'):
            return None
    return None


def r5(ctx: Ctx) -> None:
    """The ids of the dependency graph are integers at the API boundary: a fractional JSON number passes `parent < child` / `>= 1` as a
    float and is then rounded by the INT column (1.6 -> 2), so the stored edge is not the edge that was validated (self / forward edge)."""
    vm = pf.load(VAL)
    jv = vm.global_assign('job_validator')
    d = jv.args[0] if isinstance(jv, ast.Call) and jv.args and isinstance(jv.args[0], ast.Dict) else (jv if isinstance(jv, ast.Dict) else None)
    ctx.need(isinstance(d, ast.Dict), f'{VAL}::job_validator is not keyed(<dict literal>)')
    seen = set()
    for k, v in zip(d.keys, d.values):  # type: ignore[union-attr]
        key = pf.const_str(k.args[0]) if isinstance(k, ast.Call) and (pf.dotted(k.func) or '').split('.')[-1] == 'required' and k.args else pf.const_str(k) if k is not None else None
        if key not in ID_KEYS:
            continue
        seen.add(key)
        ts = _accepted_types(vm, v)
        ctx.need(ts is not None, f'{VAL}::job_validator[{key!r}]: validator `{pf.nsrc(v)}` not recognised')
        ctx.check(ts <= {'int'}, 'R5', f'{VAL}::job_validator::{key} is an integer', f'`{pf.nsrc(v)}` lets {sorted(ts - {"int"})} values through for {key}: e.g. parent id 1.6 on job 2 satisfies '  # type: ignore[operator]
                  '1 <= parent < child as a float and is stored as 2 by the INT column of job_parents -- a self dependency that never resolves', vm.path, getattr(v, 'lineno', 0))
    ctx.need(seen >= {'job_id', 'absolute_parent_ids', 'in_update_parent_ids'}, f'{VAL}::job_validator: id keys found: {sorted(seen)}')


def run(ctx: Ctx) -> None:
    ctx.explanation = 'Linear-normal-form implication between the rejecting tests of the job submission path and the id ranges the property demands, plus guard structure of commit_batch_update.'
    ctx.rule('R1', 'stored parent ids satisfy 1 <= parent < stored job id for absolute and in-update parents; edges stored under the job\'s own id', 4)
    ctx.rule('R2', 'stored job id lies in start_job_id .. start_job_id + n_jobs - 1 of the batch_updates row of the job\'s own (batch_id, update_id)', 3)
    ctx.rule('R3', 'commit refuses a wrong job count: all writes under the equality guard; refusal rolls back with rc != 0; front end checks rc', 7)
    ctx.rule('R4', 'duplicate parents rejected; contiguous job ids demanded', 2)
    ctx.rule('R5', 'job ids and parent ids are validated as integers (no fractional ids rounded by the INT columns after validation)', 4)
    ctx.rule('R6', 'the staged job count the commit compares is the number of inserted job rows: staged after INSERT INTO jobs, never by a replayed bunch, 1 per job; commit compares it with batch_updates.n_jobs', 3)
    ctx.rule('R7', 'the commit\'s recount of pending parents gives 0 for a dependency whose parent id has no jobs row (hole of an abandoned update), in n_pending_parents and in the state decision', 2)
    ctx.rule('R8', 'something establishes that a parent id reserved by an EARLIER update names an existing job (earlier updates committed before a new one is opened / committed, parents looked up, or a foreign key)', 1)
    ctx.rule('R9', 'the pending-parent count stored with a job does not exceed the number of job_parents rows stored for it on any accepted request (cardinality normal forms; duplicates)', 1)
    from engines import c08ids as _ci
    ctx.unit('SQL texts resolved through module-level constants', _ci.resolve_module_sql(pf.load('batch/batch/front_end/front_end.py')))
    # the rules are independent: a shape one of them cannot analyse must not hide the verdicts of the others
    declined: List[str] = []
    for rule in (r1_r2, r3, r4, r5, r6, r7, r8, r9):
        try:
            rule(ctx)
        except AnalysisError as e:
            if type(e) is not AnalysisError:
                raise                      # AnchorRemoved and friends keep their own handling
            declined.append(str(e))
    ctx.need(not declined, ' | '.join(declined))
