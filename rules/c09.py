"""C09 Submission is idempotent under client retries.

  R1  token look-ups: batch creation and update creation first select by (token, owner / batch) FOR UPDATE inside the transaction
      and return the stored ids before any insert
  R2  range reservation: the next update's start ids are last.start + last.n (jobs and job groups) and update_id = last + 1, read with
      ORDER BY update_id DESC LIMIT 1 FOR UPDATE in the same transaction, and stored in the like-named columns
  R3  duplicate bunch: in insert_jobs_into_db the INSERT INTO jobs is the first write; its duplicate-key handler returns before any
      later statement; every counter-bearing insert comes after it inside the same transaction function
  R4  a repeated commit does nothing: the already-committed branch of commit_batch_update contains no write
  R5  job-group bunches are accepted only in order (next id == last inserted id + 1), so a replayed bunch cannot insert twice
  R6  id arithmetic: client and server compute absolute = start + relative - 1 at all seven sites (linear normal form)
Not decided: interleaving with a second client (InnoDB locking semantics).
"""
from __future__ import annotations

import ast
from typing import Dict, List, Optional, Tuple

from engines import linform as lf
from engines import pyfacts as pf
from engines import sqlfront as sf
from engines import sqlrules as sr
from engines.common import AnalysisError, Ctx
from engines.sqlast import N, text

META = dict(
    category='other',
    text='Ordering/dominance obligations that make each submission request idempotent (look-up before insert, first-write duplicate detection, no-op recommit, '
         'in-order group bunches) and linear-normal-form agreement of the id arithmetic between client and server.',
    note='Trusted: SQL parser, Python CFG; MySQL unique keys on (batches.token,user), (batch_updates.batch_id,token), jobs primary key. Concurrent second client not decided.',
    technique='static analysis: CFG dominance, statement ordering inside transaction functions, linear normal forms of id expressions',
    design_ref='DESIGN.md §3 C09',
)

FE = 'batch/batch/front_end/front_end.py'
CL = 'hail/python/hailtop/batch_client/aioclient.py'


def _embs(m: pf.Module, fn: pf.FuncDef) -> List[sf.Embedded]:
    return sorted([e for e in sf.embedded_in(m) if e.fn is fn], key=lambda e: e.lineno)


def _is_write(e: sf.Embedded) -> bool:
    return any(sf.written_tables(st) or st.kind == 'call' for st in e.stmts())


def r1(ctx: Ctx, m: pf.Module) -> None:
    for qual, table, keycols, what in (('_create_batch.insert', 'batches', {'token', 'user'}, 'batch'),
                                       ('_create_batch_update.update', 'batch_updates', {'batch_id', 'token'}, 'update')):
        fn = m.func(qual)
        cons = f'{FE}::{qual}'
        ctx.check(any(pf.dotted(d.func) == 'transaction' for d in fn.decorator_list if isinstance(d, ast.Call)), 'R1', cons + '::transaction', 'look-up and insert are not in one @transaction', m.path, fn.lineno)
        embs = _embs(m, fn)
        look = None
        for e in embs:
            for st in e.stmts():
                if st.kind == 'select' and sf.table_names(st.frm) == [table]:
                    cols = {text(c.left).lower().split('.')[-1] for c in sf.conjuncts(st.where) if c.kind == 'bin' and c.op == '=' and c.right.kind == 'param'}
                    if cols == keycols and st.lock == 'FOR UPDATE' and e.receiver == 'tx':
                        look = e
                        break
            if look:
                break
        ctx.check(look is not None, 'R1', cons + '::token look-up', f'no `SELECT .. FROM {table} WHERE {sorted(keycols)} .. FOR UPDATE` on the transaction precedes the insert', m.path, fn.lineno)
        if look is None:
            continue
        g = pf.cfg(fn)
        ln = g.node_of(look.call)
        ctx.need(ln, f'{qual}: CFG node of the look-up not found')
        var = pf.nsrc(ln[0].ast.targets[0]) if isinstance(ln[0].ast, ast.Assign) else None
        # the test on the look-up result that directly follows it (the variable may be reused later)
        tests = []
        cur = ln[0]
        for _ in range(4):
            nxt = [s_ for s_, lab in cur.succ if lab != 'exc']
            if len(nxt) != 1:
                break
            cur = nxt[0]
            if cur.kind == 'test' and var is not None and pf.nsrc(cur.ast) in (var, f'{var} is not None'):
                tests = [cur]
                break
        returns_stored = bool(tests) and all(any(s.kind == 'return' and var in pf.nsrc(s.ast) for s, lab in t.succ if lab == 'T') for t in tests)
        writes = [n for e in embs if _is_write(e) for n in g.node_of(e.call)]
        # nested helper calls that write (e.g. _create_job_group) count as writes too
        writes += g.find(lambda n: any(pf.dotted(c.func) in ('_create_job_group',) for c in pf.node_calls(n)))
        ctx.need(writes, f'{qual}: no write found')
        ok = returns_stored and all(g.path_avoiding(g.entry, lambda n, w=w: n is w, lambda n: False, edge_ok=lambda a, b, lab: not (a in tests and lab == 'F')) is None for w in writes) and \
            all(g.dominated_by(w, lambda n: n is ln[0]) for w in writes)
        ctx.check(ok, 'R1', cons + '::return before insert', f'a re-sent {what} creation request does not return the ids stored under its token before anything is inserted '
                  f'(a second {what} would be created or the request would fail on the unique key)', m.path, look.lineno)


def r2(ctx: Ctx, m: pf.Module) -> None:
    fn = m.func('_create_batch_update.update')
    embs = _embs(m, fn)
    last = None
    ins = None
    for e in embs:
        for st in e.stmts():
            if st.kind == 'select' and sf.table_names(st.frm) == ['batch_updates'] and st.order:
                last = (e, st)
            if st.kind == 'insert' and st.table.lower() == 'batch_updates':
                ins = (e, st)
    ctx.need(last is not None and ins is not None, '_create_batch_update: last-update select / insert not found')
    e, st = last
    cons = f'{FE}::_create_batch_update.update'
    ok = [(text(x).lower().split('.')[-1], d) for x, d in st.order] == [('update_id', 'DESC')] and text(st.limit) == '1' and st.lock == 'FOR UPDATE' and e.receiver == 'tx' and \
        sr.has_eq(st.where, 'batch_id', '%s') and len(sf.conjuncts(st.where)) == 1
    ctx.check(ok, 'R2', cons + '::last update read', 'the previous update is not read as ORDER BY update_id DESC LIMIT 1 FOR UPDATE on the transaction (ranges could overlap or leave gaps)', m.path, e.lineno)
    g = pf.cfg(fn)
    var = pf.nsrc(g.node_of(e.call)[0].ast.targets[0])
    want = {
        'update_id': lf.Lin({f"{var}['update_id']": 1}, 1),
        'update_start_job_id': lf.Lin({f"{var}['start_job_id']": 1, f"{var}['n_jobs']": 1}, 0),
        'update_start_job_group_id': lf.Lin({f"{var}['start_job_group_id']": 1, f"{var}['n_job_groups']": 1}, 0),
    }
    defs = pf.assignments(fn)
    for name, w in want.items():
        vals = [v for v in defs.get(name, []) if isinstance(v, ast.expr)]
        got = []
        for v in vals:
            # strip int(...) wrappers
            class _T(ast.NodeTransformer):
                def visit_Call(self, node):
                    self.generic_visit(node)
                    if pf.dotted(node.func) == 'int' and len(node.args) == 1:
                        return node.args[0]
                    return node
            got.append(lf.lin(_T().visit(ast.parse(pf.src(v), mode='eval').body)))
        firsts = [x for x in got if x.is_const()]
        nexts = [x for x in got if not x.is_const()]
        ok = len(nexts) == 1 and nexts[0] == w and len(firsts) == 1 and firsts[0].const == 1
        ctx.check(ok, 'R2', cons + f'::{name}', f'{name} is computed as {[pf.nsrc(v) for v in vals]}; expected 1 for the first update and previous start + previous count (update_id: previous + 1) afterwards', m.path, fn.lineno)
    ie, ist = ins
    elts = sr.args_tuple(fn, ie.call.args[1])
    ctx.need(elts is not None and ist.cols is not None and len(elts) == len(ist.cols), '_create_batch_update: cannot bind INSERT INTO batch_updates')
    d = {c.lower(): pf.nsrc(x) for c, x in zip(ist.cols, elts)}
    wantb = {'batch_id': 'batch_id', 'update_id': 'update_id', 'token': 'update_token', 'start_job_group_id': 'update_start_job_group_id', 'n_job_groups': 'n_job_groups',
             'start_job_id': 'update_start_job_id', 'n_jobs': 'n_jobs', 'committed': 'False'}
    gotb = {k: d.get(k) for k in wantb}
    ctx.check(gotb == wantb, 'R2', cons + '::stored range', f'the reserved range is stored as {gotb}, expected {wantb}', m.path, ie.lineno)


def r3(ctx: Ctx, m: pf.Module) -> None:
    fn = m.func('_create_jobs.insert_jobs_into_db')
    cons = f'{FE}::_create_jobs.insert_jobs_into_db'
    embs = _embs(m, fn)
    writes = [e for e in embs if _is_write(e)]
    ctx.need(len(writes) >= 5, 'insert_jobs_into_db: fewer than five writes')
    first = writes[0]
    is_jobs = any(st.kind == 'insert' and st.table.lower() == 'jobs' for st in first.stmts())
    ctx.check(is_jobs and all(e.receiver == 'tx' for e in writes), 'R3', cons + '::jobs insert first', 'INSERT INTO jobs is not the first write of the bunch transaction: a replayed bunch would '
              f'repeat `{text(first.stmts()[0])[:60]}` before the duplicate is noticed', m.path, first.lineno)
    # the 1062 handler around it returns
    par = m.parents()
    tr = par.get(first.call)
    while tr is not None and not isinstance(tr, ast.Try):
        tr = par.get(tr)
    ok = False
    if isinstance(tr, ast.Try):
        for h in tr.handlers:
            if h.type is not None and 'IntegrityError' in pf.nsrc(h.type):
                for s in ast.walk(h):
                    if isinstance(s, ast.If) and '1062' in pf.nsrc(s.test) and any(isinstance(x, ast.Return) for x in s.body):
                        ok = True
    ctx.check(ok, 'R3', cons + '::duplicate returns', 'a duplicate-key error on INSERT INTO jobs does not return from the transaction function: the staging / cancellable counters of an '
              'already inserted bunch would be added again', m.path, first.lineno)
    counters = [e for e in writes if any(st.kind == 'insert' and st.table.lower() in ('job_groups_inst_coll_staging', 'job_group_inst_coll_cancellable_resources') for st in e.stmts())]
    ctx.check(len(counters) == 2 and all(c.lineno > first.lineno for c in counters), 'R3', cons + '::counters after jobs', 'counter-bearing inserts do not all come after INSERT INTO jobs', m.path, fn.lineno)
    outer = m.func('_create_jobs')
    wrap = m.func('_create_jobs.write_and_insert') if m.has_func('_create_jobs.write_and_insert') else None
    ok = wrap is not None and any(pf.dotted(d.func) == 'transaction' for d in wrap.decorator_list if isinstance(d, ast.Call)) and \
        any(isinstance(c, ast.Call) and pf.dotted(c.func) == 'insert_jobs_into_db' for c in ast.walk(wrap))
    ctx.check(ok, 'R3', f'{FE}::_create_jobs.write_and_insert::one transaction', 'the bunch inserts are not executed inside one @transaction', m.path, outer.lineno)


def r4(ctx: Ctx) -> None:
    prog = sf.load_program()
    r = prog.routine('commit_batch_update')
    flat = list(sf.all_statements(r.ast.body))
    # the committed flag: read from this update's row, FOR UPDATE, inside the transaction
    flag = None
    for i, st in enumerate(flat):
        if st.kind == 'select' and st.into and st.frm is not None and sf.table_names(st.frm) == ['batch_updates'] and \
                sr.has_eq(st.where, 'batch_id', 'in_batch_id') and sr.has_eq(st.where, 'update_id', 'in_update_id'):
            for (c, _), v in zip(st.cols, st.into):
                if c.kind == 'col' and c.parts[-1].lower() == 'committed':
                    flag = (i, st, text(v).lower())
    ctx.need(flag is not None, 'commit_batch_update: read of batch_updates.committed not found')
    i, st, var = flag
    starts = [j for j, x in enumerate(flat) if x.kind == 'txn' and x.what == 'START TRANSACTION']
    locked = st.lock == 'FOR UPDATE' and bool(starts) and starts[0] < i
    ctx.check(locked, 'R4', f'{r.file}::commit_batch_update::committed flag read under lock', f'the already-committed decision is taken from a read that is not `FOR UPDATE` inside the transaction '
              f'(lock `{st.lock or "none"}`, {"before" if not starts or starts[0] > i else "after"} START TRANSACTION): two overlapping commit requests both see committed = 0 and both add the '
              'staged counts', r.file, r.line_of(st))
    n = 0
    writes_unguarded = []
    for x, guard in sf.guarded_statements(r.ast.body):
        g = [(text(c).lower(), p) for c, p in guard]
        if (var, True) in g:
            n += 1
            ctx.check(not sf.written_tables(x) and x.kind != 'call', 'R4', f'{r.file}::commit_batch_update::already committed::{x.kind}', 'the already-committed branch writes: a repeated commit is not a no-op',
                      r.file, r.line_of(x))
        elif sf.written_tables(x) and (var, False) not in g:
            writes_unguarded.append(x)
    ctx.need(n >= 1, 'commit_batch_update: already-committed branch not found')
    ctx.check(not writes_unguarded, 'R4', f'{r.file}::commit_batch_update::writes only when not committed', f'{len(writes_unguarded)} write(s) happen regardless of the committed flag', r.file, r.line)


def r5(ctx: Ctx, m: pf.Module) -> None:
    fn = m.func('_create_job_groups.insert')
    g = pf.cfg(fn)
    tests = g.find(lambda n: n.kind == 'test' and 'next_job_group_id' in pf.nsrc(n.ast))
    ok = len(tests) == 1
    if ok:
        t = tests[0]
        c = t.ast
        ok = isinstance(c, ast.Compare)
        # compare in linear form: next - (last + 1) == 0 is the accepting case
        l = lf.lin(c.left) - lf.lin(c.comparators[0])
        ok = isinstance(c.ops[0], ast.NotEq) and (l == lf.Lin({'next_job_group_id': 1, "last_inserted_job_group_id['job_group_id']": -1}, -1) or (-l) == lf.Lin({'next_job_group_id': 1, "last_inserted_job_group_id['job_group_id']": -1}, -1))
        ok = ok and any(s.kind == 'raise' and 'HTTPBadRequest' in pf.nsrc(s.ast) for s, lab in t.succ if lab == 'T')
        creates = g.find(lambda n: any(pf.dotted(cc.func) == '_create_job_group' for cc in pf.node_calls(n)))
        ok = ok and bool(creates) and all(g.path_avoiding(g.entry, lambda n, w=w: n is w, lambda n: False, edge_ok=lambda a, b, lab: not (a is t and lab == 'F')) is None for w in creates)
    ctx.check(ok, 'R5', f'{FE}::_create_job_groups.insert::in order', 'job groups can be inserted although the bunch does not start at last inserted id + 1 (a replayed bunch is not refused)', m.path, fn.lineno)
    d = pf.assignments(fn).get('next_job_group_id', [])
    okd = len(d) == 1 and lf.lin(d[0]) == lf.Lin({'start_job_group_id': 1, "job_group_specs[0]['job_group_id']": 1}, -1)
    ctx.check(okd, 'R5', f'{FE}::_create_job_groups.insert::next id', f'next_job_group_id is `{pf.nsrc(d[0]) if d else None}`, expected start_job_group_id + first relative id - 1', m.path, fn.lineno)
    embs = _embs(m, fn)
    sel = [e for e in embs if any(st.kind == 'select' and sf.table_names(st.frm) == ['job_groups'] and st.order for st in e.stmts())]
    oks = len(sel) == 1
    if oks:
        st = sel[0].stmts()[0]
        oks = [(text(x).lower(), dd) for x, dd in st.order] == [('job_group_id', 'DESC')] and text(st.limit) == '1' and st.lock == 'FOR UPDATE' and sel[0].receiver == 'tx'
    ctx.check(oks, 'R5', f'{FE}::_create_job_groups.insert::last inserted read', 'the last inserted job group is not read as ORDER BY job_group_id DESC LIMIT 1 FOR UPDATE in the transaction', m.path, fn.lineno)


def r6(ctx: Ctx, m: pf.Module) -> None:
    cm = pf.load(CL)
    sites: List[Tuple[str, str, ast.expr, Dict[str, int]]] = []

    def assign_value(mod: pf.Module, qual: str, target: str) -> ast.expr:
        fn = mod.func(qual)
        vals = [n.value for n in pf.walk_shallow(fn) if isinstance(n, ast.Assign) and pf.nsrc(n.targets[0]) == target and not isinstance(n.value, ast.Constant)
                and 'None' != pf.nsrc(n.value)]
        vals = [v for v in vals if isinstance(v, ast.BinOp)]
        if len(vals) != 1:
            raise AnalysisError(f'{mod.rel}::{qual}: expected one arithmetic definition of {target}, found {len(vals)}')
        return vals[0]

    specs = [
        (cm, 'Job._submit', 'self._job_id', {'in_update_start_job_id': 1, 'self._job_id': 1}),
        (cm, 'JobGroup._submit', 'self._job_group_id', {'in_update_start_job_group_id': 1, 'self._job_group_id': 1}),
        (m, '_create_jobs', 'job_id', {"spec['job_id']": 1, 'update_start_job_id': 1}),
        (m, '_create_jobs', 'job_group_id', {'update_start_job_group_id': 1, 'in_update_job_group_id': 1}),
        (m, '_create_job_groups.insert', 'job_group_id', {'start_job_group_id': 1, "spec['job_group_id']": 1}),
        (m, '_create_job_groups.insert', 'parent_job_group_id', {'start_job_group_id': 1, "spec['in_update_parent_id']": 1}),
    ]
    for mod, qual, target, coef in specs:
        v = assign_value(mod, qual, target)
        got = lf.lin(v)
        ctx.check(got == lf.Lin(coef, -1), 'R6', f'{mod.rel}::{qual}::{target}', f'`{target} = {pf.nsrc(v)}` is not start + relative - 1: client and server would disagree on the absolute id', mod.path, v.lineno)
    # in-update parents: comprehension element
    fn = m.func('_create_jobs')
    comp = [n for n in pf.walk_shallow(fn) if isinstance(n, ast.ListComp) and 'in_update_parent_ids' in pf.nsrc(n.generators[0].iter)]
    ctx.need(len(comp) == 1, '_create_jobs: in-update parent comprehension not found')
    tv = pf.nsrc(comp[0].generators[0].target)
    ctx.check(lf.lin(comp[0].elt) == lf.Lin({'update_start_job_id': 1, tv: 1}, -1), 'R6', f'{FE}::_create_jobs::in-update parent id', f'`{pf.nsrc(comp[0].elt)}` is not start + relative - 1', m.path, comp[0].lineno)


def run(ctx: Ctx) -> None:
    ctx.explanation = 'Dominance / ordering obligations for idempotent submission in the front end and the commit procedure; linear normal forms of the id arithmetic on both sides of the wire.'
    ctx.rule('R1', 'batch / update creation: token look-up FOR UPDATE in the transaction, stored ids returned before any insert', 6)
    ctx.rule('R2', 'update ranges: next start = previous start + previous count, update_id + 1, read DESC LIMIT 1 FOR UPDATE, stored in like-named columns', 5)
    ctx.rule('R3', 'bunch replay: jobs insert first, duplicate-key returns, counters after it, one transaction', 4)
    ctx.rule('R4', 'repeated commit writes nothing: flag read FOR UPDATE inside the transaction, committed branch read-only, all writes under NOT committed', 4)
    ctx.rule('R5', 'job-group bunches only in order', 3)
    ctx.rule('R6', 'absolute id = start + relative - 1 at all client and server sites', 7)
    m = pf.load(FE)
    r1(ctx, m)
    r2(ctx, m)
    r3(ctx, m)
    r4(ctx)
    r5(ctx, m)
    r6(ctx, m)
