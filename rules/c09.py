"""C09 Submission is idempotent under client retries.

  R1  token look-ups: batch creation and update creation first select by (token, owner / batch) FOR UPDATE inside the transaction
      and return the stored ids before any insert
  R2  range reservation: the next update's start ids are last.start + last.n (jobs and job groups) and update_id = last + 1, read with
      ORDER BY update_id DESC LIMIT 1 FOR UPDATE in the same transaction, and stored in the like-named columns
  R3  duplicate bunch: in insert_jobs_into_db the INSERT INTO jobs is the first write; its duplicate-key handler returns before any
      later statement; every counter-bearing insert comes after it inside the same transaction function
  R4  a repeated commit does nothing: the already-committed branch of commit_batch_update contains no write
  R5  job-group bunches are accepted only in order (next id == last inserted id + 1), so a replayed bunch cannot insert twice
  R6  id arithmetic: client and server compute absolute = start + relative - 1 at all seven sites (linear normal form)
  R7  client tokens name ONE logical request: the update token sent with updates/create and update-fast is drawn fresh (secrets / uuid) for
      every update, or - when it is kept on the Batch object - is never sent again after the update it named has completed (typestate
      cleared / fresh / sent-open / sent-completed over submit() with its helpers, fast and bunched paths; submit() re-entered on the same
      object); a fresh-token method is not handed to a retry helper (every retry would open another update); the batch token is
      self.token and the two batch-creating requests are sent at most once per object (dominated by _raise_if_created, followed by
      self._id = ...)
  R8  token wiring on the server: each of the four create / update handlers passes the token of the spec it validated to
      _create_batch_update; the look-ups bind (token, user) / (batch_id, update_token) unchanged; the replayed answer of
      _create_batch_update returns the stored columns in the positions of the first answer; the handlers unpack and publish them under
      the names the client reads in EVERY response they build (first answer and the already-committed replays), seen through response-building
      helpers (statement-level and expression-level inlining, dict literals and dict(...) calls); the commit handler publishes the start columns
      of the update it commits under their own names; batch_updates is written by a plain INSERT
Not decided: interleaving with a second client (InnoDB locking semantics).
"""
from __future__ import annotations

import ast
from typing import Dict, List, Optional, Sequence, Set, Tuple

from engines import c0910facts as cf
from engines import linform as lf
from engines import pyfacts as pf
from engines import sqlfront as sf
from engines import sqlrules as sr
from engines.common import AnalysisError, AnchorRemoved, Ctx
from engines.sqlast import N, text

META = dict(
    category='other',
    text='Ordering/dominance obligations that make each submission request idempotent (look-up before insert, first-write duplicate detection, no-op recommit, '
         'in-order group bunches), linear-normal-form agreement of the id arithmetic between client and server, typestate of the client-side tokens (a token names one '
         'logical request) and def-use wiring of tokens and reserved ids between handlers, look-ups, stored rows and the client.',
    note='Trusted: SQL parser, Python CFG; MySQL unique keys on (batches.token,user), (batch_updates.batch_id,token), jobs primary key. Concurrent second client not decided.',
    technique='static analysis: CFG dominance, statement ordering inside transaction functions, linear normal forms of id expressions, interprocedural typestate over a finite token-state domain, def-use binding of SQL parameters',
    design_ref='DESIGN.md §3 C09',
)

FE = 'batch/batch/front_end/front_end.py'
CL = 'hail/python/hailtop/batch_client/aioclient.py'


def _embs(m: pf.Module, fn: pf.FuncDef) -> List[sf.Embedded]:
    return sorted([e for e in sf.embedded_in(m) if e.fn is fn], key=lambda e: e.lineno)


def _is_write(e: sf.Embedded) -> bool:
    return any(sf.written_tables(st) or st.kind == 'call' for st in e.stmts())


def _result_tests(g: pf.CFG, var: str) -> Dict[int, str]:
    """test nodes on the truthiness / None-ness of `var` -> label of the edge taken when a row was found."""
    out: Dict[int, str] = {}
    for t in g.find(lambda n: n.kind == 'test'):
        a = t.ast
        neg = False
        while isinstance(a, ast.UnaryOp) and isinstance(a.op, ast.Not):
            neg, a = not neg, a.operand
        found: Optional[bool] = None
        if isinstance(a, ast.Name) and a.id == var:
            found = True
        elif isinstance(a, ast.Compare) and len(a.ops) == 1 and isinstance(a.left, ast.Name) and a.left.id == var and isinstance(a.comparators[0], ast.Constant) and a.comparators[0].value is None:
            found = isinstance(a.ops[0], (ast.IsNot, ast.NotEq))
        if found is not None:
            out[t.id] = 'T' if found != neg else 'F'
    return out


def r1(ctx: Ctx, m: pf.Module) -> None:
    for qual, table, keycols, what in (('_create_batch.insert', 'batches', {'token', 'user'}, 'batch'),
                                       ('_create_batch_update.update', 'batch_updates', {'batch_id', 'token'}, 'update')):
        fn = m.func(qual)
        cons = f'{FE}::{qual}'
        decs = [pf.dotted(d.func) if isinstance(d, ast.Call) else pf.dotted(d) for d in fn.decorator_list]
        if not any(d == 'transaction' for d in decs):
            ctx.need(not decs, f'{cons}: decorated with {decs}; whether look-up and insert share a transaction is not decided')
        ctx.check(any(d == 'transaction' for d in decs), 'R1', cons + '::transaction', 'look-up and insert are not in one @transaction (the function that holds them is not decorated)', m.path, fn.lineno)
        embs = _embs(m, fn)
        # the token look-up: a SELECT from the table whose WHERE compares the token column with a parameter
        cands = []
        for e in embs:
            for st in e.stmts():
                if st.kind == 'select' and st.frm is not None and table in [t.lower() for t in sf.table_names(st.frm)]:
                    cols = {c.left.parts[-1].lower() for c in sf.conjuncts(st.where) if c.kind == 'bin' and c.op == '=' and c.left.kind == 'col' and c.right.kind == 'param'} | \
                           {c.right.parts[-1].lower() for c in sf.conjuncts(st.where) if c.kind == 'bin' and c.op == '=' and c.right.kind == 'col' and c.left.kind == 'param'}
                    if 'token' in cols:
                        cands.append((e, st, cols))
        if not cands:
            # closed enumeration: every read of the table in this transaction function is a plain keyed SELECT (conjunction of `col = %s`), none of them is keyed by token, and
            # the transaction is not handed to a helper that could do the look-up -> there is no look-up by token although the function inserts one
            reads = [(e, st) for e in embs for st in e.stmts() if st.kind == 'select' and st.frm is not None and table in [t.lower() for t in sf.table_names(st.frm)]]
            plain = all(all(c.kind == 'bin' and c.op == '=' and {c.left.kind, c.right.kind} == {'col', 'param'} for c in sf.conjuncts(st.where)) and sf.table_names(st.frm) == [table] for _e, st in reads)
            opaque = [e for e in embs if e.sql_text is None or e.parse_error]
            handed = [pf.dotted(c.func) or pf.nsrc(c.func) for c in pf.walk_shallow(fn) if isinstance(c, ast.Call) and not (isinstance(c.func, ast.Attribute) and isinstance(c.func.value, ast.Name) and c.func.value.id == 'tx')
                      and any(isinstance(a, ast.Name) and a.id == 'tx' for a in list(c.args) + [k.value for k in c.keywords])]
            inserts_token = any(st.kind == 'insert' and st.table.lower() == table and st.cols is not None and 'token' in [c.lower() for c in st.cols] for e in embs for st in e.stmts())
            ctx.need(plain and not opaque and not handed and inserts_token and reads, f'{cons}: no look-up of {table} by token found (reads: {len(reads)}, helpers given the transaction: {handed}); not judged')
            ctx.bad('R1', cons + '::token look-up', f'the transaction inserts a {table} row with a token but never reads {table} by that token: its reads are ' +
                    '; '.join(f'`{text(st)[:90]}`' for _e, st in reads) + f'. A re-sent {what} creation request is only recognised by accident (e.g. while its {what} is still the latest one): after another '
                    f'client\'s request in between, the retry creates a second {what} (or fails on the unique key)', m.path, reads[0][0].lineno)
            continue
        ctx.need(len(cands) == 1, f'{cons}: expected one look-up of {table} by token, found {len(cands)}')
        look, lst, cols = cands[0]
        missing = keycols - cols
        locked = (lst.lock or '').startswith('FOR UPDATE') and look.receiver.split('.')[-1] == 'tx'
        ctx.check(not missing and locked, 'R1', cons + '::token look-up', (f'the look-up by token does not restrict {sorted(missing)}: another {what}\'s token is found' if missing else
                  f'the token look-up is not `FOR UPDATE` on the transaction (lock: {lst.lock or "none"}, receiver {look.receiver}): two concurrent first attempts both find nothing and both insert'), m.path, look.lineno)
        g = pf.cfg(fn)
        ln = g.node_of(look.call)
        ctx.need(len(ln) == 1 and isinstance(ln[0].ast, ast.Assign) and isinstance(ln[0].ast.targets[0], ast.Name), f'{qual}: the result of the look-up is not bound to a name')
        var = ln[0].ast.targets[0].id
        # an edge of a test "says not found" when taking it implies the look-up result is falsy / None
        def says_not_found(test: ast.AST, lab: str) -> bool:
            a, want = test, (lab == 'T')
            while isinstance(a, ast.UnaryOp) and isinstance(a.op, ast.Not):
                a, want = a.operand, not want
            if isinstance(a, ast.Name) and a.id == var:
                return not want
            if isinstance(a, ast.Compare) and len(a.ops) == 1 and isinstance(a.left, ast.Name) and a.left.id == var and isinstance(a.comparators[0], ast.Constant) and a.comparators[0].value is None:
                return want == isinstance(a.ops[0], (ast.Is, ast.Eq))
            if isinstance(a, ast.BoolOp):
                # all conjuncts hold on the true side of `and`; all disjuncts fail on the false side of `or`
                if isinstance(a.op, ast.And) and want:
                    return any(says_not_found(v, 'T') for v in a.values)
                if isinstance(a.op, ast.Or) and not want:
                    return any(says_not_found(v, 'F') for v in a.values)
            return False
        reassigned = lambda n: n is not ln[0] and isinstance(n.ast, (ast.Assign, ast.AnnAssign)) and any(isinstance(x, ast.Name) and x.id == var and isinstance(x.ctx, ast.Store) for x in ast.walk(n.ast)) and n.kind == 'stmt'  # noqa: E731
        # tests that look at THIS value of the name (reached from the look-up before the name is bound again)
        about = g.reachable_from(ln[0], avoid=reassigned)
        edge_found = lambda a, b, lab: lab != 'exc' and not (a.kind == 'test' and a.id in about and a.ast is not None and lab in ('T', 'F') and says_not_found(a.ast, lab))  # noqa: E731
        never = lambda n: False  # noqa: E731
        tests_on_var = [t for t in g.find(lambda n: n.kind == 'test') if t.ast is not None and var in pf.names_in(t.ast)]
        ctx.need(tests_on_var, f'{qual}: the result `{var}` of the token look-up is never tested')
        writes = [n for e in embs if _is_write(e) for n in g.node_of(e.call)]
        # nested helper calls that write (e.g. _create_job_group) count as writes too
        helper_writers = {f.name for f in m.tree.body if isinstance(f, (ast.FunctionDef, ast.AsyncFunctionDef)) and any(_is_write(e) for e in sf.embedded_in(m) if e.fn is f)}
        writes += g.find(lambda n: any(pf.dotted(c.func) in helper_writers for c in pf.node_calls(n)))
        ctx.need(writes, f'{qual}: no write found')
        # (1) no write is reachable from the look-up while the row may have been found (a path on which no test said "not found" and the name was not re-bound)
        leak = None
        for w in writes:
            pth = g.path_avoiding(ln[0], lambda n, w=w: n is w, never, edge_ok=edge_found)
            if pth is not None:
                leak = pth
                break
        # (2) every write comes after the look-up
        dominated = all(g.dominated_by(w, lambda n: n is ln[0]) for w in writes)
        # (3) on the found side the stored row is handed back
        rets = [n for n in g.find(lambda n: n.kind == 'return' and n.id in about) if g.path_avoiding(ln[0], lambda x, n=n: x is n, reassigned, edge_ok=edge_found) is not None]
        returns_stored = any(var in pf.names_in(n.ast) for n in rets)
        if leak is None and dominated and not returns_stored:
            raise AnalysisError(f'{qual}: what a re-sent request is answered with when its token is found ({[n.text()[:40] for n in rets] or "no return"}) is not a return of the stored row; not judged')
        ctx.check(leak is None and dominated and returns_stored, 'R1', cons + '::return before insert', f'a re-sent {what} creation request does not return the ids stored under its token before anything is inserted '
                  f'(a second {what} would be created or the request would fail on the unique key): ' + (('an insert is reachable although the token was found: ' + ' -> '.join(x.text()[:40] for x in leak if x.kind in ('test', 'stmt', 'return'))[:300])
                  if leak is not None else 'an insert is not preceded by the look-up'), m.path, look.lineno)


def _caller_roles(m: pf.Module, fname: str, keys: Sequence[str]) -> Dict[str, str]:
    """spec key -> parameter of module-level function `fname` that receives `<spec>['key']` / `<spec>.get('key' ..)` at its call sites (all call sites must agree)."""
    fdef = m.func(fname)
    pos = [a.arg for a in fdef.args.posonlyargs + fdef.args.args]
    out: Dict[str, Set[str]] = {k: set() for k in keys}
    for caller in [f for f in m.tree.body if isinstance(f, (ast.FunctionDef, ast.AsyncFunctionDef))]:
        for c in pf.walk_shallow(caller):
            if isinstance(c, ast.Call) and pf.dotted(c.func) == fname:
                bound = dict(zip(pos, c.args))
                bound.update({k.arg: k.value for k in c.keywords if k.arg})
                for p_, a in bound.items():
                    a = pf.expand_locals(caller, a)
                    key = None
                    if isinstance(a, ast.Subscript):
                        key = pf.const_str(a.slice)
                    elif isinstance(a, ast.Call) and isinstance(a.func, ast.Attribute) and a.func.attr == 'get' and a.args:
                        key = pf.const_str(a.args[0])
                    if key in out:
                        out[key].add(p_)
    return {k: next(iter(v)) for k, v in out.items() if len(v) == 1}


def r2(ctx: Ctx, m: pf.Module) -> None:
    fn = m.func('_create_batch_update.update')
    outer = m.func('_create_batch_update')
    embs = _embs(m, fn)
    last = None
    ins = None
    for e in embs:
        for st in e.stmts():
            if st.kind == 'select' and sf.table_names(st.frm) == ['batch_updates'] and st.order:
                last = (e, st)
            if st.kind == 'insert' and st.table.lower() == 'batch_updates':
                ins = (e, st)
    ctx.need(last is not None and ins is not None, '_create_batch_update: last-update select / insert not found')
    e, st = last
    cons = f'{FE}::_create_batch_update.update'
    ok = [(text(x).lower().split('.')[-1], d) for x, d in st.order] == [('update_id', 'DESC')] and text(st.limit) == '1' and st.lock == 'FOR UPDATE' and e.receiver == 'tx' and \
        sr.has_eq(st.where, 'batch_id', '%s') and len(sf.conjuncts(st.where)) == 1
    if not ok:
        # evidence: a plain `col = %s` / ORDER BY <col> / LIMIT <n> statement that differs; anything more elaborate is not judged
        simple = all(c.kind == 'bin' and c.op == '=' and {c.left.kind, c.right.kind} == {'col', 'param'} for c in sf.conjuncts(st.where)) and all(x.kind == 'col' for x, _d in st.order)
        ctx.need(simple, f'{cons}: the read of the previous update `{text(st)[:100]}` is not a plain keyed ORDER BY .. LIMIT statement')
    ctx.check(ok, 'R2', cons + '::last update read', 'the previous update is not read as ORDER BY update_id DESC LIMIT 1 FOR UPDATE on the transaction (ranges could overlap or leave gaps)', m.path, e.lineno)
    g = pf.cfg(fn)
    var = pf.nsrc(g.node_of(e.call)[0].ast.targets[0])
    ie, ist = ins
    elts = sr.args_tuple(fn, ie.call.args[1])
    ctx.need(elts is not None and ist.cols is not None and len(elts) == len(ist.cols), '_create_batch_update: cannot bind INSERT INTO batch_updates')
    stored = {c.lower(): x for c, x in zip(ist.cols, elts)}
    want = {
        'update_id': lf.Lin({f"{var}['update_id']": 1}, 1),
        'start_job_id': lf.Lin({f"{var}['start_job_id']": 1, f"{var}['n_jobs']": 1}, 0),
        'start_job_group_id': lf.Lin({f"{var}['start_job_group_id']": 1, f"{var}['n_job_groups']": 1}, 0),
    }
    defs = pf.assignments(fn)
    for colname, w in want.items():
        ctx.need(colname in stored, f'{cons}: column {colname} is not in the column list of INSERT INTO batch_updates')
        x = stored[colname]
        vals = [v for v in defs.get(x.id, []) if isinstance(v, ast.expr)] if isinstance(x, ast.Name) else [x]
        got = []
        for v in vals:
            try:
                got.append(lf.lin(cf.strip_int(v)))
            except AnalysisError:
                raise AnalysisError(f'{cons}: `{pf.nsrc(v)}` stored as {colname} is not linear')
        firsts = [y for y in got if y.is_const()]
        nexts = [y for y in got if not y.is_const()]
        ctx.need(len(nexts) == 1 and len(firsts) <= 1, f'{cons}: the value stored as {colname} has {len(got)} definitions ({[pf.nsrc(v) for v in vals]}): first-update / later-update cases not recognised')
        ok = nexts[0] == w and (not firsts or firsts[0].const == 1)
        ctx.check(ok, 'R2', cons + f'::{colname}', f'{colname} is stored as {[pf.nsrc(v) for v in vals]}; expected 1 for the first update and previous start + previous count (update_id: previous + 1) afterwards '
                  f'(previous = `{var}`, the row read with ORDER BY update_id DESC LIMIT 1)', m.path, fn.lineno)
    # the other columns: the key the look-up uses, the counts the NEXT update will add to its starts, not committed
    roles = _caller_roles(m, '_create_batch_update', ('token', 'n_jobs', 'n_job_groups'))
    oparams = [a.arg for a in outer.args.posonlyargs + outer.args.args + outer.args.kwonlyargs]
    gotb = {}
    bad = []
    for colname in ('token', 'n_jobs', 'n_job_groups'):
        ctx.need(colname in stored and colname in roles, f'{cons}: column {colname} of INSERT INTO batch_updates / the parameter of _create_batch_update that carries the request\'s {colname} not found')
        x = pf.expand_locals(outer, pf.expand_locals(fn, stored[colname]))
        gotb[colname] = pf.nsrc(x)
        if isinstance(x, ast.Name) and x.id in oparams:
            if x.id != roles[colname]:
                bad.append(f'{colname} <- parameter `{x.id}` (the request\'s {colname} arrives in `{roles[colname]}`)')
        else:
            ctx.need(isinstance(x, ast.Constant), f'{cons}: value `{pf.nsrc(x)}` stored as {colname} is not a parameter of _create_batch_update')
            bad.append(f'{colname} <- literal {pf.nsrc(x)}')
    for colname, wantv in (('batch_id', 'batch_id'),):
        ctx.need(colname in stored, f'{cons}: column {colname} missing')
        x = pf.expand_locals(outer, pf.expand_locals(fn, stored[colname]))
        if not (isinstance(x, ast.Name) and x.id in oparams):
            raise AnalysisError(f'{cons}: value `{pf.nsrc(x)}` stored as batch_id is not a parameter')
        gotb[colname] = x.id
    ctx.need('committed' in stored, f'{cons}: column committed is not in the column list')
    cm_ = pf.expand_locals(fn, stored['committed'])
    ctx.need(isinstance(cm_, ast.Constant), f'{cons}: committed is stored as `{pf.nsrc(cm_)}`')
    if cm_.value not in (False, 0):
        bad.append(f'committed <- {cm_.value!r}')
    ctx.check(not bad, 'R2', cons + '::stored range', f'the reserved range is stored with {bad}: the next update computes its starts from these columns, and the update must start uncommitted', m.path, ie.lineno, detail=gotb)


def r3(ctx: Ctx, m: pf.Module) -> None:
    fn = m.func('_create_jobs.insert_jobs_into_db')
    cons = f'{FE}::_create_jobs.insert_jobs_into_db'
    embs = _embs(m, fn)
    writes = [e for e in embs if _is_write(e)]
    ctx.need(len(writes) >= 5, 'insert_jobs_into_db: fewer than five writes')
    first = writes[0]
    is_jobs = any(st.kind == 'insert' and st.table.lower() == 'jobs' for st in first.stmts())
    ctx.check(is_jobs and all(e.receiver == 'tx' for e in writes), 'R3', cons + '::jobs insert first', 'INSERT INTO jobs is not the first write of the bunch transaction: a replayed bunch would '
              f'repeat `{text(first.stmts()[0])[:60]}` before the duplicate is noticed', m.path, first.lineno)
    # the duplicate-key branch of the handler around it leaves the transaction function before any later statement
    from engines import c08ids as ids
    par = m.parents()
    tr = par.get(first.call)
    while tr is not None and not (isinstance(tr, ast.Try) and any(first.call is x for b_ in tr.body for x in ast.walk(b_))):
        tr = par.get(tr)
        if tr is fn:
            tr = None
    ok = None
    why = 'INSERT INTO jobs is not inside a try: a replayed bunch fails with the duplicate-key error instead of being recognised'
    if isinstance(tr, ast.Try):
        hs = [h for h in tr.handlers if h.type is None or any(k in pf.nsrc(h.type) for k in ('IntegrityError', 'MySQLError', 'Exception', 'DatabaseError'))]
        if hs:
            br = ids.error_code_branch(m, hs[0], 1062)
            ctx.need(br is not None, f'{cons}: the handler around INSERT INTO jobs does not test err.args[0] against 1062 (ER_DUP_ENTRY) in a recognised way')
            wr = [pf.nsrc(x)[:40] for s_ in br for x in ast.walk(s_) if isinstance(x, ast.Call) and isinstance(x.func, ast.Attribute) and x.func.attr.startswith(('execute', 'just_execute'))]
            if br and isinstance(br[-1], (ast.Return, ast.Raise)) and not wr:
                ok, why = True, f'ER_DUP_ENTRY branch ends in `{pf.nsrc(br[-1])[:40]}`'
            elif not any(isinstance(x, (ast.Return, ast.Raise)) for s_ in br for x in ast.walk(s_)) or wr:
                ok, why = False, 'the ER_DUP_ENTRY branch of the handler ' + (f'writes ({wr[0]})' if wr else 'neither returns nor raises: execution goes on to the statements after the try')
            else:
                raise AnalysisError(f'{cons}: the ER_DUP_ENTRY branch returns only on some paths')
        else:
            ok, why = True, 'no handler catches the IntegrityError: it propagates and the transaction is rolled back'
    else:
        ok, why = True, 'not inside a try: the IntegrityError propagates and the transaction is rolled back'
    ctx.check(bool(ok), 'R3', cons + '::duplicate returns', f'a duplicate-key error on INSERT INTO jobs does not leave the transaction function ({why}): the staging / cancellable counters of an '
              'already inserted bunch would be added again', m.path, first.lineno, detail=why)
    counters = [e for e in writes if any(st.kind == 'insert' and st.table.lower() in ('job_groups_inst_coll_staging', 'job_group_inst_coll_cancellable_resources') for st in e.stmts())]
    ctx.need(len(counters) == 2, f'{cons}: expected the two counter-bearing inserts (staging, cancellable resources) in this function, found {len(counters)} (moved into a helper?)')
    g = pf.cfg(fn)
    fnode = g.node_of(first.call)
    ctx.need(len(fnode) == 1, f'{cons}: CFG node of INSERT INTO jobs not found')
    early = [c for c in counters if not all(g.dominated_by(n_, lambda x: x is fnode[0]) for n_ in g.node_of(c.call))]
    ctx.check(not early, 'R3', cons + '::counters after jobs', f'the counter-bearing insert at line {early[0].lineno if early else 0} can run before INSERT INTO jobs has found out whether the bunch is a replay', m.path, fn.lineno)
    outer = m.func('_create_jobs')
    # whoever calls the transaction function passes it a transaction: the caller is decorated with @transaction(..) (or the function itself is)
    def in_txn(f: pf.FuncDef) -> bool:
        return any((pf.dotted(d.func) if isinstance(d, ast.Call) else pf.dotted(d)) == 'transaction' for d in f.decorator_list)
    nested = [f for f in ast.walk(outer) if isinstance(f, (ast.FunctionDef, ast.AsyncFunctionDef)) and f is not outer]
    callers = [f for f in nested if f is not fn and any(isinstance(c, ast.Call) and pf.dotted(c.func) == fn.name for c in pf.walk_shallow(f))]
    direct = [c for c in pf.walk_shallow(outer) if isinstance(c, ast.Call) and pf.dotted(c.func) == fn.name]
    if in_txn(fn):
        ctx.ok('R3', f'{FE}::_create_jobs::one transaction', f'{fn.name} is itself a @transaction function')
    else:
        ctx.need(callers or direct, f'{FE}::_create_jobs: no call of {fn.name} found (handed on as a value?)')
        outside = [f.name for f in callers if not in_txn(f)] + (['_create_jobs'] if direct else [])
        ctx.check(not outside, 'R3', f'{FE}::_create_jobs::one transaction', f'{fn.name} is called from {outside}, which is not a @transaction function: the inserts of a bunch are not atomic, a failure in the middle '
                  'leaves jobs without their counters and the retry is taken for a replay', m.path, outer.lineno)


def r4(ctx: Ctx) -> None:
    prog = sf.load_program()
    r = prog.routine('commit_batch_update')
    flat = list(sf.all_statements(r.ast.body))
    # the committed flag: read from this update's row, FOR UPDATE, inside the transaction
    flag = None
    for i, st in enumerate(flat):
        if st.kind == 'select' and st.into and st.frm is not None and sf.table_names(st.frm) == ['batch_updates'] and \
                sr.has_eq(st.where, 'batch_id', 'in_batch_id') and sr.has_eq(st.where, 'update_id', 'in_update_id'):
            for (c, _), v in zip(st.cols, st.into):
                if c.kind == 'col' and c.parts[-1].lower() == 'committed':
                    flag = (i, st, text(v).lower())
    ctx.need(flag is not None, 'commit_batch_update: read of batch_updates.committed not found')
    i, st, var = flag
    starts = [j for j, x in enumerate(flat) if x.kind == 'txn' and x.what == 'START TRANSACTION']
    locked = st.lock == 'FOR UPDATE' and bool(starts) and starts[0] < i
    ctx.check(locked, 'R4', f'sql::commit_batch_update::committed flag read under lock', f'the already-committed decision is taken from a read that is not `FOR UPDATE` inside the transaction '
              f'(lock `{st.lock or "none"}`, {"before" if not starts or starts[0] > i else "after"} START TRANSACTION): two overlapping commit requests both see committed = 0 and both add the '
              'staged counts', r.file, r.line_of(st))
    n = 0
    writes_unguarded = []
    for x, guard in sf.guarded_statements(r.ast.body):
        g = [(text(c).lower(), p) for c, p in guard]
        if (var, True) in g:
            n += 1
            ctx.check(not sf.written_tables(x) and x.kind != 'call', 'R4', f'sql::commit_batch_update::already committed::{x.kind}', 'the already-committed branch writes: a repeated commit is not a no-op',
                      r.file, r.line_of(x))
        elif sf.written_tables(x) and (var, False) not in g:
            writes_unguarded.append(x)
    ctx.need(n >= 1, 'commit_batch_update: already-committed branch not found')
    ctx.check(not writes_unguarded, 'R4', f'sql::commit_batch_update::writes only when not committed', f'{len(writes_unguarded)} write(s) happen regardless of the committed flag', r.file, r.line)


def _accepting_only(g: pf.CFG, t, accept: str, targets) -> bool:
    """every path from the entry to one of the target nodes leaves test t through its `accept` edge."""
    return all(g.path_avoiding(g.entry, lambda n, w=w: n is w, lambda n: False, edge_ok=lambda a, b, lab: not (a is t and lab == accept)) is None for w in targets)


def r5(ctx: Ctx, m: pf.Module) -> None:
    fn = m.func('_create_job_groups.insert')
    outer = m.func('_create_job_groups')
    g = pf.cfg(fn)
    cons = f'{FE}::_create_job_groups.insert'
    embs = _embs(m, fn)
    # the last inserted job group: SELECT .. FROM job_groups .. ORDER BY job_group_id DESC LIMIT 1 FOR UPDATE, on the transaction
    sel = [e for e in embs if any(st.kind == 'select' and sf.table_names(st.frm) == ['job_groups'] and st.order for st in e.stmts())]
    ctx.need(len(sel) == 1, f'{cons}: read of the last inserted job group not found (selects from job_groups with ORDER BY: {len(sel)})')
    st = sel[0].stmts()[0]
    oks = [(text(x).lower().split('.')[-1], dd) for x, dd in st.order] == [('job_group_id', 'DESC')] and text(st.limit) == '1' and st.lock == 'FOR UPDATE' and sel[0].receiver == 'tx'
    ctx.check(oks, 'R5', cons + '::last inserted read', 'the last inserted job group is not read as ORDER BY job_group_id DESC LIMIT 1 FOR UPDATE in the transaction', m.path, fn.lineno)
    ln = g.node_of(sel[0].call)
    ctx.need(len(ln) == 1 and isinstance(ln[0].ast, ast.Assign) and isinstance(ln[0].ast.targets[0], ast.Name), f'{cons}: the last inserted job group is not bound to a name')
    last_var = ln[0].ast.targets[0].id
    col = next((al or c.parts[-1] for c, al in st.cols if c.kind == 'col' and c.parts[-1].lower() == 'job_group_id'), None)
    ctx.need(col is not None, f'{cons}: the read of the last inserted job group does not select job_group_id')
    creates = g.find(lambda n: any(pf.dotted(cc.func) == '_create_job_group' for cc in pf.node_calls(n)))
    ctx.need(creates, f'{cons}: calls of _create_job_group not found')
    # tests that look at the last inserted id
    specs_params = [a.arg for a in outer.args.args + outer.args.kwonlyargs]
    verdicts = []
    for t in g.find(lambda n: n.kind == 'test'):
        c = t.ast
        ex = cf.expand_arith(fn, c) if c is not None else None
        if ex is None or not any(isinstance(x, ast.Subscript) and isinstance(x.value, ast.Name) and x.value.id == last_var and pf.const_str(x.slice) == col for x in ast.walk(ex)):
            continue
        ctx.need(isinstance(ex, ast.Compare) and len(ex.ops) == 1, f'{cons}: test `{pf.nsrc(c)[:80]}` on the last inserted job group id not recognised')
        try:
            l = lf.lin(ex.left) - lf.lin(ex.comparators[0])
        except AnalysisError:
            raise AnalysisError(f'{cons}: test `{pf.nsrc(c)[:80]}` on the last inserted job group id is not linear')
        leaves = cf.id_leaves(ex)
        roles = {}
        for k in l.symbols():
            n_ = leaves.get(k)
            if isinstance(n_, ast.Subscript) and isinstance(n_.value, ast.Name) and n_.value.id == last_var:
                roles[k] = 'last'
            elif isinstance(n_, ast.Subscript) and pf.const_str(n_.slice) == 'job_group_id' and isinstance(n_.value, ast.Subscript) and isinstance(n_.value.value, ast.Name) \
                    and n_.value.value.id in specs_params and isinstance(n_.value.slice, ast.Constant) and n_.value.slice.value == 0:
                roles[k] = 'first'
            elif n_ is not None and cf.origin(fn, n_) == ('key', 'start_job_group_id'):
                roles[k] = 'start'
            else:
                roles[k] = '?'
        ctx.need(sorted(roles.values()) == ['first', 'last', 'start'], f'{cons}: test `{pf.nsrc(c)[:80]}` compares the last inserted id with {sorted(l.symbols())}: roles not recognised')
        by = {v: k for k, v in roles.items()}
        sgn = l.coef[by['last']]
        ctx.need(abs(sgn) == 1, f'{cons}: test `{pf.nsrc(c)[:80]}`: coefficient of the last inserted id is {sgn}')
        d = l.scale(-sgn)                   # d = (...) - last : the test reads  start + first - last + const  OP  0
        shape_ok = d.coef[by['start']] == 1 and d.coef[by['first']] == 1
        op = type(ex.ops[0])
        rejects_T = any(s_.kind == 'raise' and 'HTTPBadRequest' in pf.nsrc(s_.ast) for s_, lab in t.succ if lab == 'T')
        rejects_F = any(s_.kind == 'raise' and 'HTTPBadRequest' in pf.nsrc(s_.ast) for s_, lab in t.succ if lab == 'F')
        if op is ast.NotEq and rejects_T:
            accept = 'F'
        elif op is ast.Eq and rejects_F:
            accept = 'T'
        elif op in (ast.Lt, ast.LtE, ast.Gt, ast.GtE) and (rejects_T or rejects_F):
            verdicts.append((False, f'the only ordering test `{pf.nsrc(c)}` is an inequality: a bunch that does not start at last inserted id + 1 (e.g. a replayed one, whose groups already exist) is let through', None))
            continue
        else:
            raise AnalysisError(f'{cons}: test `{pf.nsrc(c)[:80]}` on the last inserted job group id: accepting / rejecting sides not recognised')
        guarded = _accepting_only(g, t, accept, creates)
        # accepted  <=>  start + first - 1 == last + 1  <=>  start + first - last - 2 == 0
        if not shape_ok:
            raise AnalysisError(f'{cons}: test `{pf.nsrc(c)[:80]}`: coefficients {d} not recognised')
        verdicts.append((d.const == -2 and guarded, (f'the accepted case of `{pf.nsrc(c)}` is  start_job_group_id + first relative id - last inserted id {d.const:+d} == 0, expected - 2 (next id = start + relative - 1 '
                                                       '= last + 1)' if d.const != -2 else f'_create_job_group is reachable without passing the accepting side of `{pf.nsrc(c)}`'), d))
    ctx.need(verdicts, f'{cons}: no test compares the id the bunch starts at with the last inserted job group id (`{last_var}[{col!r}]`); a helper that does is not followed')
    bad = [w for okv, w, _ in verdicts if not okv]
    ctx.check(not bad, 'R5', cons + '::in order', 'job groups can be inserted although the bunch does not start at last inserted id + 1 (a replayed bunch is not refused): ' + '; '.join(bad), m.path, fn.lineno)
    ctx.ok('R5', cons + '::next id', [str(d) for _o, _w, d in verdicts if d is not None])


def _bound_args(fdef: pf.FuncDef, call: ast.Call) -> Dict[str, ast.expr]:
    pos = [a.arg for a in fdef.args.posonlyargs + fdef.args.args]
    out: Dict[str, ast.expr] = dict(zip(pos, [a for a in call.args if not isinstance(a, ast.Starred)]))
    for k in call.keywords:
        if k.arg is not None:
            out[k.arg] = k.value
    return out


def r6(ctx: Ctx, m: pf.Module) -> None:
    """absolute id = start of the update's range + relative id - 1 on both sides of the wire.  Leaves of the arithmetic are identified by what they ARE (a column of the
    update row, a field of the spec, the method's parameter, the object's own id attribute), not by the names of locals."""
    cm = pf.load(CL)
    from engines import inline
    from engines import c08ids as ids
    mi, _il = inline.inline_functions(ids.slice_module(m, '_create_jobs'), '_create_jobs')  # id arithmetic moved into a module-level helper is analysed in place

    def check(mod: pf.Module, fn: pf.FuncDef, qual: str, role: str, values: List[ast.AST], start, rel, other_start, comp_iters=None) -> None:
        n = 0
        for v in values:
            ex = cf.expand_arith(fn, cf.inline_expr_helpers(mod, v))
            if not any(isinstance(x, ast.BinOp) for x in ast.walk(ex)):
                continue                   # an id taken as it is (absolute ids)
            try:
                got = lf.lin(ex)
            except AnalysisError as e:
                raise AnalysisError(f'{mod.rel}::{qual}::{role}: `{pf.nsrc(v)}` is not linear ({e})')
            leaves = cf.id_leaves(ex)
            roles = {k: cf.origin(fn, leaves[k], comp_iters) if k in leaves else ('other', k) for k in got.symbols()}
            n += 1
            cons = f'{mod.rel}::{qual}::{role}'
            wrong = [k for k, o in roles.items() if o == other_start]
            if wrong:
                ctx.bad('R6', cons, f'`{pf.nsrc(v)}` (= {got}) adds the start of the OTHER id range ({wrong[0]}): job ids and job-group ids are numbered from different starts', mod.path, getattr(v, 'lineno', fn.lineno))
                continue
            s_ = [k for k, o in roles.items() if o == start]
            r_ = [k for k, o in roles.items() if o == rel]
            if not (len(got.symbols()) == 2 and len(s_) == 1 and len(r_) == 1):
                raise AnalysisError(f'{cons}: `{pf.nsrc(v)}` = {got}: start / relative id not recognised among {roles}')
            ctx.check(got.coef[s_[0]] == 1 and got.coef[r_[0]] == 1 and got.const == -1, 'R6', cons,
                      f'`{pf.nsrc(v)}` = {got} is not start + relative - 1: client and server would disagree on the absolute id', mod.path, getattr(v, 'lineno', fn.lineno))
        if n == 0:
            raise AnalysisError(f'{mod.rel}::{qual}::{role}: no arithmetic definition found')

    # ---- client: the object's own id attribute is rebased by the method's parameter ---------------------------------------------------------
    for cls, attr in (('Job', '_job_id'), ('JobGroup', '_job_group_id')):
        fn = cm.func(f'{cls}._submit')
        vals = [n.value for n in ast.walk(fn) if isinstance(n, ast.Assign) and len(n.targets) == 1 and pf.nsrc(n.targets[0]) == f'self.{attr}'
                and any(pf.nsrc(x) == f'self.{attr}' for x in ast.walk(n.value))]
        # `self.x += e` is `self.x = self.x + e`
        vals += [ast.copy_location(ast.BinOp(left=ast.Attribute(value=ast.Name(id='self', ctx=ast.Load()), attr=attr, ctx=ast.Load()), op=n.op, right=n.value), n)
                 for n in ast.walk(fn) if isinstance(n, ast.AugAssign) and pf.nsrc(n.target) == f'self.{attr}' and isinstance(n.op, (ast.Add, ast.Sub))]
        check(cm, fn, f'{cls}._submit', f'self.{attr}', vals, ('param', 0), ('attr', attr), None)

    # ---- server: what is stored in jobs.job_id / jobs.job_group_id --------------------------------------------------------------------------------
    ids.resolve_module_sql(m)
    fn = mi.func('_create_jobs')
    ins = [(e, st) for e in sf.embedded_in(m) if e.qual.startswith('_create_jobs') for st in e.stmts() if st.kind == 'insert' and isinstance(st.table, str) and st.table.lower() == 'jobs']
    ctx.need(len(ins) == 1 and len(ins[0][0].call.args) >= 2 and isinstance(ins[0][0].call.args[1], ast.Name), f'{FE}::_create_jobs: INSERT INTO jobs / its argument list not found')
    colmap, _dup, _uv = sr.insert_colmap(ins[0][1])
    params = sr.params_in_order(ins[0][1])
    lst = ins[0][0].call.args[1].id
    tups = [c.args[0] for c in ast.walk(fn) if isinstance(c, ast.Call) and isinstance(c.func, ast.Attribute) and c.func.attr == 'append' and isinstance(c.func.value, ast.Name)
            and c.func.value.id == lst and len(c.args) == 1 and isinstance(c.args[0], ast.Tuple)]
    ctx.need(len(tups) == 1 and len(tups[0].elts) == len(params), f'{FE}::_create_jobs: the tuple appended to `{lst}` not found')
    defs = pf.assignments(fn)

    def stored(colname: str) -> List[ast.AST]:
        ex = colmap.get(colname)
        ctx.need(ex is not None and ex.kind == 'param', f'{FE}::_create_jobs: column {colname} of INSERT INTO jobs is not a parameter')
        el = tups[0].elts[[i for i, p_ in enumerate(params) if p_ is ex][0]]
        if isinstance(el, ast.Name):
            return [v for v in defs.get(el.id, []) if isinstance(v, ast.expr)]
        return [el]
    check(mi, fn, '_create_jobs', 'job_id', stored('job_id'), ('key', 'start_job_id'), ('key', 'job_id'), ('key', 'start_job_group_id'))
    check(mi, fn, '_create_jobs', 'job_group_id', stored('job_group_id'), ('key', 'start_job_group_id'), ('key', 'in_update_job_group_id'), ('key', 'start_job_id'))
    # in-update parents: the element of the comprehension over the submitted in-update parent ids
    comps = []
    for n in pf.walk_shallow(fn):
        if isinstance(n, (ast.ListComp, ast.GeneratorExp)) and len(n.generators) == 1 and isinstance(n.generators[0].target, ast.Name):
            if cf.origin(fn, n.generators[0].iter) == ('key', 'in_update_parent_ids'):
                comps.append(n)
    ctx.need(len(comps) == 1, f'{FE}::_create_jobs: comprehension over the in-update parent ids not found (found {len(comps)})')
    tv = comps[0].generators[0].target.id
    check(mi, fn, '_create_jobs', 'in-update parent id', [comps[0].elt], ('key', 'start_job_id'), ('elem', ('key', 'in_update_parent_ids')), ('key', 'start_job_group_id'),
          comp_iters={tv: comps[0].generators[0].iter})

    # ---- server: job groups ------------------------------------------------------------------------------------------------------------------------
    fn = m.func('_create_job_groups.insert')
    helper = m.func('_create_job_group')
    calls = [c for c in ast.walk(fn) if isinstance(c, ast.Call) and pf.dotted(c.func) == '_create_job_group']
    ctx.need(len(calls) == 1, f'{FE}::_create_job_groups.insert: call of _create_job_group not found')
    b = _bound_args(helper, calls[0])
    defs = pf.assignments(fn)
    for pname, relkey in (('job_group_id', 'job_group_id'), ('parent_job_group_id', 'in_update_parent_id')):
        ctx.need(pname in b, f'{FE}::_create_job_groups.insert: argument {pname} of _create_job_group not found')
        v = b[pname]
        vals = [x for x in defs.get(v.id, []) if isinstance(x, ast.expr)] if isinstance(v, ast.Name) else [v]
        check(m, fn, '_create_job_groups.insert', pname, vals, ('key', 'start_job_group_id'), ('key', relkey), ('key', 'start_job_id'))


def _self_calls(fn: pf.FuncDef, names) -> List[ast.Call]:
    return [c for c in ast.walk(fn) if isinstance(c, ast.Call) and isinstance(c.func, ast.Attribute) and isinstance(c.func.value, ast.Name)
            and c.func.value.id == 'self' and c.func.attr in names]


def r7(ctx: Ctx) -> None:
    cm = pf.load(CL)
    tf = cf.TokenFacts(cm, 'Batch')
    kinds = {s.kind for s in tf.sites}
    ctx.need({'create-fast', 'batch-create', 'update-fast', 'update-create', 'commit'} <= kinds, f'{CL}: request sites of Batch not all found (have {sorted(kinds)})')
    prods = tf.producers()
    upd = [p for p in prods if 'billing_project' not in p[2]]
    bat = [p for p in prods if 'billing_project' in p[2]]
    ctx.need(len(upd) == 1 and len(bat) == 1, f'{CL}: expected one update-spec and one batch-spec producer with a token key, found {[p[0] for p in prods]}')
    declined: List[str] = []
    par = cm.parents()

    def in_loop(node: ast.AST, fn: pf.FuncDef) -> bool:
        cur = par.get(node)
        while cur is not None and cur is not fn:
            if isinstance(cur, (ast.For, ast.AsyncFor, ast.While, ast.ListComp, ast.GeneratorExp, ast.SetComp, ast.DictComp)):
                return True
            cur = par.get(cur)
        return False

    # ---- deferred evaluation: lambdas / nested defs that hold a token draw (directly or through a drawing method) -------------------------------
    drawing0 = {p[0] for p in prods if tf.classify(tf.methods[p[0]], p[1])[0] == 'fresh'}
    changed = True
    while changed:
        changed = False
        for name, fn in tf.methods.items():
            if name not in drawing0 and _self_calls(fn, drawing0):
                drawing0.add(name)
                changed = True
    multi = tf.multi_params()

    def anchor_of(fn: pf.FuncDef, node: ast.AST) -> Optional[ast.Call]:
        """the call in fn (outside any lambda / nested def) that receives the outermost callable enclosing node, when that is its only use."""
        regs = tf.regions_of(fn, node)
        if not regs:
            return None
        cur: Optional[ast.Call] = None
        for reg in regs:
            uses = tf.region_uses(fn, reg)
            if len(uses) != 1 or uses[0][0] != 'arg' or uses[0][1] is None:
                return None
            cur = uses[0][1]
        return cur if cur is not None and not tf.regions_of(fn, cur) else None

    def draws_in(region: ast.AST) -> List[str]:
        out = []
        for c in ast.walk(region):
            if isinstance(c, ast.Call):
                if isinstance(c.func, ast.Attribute) and isinstance(c.func.value, ast.Name) and c.func.value.id == 'self' and c.func.attr in drawing0:
                    out.append(f'self.{c.func.attr}()')
                elif pf.dotted(c.func) in cf.FRESH_GENERATORS:
                    out.append(f'{pf.dotted(c.func)}()')
        return out

    deferred: Dict[int, Tuple[str, str]] = {}     # id(region) -> ('once' | 'multi' | 'unknown', explanation)
    n_regions = 0
    for mname, fn in tf.methods.items():
        for reg in ast.walk(fn):
            if reg is fn or not isinstance(reg, (ast.Lambda, ast.FunctionDef, ast.AsyncFunctionDef)) or tf.regions_of(fn, reg):
                continue                       # outermost regions only (an inner one runs when the outer one does)
            dr = draws_in(reg)
            if not dr:
                continue
            n_regions += 1
            what = 'lambda' if isinstance(reg, ast.Lambda) else f'nested def {reg.name}'  # type: ignore[union-attr]
            cons = f'{CL}::Batch.{mname}::{what} evaluating {dr[0]}'
            uses = tf.region_uses(fn, reg)
            verdict, why = 'once', ''
            if not uses:
                verdict, why = 'once', 'never used'
            for how, call, arg in uses:
                if how == 'called':
                    if tf.in_loop(call, fn):
                        verdict, why = 'unknown', f'called inside a loop (line {call.lineno})'
                elif how == 'arg':
                    kind, name, g = tf.callee_of(call)
                    if kind == 'retry':
                        verdict, why = 'multi', f'handed to the retry helper {name} (line {call.lineno})'
                        break
                    if g is None:
                        verdict, why = 'unknown', f'handed to `{name}` (line {call.lineno}), which is not analysed'
                        continue
                    q = tf.param_for(kind, g, call, arg)
                    if q is None:
                        verdict, why = 'unknown', f'handed to {name} (line {call.lineno}); receiving parameter not found'
                    elif q in multi[(kind, name)]:
                        verdict, why = 'multi', f'handed to {"self." if kind == "method" else ""}{name}({q}=..) (line {call.lineno}), which may invoke `{q}` more than once (retry / loop)'
                        break
                    elif tf.in_loop(call, fn):
                        verdict, why = 'unknown', f'handed to {name} inside a loop (line {call.lineno})'
                else:
                    verdict, why = 'unknown', 'stored / returned instead of being called'
            deferred[id(reg)] = (verdict, why)
            if verdict == 'multi':
                ctx.bad('R7', cons + ' re-invoked by a retry', f'the {what} in Batch.{mname} evaluates {", ".join(sorted(set(dr)))} - a fresh token on every invocation - and is {why}: after a lost response '
                        '(connection reset while the body is read) the exchange is repeated with ANOTHER token, the server does not find the update the first attempt created (look-up by (batch_id, token)) '
                        'and reserves a second id range; the first update stays open for ever and its ids are burnt', cm.path, getattr(reg, 'lineno', fn.lineno))
            elif verdict == 'unknown':
                declined.append(f'{cons}: {why}')
            else:
                ctx.ok('R7', cons + ' invoked once', why, nontrivial=False)

    # ---- the spec sent by each token-bearing request is produced by exactly one direct producer call in the requesting method --------------
    for s_ in tf.sites:
        if s_.kind == 'commit':
            continue
        pname = upd[0][0] if s_.kind.startswith('update') else bat[0][0]
        fn = tf.methods[s_.method]
        pcs = _self_calls(fn, {pname})
        other = [p[0] for p in prods if p[0] != pname and _self_calls(fn, {p[0]})]
        cons = f'{CL}::Batch.{s_.method}::{s_.kind} spec'
        if len(pcs) != 1 or other or in_loop(pcs[0], fn) or in_loop(s_.call, fn):
            declined.append(f'{cons}: the request does not take its spec from exactly one straight-line call of self.{pname}() (calls: {len(pcs)}, other producers: {other})')
            continue
        # a request written inside a lambda / nested def is sent where that callable is invoked: it must be handed, once, to a call of this method
        if tf.regions_of(fn, s_.call) and anchor_of(fn, s_.call) is None:
            declined.append(f'{cons}: the request is written inside a lambda / nested def whose invocation is not a single hand-over to a call in {s_.method}')
            continue
        if tf.regions_of(fn, pcs[0]):
            v_ = deferred.get(id(tf.regions_of(fn, pcs[0])[-1]))
            if v_ is None or v_[0] == 'unknown':
                declined.append(f'{cons}: self.{pname}() is evaluated inside a lambda / nested def; how often it runs per request is not decided' + (f' ({v_[1]})' if v_ else ''))
                continue
            if v_[0] == 'multi':
                continue                       # reported below (the spec, and with it the token, is rebuilt by every invocation)
        ctx.ok('R7', cons, f'self.{pname}() called once per request')

    # ---- update token -----------------------------------------------------------------------------------------------------------------------
    pname, tv, keys = upd[0]
    pfn = tf.methods[pname]
    kind, info = tf.classify(pfn, tv)
    cons = f'{CL}::Batch.{pname}::update token'
    cached = [pf.dotted(d) or pf.nsrc(d) for d in pfn.decorator_list if (pf.dotted(d.func if isinstance(d, ast.Call) else d) or '') in cf.CACHE_DECORATORS]
    if cached:
        ctx.bad('R7', cons + ' fresh per update', f'{pname} is memoised ({cached}): every update of this Batch object is sent with the token of the first one; the server answers the second '
                'update with the first update\'s ids (look-up by (batch_id, token)) and the new jobs are never created', cm.path, pfn.lineno)
    elif pfn.decorator_list:
        declined.append(f'{cons}: decorated producer')
    elif kind == 'fresh':
        ctx.ok('R7', cons + ' fresh per update', f'`{pf.nsrc(tv)}` = {pf.nsrc(info)} evaluated on every call')
    elif kind == 'deterministic':
        ctx.bad('R7', cons + ' fresh per update', f'the update token is `{info}`: it contains no random draw, so two different updates with the same inputs (e.g. two updates with the same number of jobs) '
                'carry the same token; the server then answers the second one with the first update\'s update_id / start ids and its jobs are never created', cm.path, tv.lineno)
    elif kind == 'attr' and any(tf.regions_of(tf.methods[x.method], x.call) for x in tf.sites):
        declined.append(f'{cons}: the token is kept on the object and a request is written inside a lambda / nested def: the typestate pass does not follow deferred calls')
    elif kind == 'attr':
        attr = info
        viol, states, decl = tf.run_typestate(attr, 'submit', {'update-fast': 'D', 'update-create': 'O', 'commit': 'C'})
        for v in viol:
            ctx.bad('R7', f'{CL}::Batch.{v["method"]}::update token self.{attr} re-sent after completion',
                    f'self.{attr} is still set when `{v["url"]}` is sent, although the update it named was already completed by {v["completed_at"]} and no statement on that path cleared or re-drew it. '
                    f'History: submit() #1 ends in {v["completed_at"]}; submit() #2 on the same Batch object with NEW jobs sends the OLD token; the server finds the old update by (batch_id, token), returns its '
                    'update_id / start_job_id and treats "already committed" as a finished retry: the client numbers its new jobs with the previous update\'s ids and they are never created', cm.path, v['line'],
                    extra={'states_at_submit_entry': sorted(states)})
        if not viol:
            if decl:
                declined += decl
            else:
                ctx.ok('R7', cons + ' fresh per update', f'self.{attr} is cleared or re-drawn on every path that completes an update; states at submit() entry: {sorted(states)}')
    else:
        declined.append(f'{cons}: {info}')

    # ---- a method that draws a fresh token is not handed to a retry helper --------------------------------------------------------------------
    drawing = {p[0] for p in prods if tf.classify(tf.methods[p[0]], p[1])[0] == 'fresh'}
    changed = True
    while changed:
        changed = False
        for name, fn in tf.methods.items():
            if name not in drawing and _self_calls(fn, drawing):
                drawing.add(name)
                changed = True
    n_retry = 0
    for rel in [CL] + (['hail/python/hailtop/batch_client/client.py', 'hail/python/hailtop/batch/backend.py', 'hail/python/hailtop/batch/batch.py'] if ctx.tier == 'thorough' else []):
        mod = pf.load(rel)
        mpar = mod.parents()
        for c in ast.walk(mod.tree):
            if isinstance(c, ast.Call) and 'retry' in (pf.dotted(c.func) or '').lower():
                n_retry += 1
                for a in list(c.args) + [k.value for k in c.keywords]:
                    for x in ast.walk(a):
                        if isinstance(x, ast.Attribute) and x.attr in drawing and x.attr in tf.methods and not (isinstance(mpar.get(x), ast.Call) and mpar.get(x).func is x):
                            ctx.bad('R7', f'{rel}::{pf.dotted(c.func)}({pf.nsrc(x)})', f'{pf.nsrc(x)} draws a fresh token on every invocation and is re-invoked by {pf.dotted(c.func)}: a retry after a lost response '
                                    'opens a second update (second id range, jobs duplicated) instead of finding the first one by its token', mod.path, c.lineno)
    ctx.ok('R7', f'{CL}::Batch::token-drawing methods not retried', {'drawing': sorted(drawing), 'retry_calls_scanned': n_retry})
    if ctx.tier == 'thorough':
        # nobody else builds update specs or talks to the update endpoints with a token of its own (sync wrapper, hailtop.batch backends)
        for rel in pf.walk_py(['hail/python/hailtop/batch_client', 'hail/python/hailtop/batch']):
            if rel == CL:
                continue
            mod = pf.load(rel)
            if 'token' not in mod.src:
                continue
            for d in ast.walk(mod.tree):
                if isinstance(d, ast.Dict):
                    ks = {pf.const_str(k) for k in d.keys if k is not None}
                    if 'token' in ks and ('n_jobs' in ks or 'n_job_groups' in ks):
                        declined.append(f'{rel}:{d.lineno}: another module builds a batch / update spec with its own token; token freshness there is not analysed')
                if isinstance(d, (ast.Constant, ast.JoinedStr)):
                    t = pf.fstring_template(d, lambda x: '{}')
                    if t and any(t.endswith(sfx) for sfx, k_ in cf.ENDPOINTS if k_ != 'commit'):
                        declined.append(f'{rel}:{d.lineno}: another module addresses `{t}`; its token handling is not analysed')
        ctx.ok('R7', 'hailtop.batch_client / hailtop.batch::no other token-bearing sender', None, nontrivial=False)

    # ---- batch token: self.token, sent by requests that run at most once per object ---------------------------------------------------------------
    bname, btv, _ = bat[0]
    bkind, binfo = tf.classify(tf.methods[bname], btv)
    cons = f'{CL}::Batch.{bname}::batch token'
    if bkind != 'attr':
        declined.append(f'{cons}: the batch token is not an attribute of the Batch object ({bkind}: {binfo if not isinstance(binfo, ast.AST) else pf.nsrc(binfo)})')
    else:
        asg = tf.attr_assignments(binfo)
        ctx.check(bool(asg) and all(a[0] == '__init__' for a in asg), 'R7', cons + ' fixed at construction', f'self.{binfo} is re-assigned outside __init__ ({[a[0] for a in asg]}): a re-sent create request '
                  'may carry a different token than the original and create a second batch', cm.path, tf.methods[bname].lineno)
        guard = tf.methods.get('_raise_if_created')
        isc = tf.methods.get('is_created')
        ok_guard = guard is not None and isc is not None and any(isinstance(n, ast.If) and pf.nsrc(n.test) == 'self.is_created' and any(isinstance(x, ast.Raise) for x in n.body) for n in guard.body) \
            and any(isinstance(n, ast.Return) and n.value is not None and pf.nsrc(n.value) in ('self._id is not None', 'self._id != None') for n in isc.body)
        if not ok_guard:
            declined.append(f'{CL}::Batch._raise_if_created / is_created: idiom not recognised')
        else:
            for s_ in tf.sites:
                if s_.kind not in ('create-fast', 'batch-create'):
                    continue
                fn = tf.methods[s_.method]
                g = pf.cfg(fn)
                sn = g.node_of(anchor_of(fn, s_.call) or s_.call)
                ctx.need(len(sn) == 1, f'Batch.{s_.method}: request node not found')
                dom = g.dominated_by(sn[0], lambda n: any(isinstance(c.func, ast.Attribute) and c.func.attr == '_raise_if_created' and pf.nsrc(c.func.value) == 'self' for c in pf.node_calls(n)))
                sets_id = lambda n: isinstance(n.ast, ast.Assign) and any(pf.nsrc(t) == 'self._id' for t in n.ast.targets)  # noqa: E731
                post = sets_id(sn[0]) or g.path_avoiding(sn[0], lambda n: n is g.exit, sets_id, edge_ok=lambda a, b, lab: lab != 'exc') is None
                ctx.check(dom and post, 'R7', f'{CL}::Batch.{s_.method}::{s_.kind} at most once per object', f'`{s_.url}` is ' + ('not preceded by self._raise_if_created() on every path' if not dom else
                          'not followed by `self._id = ...` on every normal path') + ': the same Batch object can send its batch token again for a different logical creation', cm.path, s_.call.lineno)
    ctx.need(not declined, 'R7 client tokens: ' + ' | '.join(declined))


ID_KEYS = ('update_id', 'start_job_group_id', 'start_job_id')
ID_SOURCES = ('self._create_fast', 'self._update_fast', 'self._commit_update')


RESPONSE_ANCHORS = {'_create_batch_update', '_create_batch', '_create_jobs', '_create_job_groups', '_commit_update', 'validate_batch', 'validate_batch_update',
                    'validate_and_clean_jobs', 'validate_job_groups', 'json_response', 'json_request'}


def _dict_items(d: ast.AST) -> Optional[List[Tuple[Optional[str], ast.expr]]]:
    """(constant key, value) pairs of a dict literal or a dict(k=v, ...) call; None for anything else."""
    if isinstance(d, ast.Dict):
        return [(pf.const_str(k) if k is not None else None, v) for k, v in zip(d.keys, d.values)]
    if isinstance(d, ast.Call) and isinstance(d.func, ast.Name) and d.func.id == 'dict' and not d.args and d.keywords:
        return [(k.arg, k.value) for k in d.keywords]
    return None


def _strip_int(v: ast.AST) -> ast.AST:
    while isinstance(v, ast.Call) and pf.dotted(v.func) == 'int' and len(v.args) == 1 and not v.keywords:
        v = v.args[0]
    return v


def _builds_ids(f: ast.AST) -> bool:
    return any((_dict_items(d) is not None and any(k in ID_KEYS for k, _ in _dict_items(d))) for d in ast.walk(f))  # type: ignore[union-attr]


def _with_response_helpers_inlined(m: pf.Module, handler: str) -> Tuple[pf.FuncDef, List[str]]:
    """The handler with the module-level helpers that (transitively) build the id-bearing response inlined: statement-level calls through
    engines/inline.py, single-`return <expr>` helpers called inside an expression by parameter substitution.  The anchors of the rule
    (_create_batch_update, the validators ...) are never inlined."""
    import copy
    from engines import inline
    funcs = {f.name: f for f in m.tree.body if isinstance(f, (ast.FunctionDef, ast.AsyncFunctionDef))}
    cands = {n for n, f in funcs.items() if not f.decorator_list and n not in RESPONSE_ANCHORS and n != handler}
    keep = {n for n in cands if _builds_ids(funcs[n])}
    changed = True
    while changed:
        changed = False
        for n in cands - keep:
            if any(isinstance(c, ast.Call) and isinstance(c.func, ast.Name) and c.func.id in keep for c in ast.walk(funcs[n])):
                keep.add(n)
                changed = True
    used = {c.func.id for c in ast.walk(funcs[handler]) if isinstance(c, ast.Call) and isinstance(c.func, ast.Name) and c.func.id in keep} if handler in funcs else set()
    if not used:
        return m.func(handler), []
    m2, il = inline.inline_functions(m, handler, exclude=tuple(set(funcs) - keep))
    fn = m2.func(handler)
    done = sorted({n for n, _ in il.inlined})

    class _Expr(ast.NodeTransformer):
        def __init__(self):
            self.depth = 0

        def visit_Call(self, node: ast.Call):
            self.generic_visit(node)
            if not (isinstance(node.func, ast.Name) and node.func.id in keep):
                return node
            h = funcs[node.func.id]
            body = [s_ for s_ in h.body if not (isinstance(s_, ast.Expr) and isinstance(s_.value, ast.Constant) and isinstance(s_.value.value, str))]
            a = h.args
            if isinstance(h, ast.AsyncFunctionDef) or len(body) != 1 or not isinstance(body[0], ast.Return) or body[0].value is None or a.vararg or a.kwarg or a.posonlyargs \
                    or any(isinstance(x, ast.Starred) for x in node.args) or any(k.arg is None for k in node.keywords) or self.depth >= 3:
                return node
            params = [x.arg for x in a.args] + [x.arg for x in a.kwonlyargs]
            bound: Dict[str, ast.expr] = dict(zip([x.arg for x in a.args], node.args))
            if len(node.args) > len(a.args):
                return node
            for k in node.keywords:
                if k.arg in bound or k.arg not in params:
                    return node
                bound[k.arg] = k.value  # type: ignore[index]
            defaults = dict(zip([x.arg for x in a.args][len(a.args) - len(a.defaults):], a.defaults))
            defaults.update({x.arg: d_ for x, d_ in zip(a.kwonlyargs, a.kw_defaults) if d_ is not None})
            for p_ in params:
                if p_ not in bound:
                    if p_ not in defaults:
                        return node
                    bound[p_] = defaults[p_]
            # arguments are substituted textually: only side-effect-free ones
            if not all(isinstance(v, (ast.Name, ast.Constant, ast.Subscript, ast.Attribute)) for v in bound.values()):
                return node
            expr = copy.deepcopy(body[0].value)
            if any(isinstance(x, (ast.Lambda, ast.ListComp, ast.SetComp, ast.DictComp, ast.GeneratorExp, ast.NamedExpr)) for x in ast.walk(expr)):
                return node

            class _Sub(ast.NodeTransformer):
                def visit_Name(self, n: ast.Name):
                    if isinstance(n.ctx, ast.Load) and n.id in bound:
                        return copy.deepcopy(bound[n.id])
                    return n
            out = ast.copy_location(_Sub().visit(expr), node)
            ast.fix_missing_locations(out)
            done.append(node.func.id)
            self.depth += 1
            out = self.visit(out) if isinstance(out, ast.Call) else self.generic_visit(out)
            self.depth -= 1
            return out

    _Expr().visit(fn)
    return fn, sorted(set(done))


def _binding(fn: pf.FuncDef, e: sf.Embedded, st: N) -> Dict[str, ast.expr]:
    """column -> python expression for every `col = %s` conjunct of a statement's WHERE (positional parameters bound in order)."""
    params = sr.params_in_order(st)
    elts = sr.args_tuple(fn, e.call.args[1]) if len(e.call.args) > 1 else None
    if elts is None or len(elts) != len(params):
        raise AnalysisError(f'{e.qual}: cannot bind the parameters of `{text(st)[:60]}`')
    by = {id(p_): x for p_, x in zip(params, elts)}
    out = {}
    for c in sf.conjuncts(st.where):
        if c.kind == 'bin' and c.op == '=' and c.right.kind == 'param' and c.left.kind == 'col':
            out[c.left.parts[-1].lower()] = by[id(c.right)]
    return out


def r8(ctx: Ctx, m: pf.Module) -> None:
    # ---- (a) every handler hands the token of the spec it validated to the update look-up ----------------------------------------------
    for h, validator, creates in (('create_batch_fast', 'validate_batch', True), ('create_batch', 'validate_batch', True),
                                  ('update_batch_fast', 'validate_batch_update', False), ('create_update', 'validate_batch_update', False)):
        fn = m.func(h)
        cons = f'{FE}::{h}'
        vcalls = [c for c in ast.walk(fn) if isinstance(c, ast.Call) and pf.dotted(c.func) == validator and len(c.args) == 1 and isinstance(c.args[0], ast.Name)]
        ucalls = [c for c in ast.walk(fn) if isinstance(c, ast.Call) and pf.dotted(c.func) == '_create_batch_update']
        ctx.need(len(vcalls) == 1 and len(ucalls) == 1 and len(ucalls[0].args) >= 2, f'{cons}: validator / _create_batch_update call not recognised')
        spec = vcalls[0].args[0].id
        udef = m.func('_create_batch_update')
        upos = [a.arg for a in udef.args.posonlyargs + udef.args.args]
        ub = _bound_args(udef, ucalls[0])
        ctx.need(len(upos) >= 2 and upos[1] in ub, f'{cons}: the token argument of the _create_batch_update call not found')
        tok = pf.expand_locals(fn, ub[upos[1]])
        base = key = None
        if isinstance(tok, ast.Subscript):
            base, key = tok.value, pf.const_str(tok.slice)
        elif isinstance(tok, ast.Call) and isinstance(tok.func, ast.Attribute) and tok.func.attr in ('get', 'pop') and tok.args:
            base, key = tok.func.value, pf.const_str(tok.args[0])
        same_spec = base is not None and pf.nsrc(pf.expand_locals(fn, base)) == pf.nsrc(pf.expand_locals(fn, ast.Name(id=spec, ctx=ast.Load())))
        if not (same_spec and key == 'token'):
            fresh = isinstance(tok, ast.Constant) or any(isinstance(c, ast.Call) and (pf.dotted(c.func) or '') in cf.FRESH_GENERATORS for c in ast.walk(tok))
            other_field = base is not None and key is not None
            ctx.need(fresh or other_field, f'{cons}: the token handed to _create_batch_update (`{pf.nsrc(tok)[:80]}`) is not a field of a request spec; where it comes from is not followed')
        ctx.check(same_spec and key == 'token', 'R8', cons + '::update token argument', f'{h} validates `{spec}` but looks the update up / creates it under the token `{pf.nsrc(tok)}`: a re-sent request is not recognised by the '
                  'token the client sent (or two different requests share one)', m.path, ucalls[0].lineno)
        if creates:
            bcalls = [c for c in ast.walk(fn) if isinstance(c, ast.Call) and pf.dotted(c.func) == '_create_batch' and c.args]
            ctx.need(len(bcalls) == 1, f'{cons}: _create_batch call not recognised')
            ctx.check(pf.nsrc(bcalls[0].args[0]) == spec, 'R8', cons + '::batch spec argument', f'_create_batch receives `{pf.nsrc(bcalls[0].args[0])}`, not the validated `{spec}`', m.path, bcalls[0].lineno)
        # the ids are unpacked and published under the names the client reads (by POSITION in the returned triple, not by local name);
        # response-building helpers (statement- and expression-level) are inlined first, so the dict is seen with the handler's own names
        fn2, inl = _with_response_helpers_inlined(m, h)
        ucalls2 = [c for c in ast.walk(fn2) if isinstance(c, ast.Call) and pf.dotted(c.func) == '_create_batch_update']
        ctx.need(len(ucalls2) == 1, f'{cons}: _create_batch_update call not recognised after inlining {inl}')
        tgs = [n.targets[0] for n in pf.walk_shallow(fn2) if isinstance(n, ast.Assign) and any(x is ucalls2[0] for x in ast.walk(n.value))]
        ctx.need(len(tgs) == 1 and isinstance(tgs[0], ast.Tuple) and len(tgs[0].elts) == 3 and all(isinstance(x, ast.Name) for x in tgs[0].elts),
                 f'{cons}: result of _create_batch_update is not unpacked into three names')
        pos = dict(zip(ID_KEYS, [x.id for x in tgs[0].elts]))
        ctx.need(len(set(pos.values())) == 3, f'{cons}: result of _create_batch_update is unpacked into repeated names')
        bad = []
        nd = 0
        for d in ast.walk(fn2):
            items = _dict_items(d)
            if items is None or not any(k in ID_KEYS for k, _ in items):
                continue
            nd += 1
            for k, v in items:
                if k not in ID_KEYS:
                    continue
                v = _strip_int(pf.expand_locals(fn2, v))
                if isinstance(v, ast.Name) and v.id == pos[k]:
                    continue
                ctx.need(isinstance(v, ast.Name) and v.id in pos.values(), f"{cons}: response value '{k}': {pf.nsrc(v)} is not one of the unpacked ids")
                bad.append(f"'{k}': {pf.nsrc(v)} (line {getattr(d, 'lineno', 0)})")
        ctx.need(nd >= 1, f'{cons}: response dict not found')
        ctx.check(not bad, 'R8', cons + '::response keys', f'_create_batch_update returns (update_id, start_job_group_id, start_job_id), unpacked here into {list(pos.values())}, but the response publishes {bad}'
                  + (f' (helpers inlined: {inl})' if inl else '') + ': job ids and job-group ids (or the update id) change places in the answer - e.g. on the re-sent request that finds its update already '
                  'committed - and the client numbers its jobs from the wrong start', m.path, fn.lineno, detail={'response dicts': nd, 'inlined': inl})

    # ---- (e) the commit handler publishes the start ids of the update it committed, each under its own name ------------------------------------
    fn = m.func('commit_update')
    cons = f'{FE}::commit_update'
    fn2, inl = _with_response_helpers_inlined(m, 'commit_update')
    rows = {}
    for n in pf.walk_shallow(fn2):
        if isinstance(n, ast.Assign) and len(n.targets) == 1 and isinstance(n.targets[0], ast.Name):
            v = n.value.value if isinstance(n.value, ast.Await) else n.value
            if isinstance(v, ast.Call) and isinstance(v.func, ast.Attribute) and v.func.attr in ('select_and_fetchone', 'execute_and_fetchone') and v.args:
                sql, _h, _how = sf._sql_of_expr(fn2, v.args[0])
                if sql is None:
                    continue
                from engines.sqlast import parse_statements, SqlParseError
                try:
                    sts = parse_statements(sql)
                except SqlParseError as e:
                    raise AnalysisError(f'{cons}: SQL not parsed: {e}')
                if len(sts) == 1 and sts[0].kind == 'select' and 'batch_updates' in [t.lower() for t in sf.table_names(sts[0].frm)]:
                    rows[n.targets[0].id] = (sts[0], sr.args_tuple(fn2, v.args[1]) if len(v.args) > 1 else None)
    ctx.need(len(rows) == 1, f'{cons}: read of the update row not recognised')
    rec, (sel, args) = next(iter(rows.items()))
    colmap = {}
    for c, al in sel.cols:
        if c.kind == 'col':
            colmap[(al or c.parts[-1]).lower()] = c.parts[-1].lower()
    # the row is the one of the update being committed
    params = sr.params_in_order(sel)
    pin = None
    for c in sf.conjuncts(sel.where):
        if c.kind == 'bin' and c.op == '=' and c.left.kind == 'col' and c.left.parts[-1].lower() == 'update_id' and c.right.kind == 'param' and args is not None:
            i = [j for j, p_ in enumerate(params) if p_ is c.right]
            if i and i[0] < len(args):
                pin = args[i[0]]
    ccalls = [c for c in ast.walk(fn2) if isinstance(c, ast.Call) and pf.dotted(c.func) == '_commit_update' and len(c.args) >= 3]
    ctx.need(pin is not None and len(ccalls) == 1, f'{cons}: update_id binding of the row read / _commit_update call not recognised')
    ctx.check(pf.nsrc(pin) == pf.nsrc(ccalls[0].args[2]), 'R8', cons + '::row of the committed update', f'the start ids are read from the update `{pf.nsrc(pin)}` but `{pf.nsrc(ccalls[0].args[2])}` is committed',
              m.path, fn.lineno)
    bad = []
    nd = 0
    for d in ast.walk(fn2):
        items = _dict_items(d)
        if items is None or not any(k in ID_KEYS for k, _ in items):
            continue
        nd += 1
        for k, v in items:
            if k not in ID_KEYS:
                continue
            v = _strip_int(pf.expand_locals(fn2, v))
            ctx.need(isinstance(v, ast.Subscript) and isinstance(v.value, ast.Name) and v.value.id == rec and pf.const_str(v.slice) is not None and pf.const_str(v.slice).lower() in colmap,
                     f"{cons}: response value '{k}': {pf.nsrc(v)} is not a column of the update row")
            col = colmap[pf.const_str(v.slice).lower()]
            if col != k:
                bad.append(f"'{k}': batch_updates.{col}")
    ctx.need(nd >= 1, f'{cons}: response dict not found')
    ctx.check(not bad, 'R8', cons + '::response keys', f'the commit response publishes {bad}: the client of the bunched path (Batch._commit_update) numbers its jobs / job groups from the wrong start', m.path, fn.lineno)

    # ---- (b, c) the look-ups compare the stored key columns with the unmodified request token, and the insert stores the very same expressions ----
    for qual, table, keycols in (('_create_batch.insert', 'batches', {'token', 'user'}), ('_create_batch_update.update', 'batch_updates', {'batch_id', 'token'})):
        fn = m.func(qual)
        outer = m.func(qual.split('.')[0])
        oparams = {a_.arg for a_ in outer.args.args + outer.args.kwonlyargs}

        def res(x: ast.AST) -> ast.AST:
            return pf.expand_locals(outer, pf.expand_locals(fn, x))

        look = None
        stored = None
        for e in _embs(m, fn):
            for st in e.stmts():
                if st.kind == 'select' and sf.table_names(st.frm) == [table] and st.lock == 'FOR UPDATE' and not st.order:
                    b_ = _binding(fn, e, st)
                    if set(b_) == keycols:
                        look = (e, {k: res(v) for k, v in b_.items()})
                if st.kind == 'insert' and st.table.lower() == table:
                    elts = sr.args_tuple(fn, e.call.args[1])
                    ctx.need(elts is not None and st.cols is not None and len(elts) == len(st.cols), f'{qual}: cannot bind INSERT INTO {table}')
                    stored = (e, st, {c.lower(): res(x) for c, x in zip(st.cols, elts)})
        ctx.need(look is not None and stored is not None, f'{qual}: token look-up / insert not found for binding check')
        tok = look[1]['token']
        plain = (isinstance(tok, ast.Name) and tok.id in oparams) or \
            (isinstance(tok, ast.Subscript) and isinstance(tok.value, ast.Name) and tok.value.id in oparams and pf.const_str(tok.slice) == 'token')
        got = {k: pf.nsrc(v) for k, v in look[1].items()}
        ctx.check(plain, 'R8', f'{FE}::{qual}::look-up binding', f'the idempotency look-up compares {got}: the token column is not compared with the request token as received (a parameter, or <spec>[\'token\']) '
                  'but with something transformed, truncated or generated, so a retry is not recognised or distinct requests collide', m.path, look[0].lineno)
        sto = {k: pf.nsrc(stored[2][k]) if k in stored[2] else None for k in keycols}
        ctx.check(sto == got and not stored[1].on_dup and not stored[1].ignore and not stored[1].replace, 'R8', f'{FE}::{qual}::stored key = looked-up key',
                  f'the row is stored under {sto} (plain INSERT: {not (stored[1].on_dup or stored[1].ignore or stored[1].replace)}) but a retry looks it up by {got}: the retry does not find the row its first attempt wrote '
                  '(second batch / update), or a colliding row is silently kept / overwritten', m.path, stored[0].lineno)

    # ---- (d) the replayed answer has the stored columns in the positions of the first answer ---------------------------------------------------
    fn = m.func('_create_batch_update.update')
    rets = [n for n in pf.walk_shallow(fn) if isinstance(n, ast.Return) and isinstance(n.value, ast.Tuple)]
    ctx.need(len(rets) == 2, f'_create_batch_update.update: expected two tuple returns (replay, first), found {len(rets)}')
    replay = [r for r in rets if all(isinstance(x, ast.Subscript) for x in r.value.elts)]
    first = [r for r in rets if all(isinstance(x, ast.Name) for x in r.value.elts)]
    ctx.need(len(replay) == 1 and len(first) == 1 and len(replay[0].value.elts) == len(first[0].value.elts) == 3, '_create_batch_update.update: return shapes not recognised')
    ins = None
    for e in _embs(m, fn):
        for st in e.stmts():
            if st.kind == 'insert' and st.table.lower() == 'batch_updates':
                ins = (e, st)
    ctx.need(ins is not None, '_create_batch_update: INSERT INTO batch_updates not found')
    elts = sr.args_tuple(fn, ins[0].call.args[1])
    ctx.need(elts is not None and ins[1].cols is not None and len(elts) == len(ins[1].cols), '_create_batch_update: cannot bind INSERT INTO batch_updates')
    stored = {c.lower(): pf.nsrc(x) for c, x in zip(ins[1].cols, elts)}
    cols = [pf.const_str(x.slice) for x in replay[0].value.elts]
    firsts = [x.id for x in first[0].value.elts]
    ok = all(c is not None and stored.get(c) == v for c, v in zip(cols, firsts)) and cols == list(ID_KEYS)
    ctx.check(ok, 'R8', f'{FE}::_create_batch_update.update::replayed answer', f'a re-sent request is answered with columns {cols}, the original request with {firsts} (stored as '
              f'{ {c: stored.get(c) for c in ID_KEYS} }): the retry tells the client different ids than the first answer', m.path, replay[0].lineno)
    ctx.check(not ins[1].on_dup and not ins[1].ignore and not ins[1].replace, 'R8', f'{FE}::_create_batch_update.update::plain insert', 'batch_updates is written with ON DUPLICATE KEY / IGNORE / REPLACE: '
              'a colliding (batch_id, update_id) or (batch_id, token) silently keeps or overwrites another update\'s range instead of failing, and the ids returned are not the ids stored', m.path, ins[0].lineno)

    # ---- (f) the client reads the ids under the same names and hands job ids to jobs, group ids to groups ----------------------------------------
    cm = pf.load(CL)
    for q in ('Batch._create_fast', 'Batch._update_fast', 'Batch._commit_update'):
        fn = cm.func(q)
        rets = [n for n in pf.walk_shallow(fn) if isinstance(n, ast.Return) and n.value is not None]
        ctx.need(len(rets) == 1, f'{q}: expected one return')
        v = pf.expand_locals(fn, rets[0].value)
        keys = []
        if isinstance(v, ast.Tuple):
            for x in v.elts:
                x = x.args[0] if isinstance(x, ast.Call) and pf.dotted(x.func) == 'int' and len(x.args) == 1 else x
                keys.append(pf.const_str(x.slice) if isinstance(x, ast.Subscript) else None)
        ctx.check(keys == ['start_job_group_id', 'start_job_id'], 'R8', f'{CL}::{q}::returned ids', f'{q} returns the response fields {keys}; submit() expects (start_job_group_id, start_job_id)', cm.path, rets[0].lineno)
    fn = cm.func('Batch._submit')
    pairs = []
    for n in pf.walk_shallow(fn):
        if isinstance(n, ast.Assign) and isinstance(n.targets[0], ast.Tuple) and isinstance(n.value, ast.Await) and isinstance(n.value.value, ast.Call):
            c = n.value.value
            src_ = pf.dotted(c.func) if pf.dotted(c.func) in ID_SOURCES else next((pf.dotted(a) for a in c.args[:1] if pf.dotted(a) in ID_SOURCES), None)
            if src_ is None:
                continue
            pairs.append((src_, [pf.nsrc(x) for x in n.targets[0].elts], n.lineno))
    ctx.need(len(pairs) == 4 and all(len(p_[1]) == 2 for p_ in pairs), f'Batch._submit: expected 4 two-name unpacking sites, found {len(pairs)}')
    rets = [n.value for n in pf.walk_shallow(fn) if isinstance(n, ast.Return) and n.value is not None and pf.nsrc(n.value) != '(None, None)']
    ctx.need(len(rets) == 1 and isinstance(rets[0], ast.Tuple) and len(rets[0].elts) == 2, 'Batch._submit: return shape not recognised')
    rnames = [pf.nsrc(x) for x in rets[0].elts]
    for src_, names, ln in pairs:
        ctx.check(names == rnames, 'R8', f'{CL}::Batch._submit::unpack {src_}', f'{src_} returns (start_job_group_id, start_job_id); it is unpacked into {names} while _submit returns {rnames}: '
                  'group start and job start change places on this path', cm.path, ln)
    ctx.ok('R8', f'{CL}::Batch._submit::returned ids', rnames)
    fn = cm.func('Batch.submit')
    ups = [n.targets[0] for n in pf.walk_shallow(fn) if isinstance(n, ast.Assign) and isinstance(n.value, ast.Await) and isinstance(n.value.value, ast.Call) and pf.dotted(n.value.value.func) == 'self._submit']
    ctx.need(bool(ups) and all(isinstance(u, ast.Tuple) and len(u.elts) == 2 for u in ups) and len({pf.nsrc(u) for u in ups}) == 1, 'Batch.submit: unpacking of _submit() not recognised')
    ctx.ok('R8', f'{CL}::Batch.submit::unpack', pf.nsrc(ups[0]))
    snames = [pf.nsrc(x) for x in ups[0].elts]
    for coll, want, what in (('self._job_groups', snames[0], 'start_job_group_id'), ('self._jobs', snames[1], 'start_job_id')):
        loops = [n for n in pf.walk_shallow(fn) if isinstance(n, ast.For) and pf.nsrc(n.iter) == coll]
        ctx.need(len(loops) == 1, f'Batch.submit: loop over {coll} not found')
        calls = [c for c in ast.walk(loops[0]) if isinstance(c, ast.Call) and isinstance(c.func, ast.Attribute) and c.func.attr == '_submit']
        ok = len(calls) == 1 and pf.nsrc(calls[0].func.value) == pf.nsrc(loops[0].target) and [pf.nsrc(a) for a in calls[0].args] == [want]
        ctx.check(ok, 'R8', f'{CL}::Batch.submit::{coll} numbered from {what}', f'{coll} are submitted with {[pf.nsrc(a) for c in calls for a in c.args]}, expected `{want}` (the {what} returned by _submit): '
                  'the absolute ids computed by the client are not the ids the server assigned', cm.path, loops[0].lineno)

def run(ctx: Ctx) -> None:
    ctx.explanation = 'Dominance / ordering obligations for idempotent submission in the front end and the commit procedure; linear normal forms of the id arithmetic on both sides of the wire.'
    ctx.rule('R1', 'batch / update creation: token look-up FOR UPDATE in the transaction, stored ids returned before any insert', 6)
    ctx.rule('R2', 'update ranges: next start = previous start + previous count, update_id + 1, read DESC LIMIT 1 FOR UPDATE, stored in like-named columns', 5)
    ctx.rule('R3', 'bunch replay: jobs insert first, duplicate-key returns, counters after it, one transaction', 4)
    ctx.rule('R4', 'repeated commit writes nothing: flag read FOR UPDATE inside the transaction, committed branch read-only, all writes under NOT committed', 4)
    ctx.rule('R5', 'job-group bunches only in order', 3)
    ctx.rule('R6', 'absolute id = start + relative - 1 at all client and server sites', 7)
    ctx.rule('R8', 'token and id wiring: handlers pass the validated spec token, look-ups bind it unchanged, replay answer = first answer, ids unpacked / published / read under the same names', 29)
    ctx.rule('R7', 'client tokens name one logical request: update token fresh per update (or cleared on every completing path), not re-drawn by retries; batch token fixed, creation requests once per object', 9)
    m = pf.load(FE)
    from engines import c08ids as _ci
    ctx.unit('SQL texts resolved through module-level constants', _ci.resolve_module_sql(pf.load('batch/batch/front_end/front_end.py')))
    # the rules are independent: a shape one of them cannot analyse must not hide the verdicts of the others
    declined: List[str] = []
    for rule in (lambda: r1(ctx, m), lambda: r2(ctx, m), lambda: r3(ctx, m), lambda: r4(ctx), lambda: r5(ctx, m), lambda: r6(ctx, m), lambda: r8(ctx, m), lambda: r7(ctx)):
        try:
            rule()
        except AnchorRemoved:
            raise
        except AnalysisError as e:
            declined.append(str(e))
    ctx.need(not declined, ' | '.join(declined))
